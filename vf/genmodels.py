"""Seeded random generator of whole-project models (vf.fgen) - standard-conforming Fortran 2008
inside the supported subset.  Identifiers are globally unique by default so any cross-talk is
attributable; deliberate reuse is done by the property-specific generators."""
from __future__ import annotations

import random
from typing import List

from vf.fgen import (Binding, Common, DType, Enum, Interface, Namelist, Proc, SrcFile, TypeSpec, Unit, Use, Var)


class Ctx:
    def __init__(self, rng: random.Random, docs=True, doc_p=0.6):
        self.rng = rng
        self.n = 0
        self.groups = 0
        self.rich = False
        self.doc_features = set()
        self.docs = docs
        self.doc_p = doc_p
        self.tracer = 0

    def name(self, prefix):
        self.n += 1
        base = f"{prefix}q{self.n}"
        c = self.rng.random()
        if c < 0.6:
            return base
        if c < 0.8:
            return base.capitalize()
        return base.upper()

    def doc(self, force=False, maxlines=2):
        if not self.docs or (not force and self.rng.random() > self.doc_p):
            return []
        self.tracer += 1
        if getattr(self, "rich", False):
            from vf import docgrammar

            lines, _ = docgrammar.gen_body(self.rng, self.tracer, features=self.doc_features)
            if self.rng.random() < 0.2:
                keys = self.rng.sample(["author", "version", "date", "since", "category", "license", "summary"], self.rng.randint(1, 2))
                # (keys are not case sensitive)
                meta = [f"{self.rng.choice([k, k, k.capitalize(), k.upper()])}: zm{self.tracer}{k[0]}{i}" for i, k in enumerate(keys)]
                self.doc_features.add("metadata")
                if self.rng.random() < 0.2:
                    # nothing but one metadata line
                    self.doc_features.add("metadata_only_one_line")
                    return meta[:1]
                if self.rng.random() < 0.5 or lines[0].startswith((" ", "@")) or ":" in lines[0]:
                    meta.append("")
                lines = meta + lines
            return lines
        lines = []
        for i in range(self.rng.randint(1, maxlines)):
            lines.append(" ".join(f"zq{self.tracer}w{i}x{k}" for k in range(self.rng.randint(1, 4))))
        return lines


NUM_KINDS = {"integer": ["1", "2", "4", "8"], "real": ["4", "8", "16"], "complex": ["4", "8"], "logical": ["1", "4"]}


def gen_ts(ctx: Ctx, kinds: List[str], types: List[str], allow_class=False, allow_star_len=False, allow_deferred_len=False):
    rng = ctx.rng
    r = rng.random()
    if types and r < 0.15:
        return TypeSpec("class" if (allow_class and rng.random() < 0.4) else "type", proto=rng.choice(types))
    base = rng.choice(["integer", "real", "double precision", "complex", "logical", "character", "integer", "real"])
    if base == "double precision":
        return TypeSpec(base)
    if base == "character":
        lens = [None, "10", "3", "80"]
        if allow_star_len:
            lens += ["*", "*"]
        if allow_deferred_len:
            lens += [":"]
        if kinds:
            lens.append(None)
        ln = rng.choice(lens)
        kd = rng.choice(kinds) if (kinds and rng.random() < 0.15) else None
        if kd is not None and ln is None and rng.random() < 0.5:
            ln = "5"
        return TypeSpec(base, kind=kd, len=ln)
    r = rng.random()
    if r < 0.4:
        return TypeSpec(base)
    if r < 0.8 or not kinds:
        return TypeSpec(base, kind=rng.choice(NUM_KINDS[base]))
    return TypeSpec(base, kind=rng.choice(kinds))


def init_for(ctx: Ctx, ts: TypeSpec, dim):
    rng = ctx.rng
    if ts.base == "integer":
        v = rng.choice(["0", "42", "-1", "huge(1)", "2**3"])
    elif ts.base in ("real", "double precision"):
        v = rng.choice(["0.0", "1.5e3", "3.14d0", "-2.0", "1.0_8"])
    elif ts.base == "complex":
        v = rng.choice(["(1.0, 2.0)", "(0.0,0.0)"])
    elif ts.base == "logical":
        v = rng.choice([".true.", ".false.", ".TRUE."])
    elif ts.base == "character":
        v = rng.choice(["'abc'", '"hello"', "'a b'", "'it''s'", "\"x,y\"", "'(a=1)'", '"don\'t"', "'say \"hi'", '"a!b"', "'Hello  World'", '"MiXed Case"'])
    else:
        return None
    if dim:
        if dim == "(3)":
            if ts.base in ("integer", "real") and ts.kind is None and rng.random() < 0.25:
                return f"[{ts.base} :: {v}, {v}, {v}]"  # array constructor with a type-spec (a `::` inside the initial value)
            return rng.choice([f"[{v}, {v}, {v}]", f"(/ {v}, {v}, {v} /)"]) if ts.base != "character" else None
        if dim == "(2,2)":
            return None
        return None
    return v


def gen_var(ctx: Ctx, role: str, kinds, types, name=None, module_level=False):
    rng = ctx.rng
    is_arg = role == "arg"
    ts = gen_ts(ctx, kinds, types, allow_class=True, allow_star_len=is_arg, allow_deferred_len=True)
    v = Var(name or ctx.name("v" if role != "arg" else "a"), ts, role=role)
    attrs = []
    dim = None
    if rng.random() < 0.35:
        dim = rng.choice(["(3)", "(2,2)", "(:)", "(:,:)"] + (["(*)", "(n)"] if False else []))
    need_dyn = ts.base == "class" and not is_arg or (ts.base == "character" and ts.len == ":")
    dyn = None
    if need_dyn or (rng.random() < 0.2 and ts.base != "character"):
        dyn = rng.choice(["allocatable", "pointer"])
    if ts.base == "character" and ts.len == ":" and not dyn:
        dyn = "allocatable"
    if dyn:
        attrs.append(dyn)
        if dim and ":" not in dim:
            dim = rng.choice(["(:)", "(:,:)"])
    elif dim and ":" in dim and not is_arg:
        dim = rng.choice(["(3)", "(2,2)"])
    if role == "component":
        if rng.random() < 0.2:
            v.access = rng.choice(["public", "private"])
    elif is_arg:
        if rng.random() < 0.7:
            v.intent = rng.choice(["in", "out", "inout"])
        if dyn == "pointer" and v.intent:
            v.intent = rng.choice(["in", "inout"])
        if rng.random() < 0.2:
            attrs.append("optional")
        if not dyn and not dim and ts.base in ("integer", "real", "logical") and rng.random() < 0.1 and v.intent in (None, "in"):
            attrs.append("value")
        if not dyn and rng.random() < 0.1:
            attrs.append("target")
    else:
        if not dyn and rng.random() < 0.15:
            attrs.append("target")
        if rng.random() < 0.1 and not dyn:
            attrs.append("save")
        if rng.random() < 0.05:
            attrs.append("volatile")
        if rng.random() < 0.05:
            attrs.append("asynchronous")
        if module_level and rng.random() < 0.2:
            v.access = rng.choice(["public", "private", "protected"])
    # parameter / initial value
    if role in ("variable",) and not dyn and ts.base not in ("type", "class") and rng.random() < 0.3 and (ts.len != "*"):
        ini = init_for(ctx, ts, dim)
        if ini is not None:
            v.init = ini
            if rng.random() < 0.5 and "target" not in attrs and "save" not in attrs and "volatile" not in attrs and "asynchronous" not in attrs and v.access != "protected":
                v.parameter = True
    elif role == "component" and not dyn and ts.base not in ("type", "class") and rng.random() < 0.2:
        v.init = init_for(ctx, ts, dim)
    elif dyn == "pointer" and role != "arg" and rng.random() < 0.4:
        v.init = "null()"
        v.points = True
    v.attrs = attrs
    v.dim = dim
    if dim:
        v.dim_form = rng.choice(["name", "name", "attr"])
    if not (role == "result"):
        v.doc = ctx.doc()
    return v


def with_siblings(ctx: Ctx, v: Var, p=0.25):
    """Sometimes declare further entities in the same statement as v (same type spec, shared
    attributes and doc comment; individual dimensions, values and extra attributes)."""
    import copy

    rng = ctx.rng
    if rng.random() > p or v.ts.base == "procedure":
        return [v]
    ctx.groups += 1
    v.group = ctx.groups
    out = [v]
    for _ in range(rng.randint(1, 2)):
        w = copy.deepcopy(v)
        w.name = ctx.name("a" if v.role == "arg" else "v")
        if w.dim and w.dim_form == "name" and rng.random() < 0.5 and "allocatable" not in w.attrs and "pointer" not in w.attrs and ":" not in w.dim:
            w.dim = None
            if w.init is not None and w.init.startswith(("[", "(/")):
                w.init = init_for(ctx, w.ts, None) if w.parameter else None
        if w.init is not None and not w.parameter and not w.points and rng.random() < 0.5:
            w.init = None
        # an attribute only this entity has (rendered as a separate attribute statement)
        if v.role in ("variable", "arg") and rng.random() < 0.5 and not w.parameter:
            extra = rng.choice(["target", "volatile", "asynchronous"] + (["save"] if v.role == "variable" else ["optional"]))
            if extra not in w.attrs and not ("pointer" in w.attrs and extra == "target") and not ("allocatable" in w.attrs and extra == "save" and False):
                if not (extra == "target" and "value" in w.attrs):
                    w.attrs = w.attrs + [extra]
        out.append(w)
    return out


def module_level_generic(p):
    return False


def gen_args(ctx: Ctx, kinds, types, nmin=0, nmax=4, first=None):
    rng = ctx.rng
    args = []
    if first is not None:
        args.append(first)
    for _ in range(rng.randint(nmin, nmax)):
        args += with_siblings(ctx, gen_var(ctx, "arg", kinds, types), 0.15)
    return args


def simple_body(ctx: Ctx, p: Proc, callables: List[str]):
    """A few executable statements that reference only local things (C08 has the real grammar)."""
    rng = ctx.rng
    body = []
    ints = [v.name for v in p.locals + p.args if v.ts.base == "integer" and not v.dim and not v.parameter and v.intent != "in" and "allocatable" not in v.attrs and "pointer" not in v.attrs]
    for v in ints[:2]:
        body.append(f"{v} = {rng.randint(0, 9)} + 1")
    for c in callables[:2]:
        if rng.random() < 0.5:
            body.append(f"call {c}()")
    if rng.random() < 0.3:
        body.append("continue")
    if rng.random() < 0.25 and not ({"pure", "elemental"} & set(p.prefixes)):
        # output with literals that hold the other quote character, `!`, `;` and `&`
        body.append("print *, " + ", ".join(rng.sample(['"don\'t"', "'say \"hi'", '"it\'s ! no comment"', "'a;b & c'", '"x"', "'y'"], rng.randint(1, 3))))
    return body


def gen_proc(ctx: Ctx, kinds, types, depth=0, kind=None, self_arg: Var = None, module_level=False, allow_contains=True,
             interface_body=False, name=None):
    rng = ctx.rng
    kind = kind or rng.choice(["subroutine", "function"])
    p = Proc(kind, name or ctx.name("s" if kind == "subroutine" else "f"))
    p.args = gen_args(ctx, kinds, types, 0 if self_arg else 0, 3, first=self_arg)
    if kind == "subroutine" and not p.args and rng.random() < 0.5:
        pass
    p.arg_order = [a.name for a in p.args]
    rng.shuffle(p.arg_order) if (self_arg is None and rng.random() < 0.3) else None
    if rng.random() < 0.25:
        p.prefixes.append(rng.choice(["pure", "recursive", "impure", "elemental", "non_recursive"]))
        if p.prefixes[0] in ("pure", "elemental"):
            for a in p.args:
                if a.intent is None and "value" not in a.attrs:
                    a.intent = "in"
                if "volatile" in a.attrs:
                    a.attrs.remove("volatile")
            if p.prefixes[0] == "elemental":
                for a in p.args:
                    a.dim = None
                    a.attrs = [x for x in a.attrs if x not in ("allocatable", "pointer")]
                    if a.ts.base == "class" and a is not self_arg:
                        a.ts = TypeSpec("integer")
                    if a.ts.base == "character" and a.ts.len == ":":
                        a.ts.len = "*"
    if kind == "function":
        ts = gen_ts(ctx, kinds, types)
        if ts.base == "character" and ts.len in ("*", ":"):
            ts.len = "10"
        if rng.random() < 0.5:
            p.result_clause = True
            rname = ctx.name("r")
        else:
            rname = p.name
        p.result = Var(rname, ts, role="result")
        p.ret_on_prefix = rng.random() < 0.4 and ts.base not in ("class",)
        if p.ret_on_prefix and rng.random() < 0.35 and "elemental" not in p.prefixes and "pure" not in p.prefixes:
            # the result is typed in the prefix; a further attribute can only come from a separate statement
            p.result.attrs = [rng.choice(["pointer", "allocatable", "target"])]
        if not p.ret_on_prefix:
            if rng.random() < 0.3 and "elemental" not in p.prefixes:
                p.result.dim = "(3)"
                p.result.dim_form = rng.choice(["name", "attr"])
            p.result.doc = ctx.doc()
    if not interface_body:
        for _ in range(rng.randint(0, 3)):
            p.locals += with_siblings(ctx, gen_var(ctx, "variable", kinds, types))
        if "pure" in p.prefixes or "elemental" in p.prefixes:
            for v in p.locals:
                if v.init is not None and not v.parameter:
                    v.init = None
                    v.points = False
                v.attrs = [a for a in v.attrs if a not in ("save", "volatile")]
        if rng.random() < 0.15 and depth == 0:
            t = gen_dtype(ctx, kinds, types, simple=True)
            p.types.append(t)
        if rng.random() < 0.15:
            cand = [v.name for v in p.locals if not v.parameter and "allocatable" not in v.attrs and "pointer" not in v.attrs
                    and v.ts.base not in ("type", "class") and not (v.ts.base == "character" and v.ts.len in ("*", ":"))]
            if cand and "pure" not in p.prefixes and "elemental" not in p.prefixes:
                p.namelists.append(Namelist(ctx.name("n"), rng.sample(cand, min(len(cand), rng.randint(1, 2))), ctx.doc()))
        if allow_contains and depth == 0 and rng.random() < 0.3:
            for _ in range(rng.randint(1, 2)):
                p.contains.append(gen_proc(ctx, kinds, types, depth=1, allow_contains=False))
        p.body = simple_body(ctx, p, [c.name for c in p.contains if c.kind == "subroutine" and not c.arg_order])
        if kind == "function" and p.result is not None and p.result.ts.base in ("integer", "real") and not p.result.dim:
            p.body.append(f"{p.result.name} = 0")
    if depth == 0 and not interface_body and not module_level_generic(p) and "elemental" not in p.prefixes and rng.random() < 0.12:
        # a dummy procedure declared by an interface body, sometimes made OPTIONAL by a separate statement
        pa = Proc("subroutine", ctx.name("cb"))
        pa.args = [Var(ctx.name("x"), TypeSpec("integer"), intent=rng.choice([None, "in"]))]
        pa.arg_order = [pa.args[0].name]
        if rng.random() < 0.6:
            pa.dummy_attrs = ["optional"]
        p.proc_args.append(pa)
        p.arg_order.insert(rng.randint(0 if not self_arg else 1, len(p.arg_order)), pa.name)
    if p.bind is None and depth == 0 and not self_arg and rng.random() < 0.08 and not p.prefixes:
        p.bind = rng.choice(["", "c_" + p.name.lower(), "C_" + p.name.capitalize()])
    p.doc = ctx.doc()
    return p


def gen_dtype(ctx: Ctx, kinds, types, simple=False, extends=None):
    rng = ctx.rng
    t = DType(ctx.name("t"))
    t.extends = extends
    if rng.random() < 0.2:
        t.access = rng.choice(["public", "private"])
    if not extends and simple and rng.random() < 0.15:
        t.sequence = True
    t.private_components = rng.random() < 0.2 and not t.sequence
    for _ in range(rng.randint(1, 4)):
        c = gen_var(ctx, "component", kinds, [x for x in types], None)
        if c.ts.base == "class":
            c.ts.base = "type" if "allocatable" not in c.attrs and "pointer" not in c.attrs else "class"
        if c.ts.base == "character" and c.ts.len == "*":
            c.ts.len = "8"
        if t.sequence:
            c.access = None
            if c.ts.base in ("type", "class"):
                c.ts = TypeSpec("integer")
        t.components += with_siblings(ctx, c, 0.2)
    t.doc = ctx.doc()
    return t


def gen_module(ctx: Ctx, avail_modules: List[Unit], with_submodule=False):
    rng = ctx.rng
    m = Unit("module", ctx.name("m"))
    m.doc = ctx.doc()
    if rng.random() < 0.3:
        m.default_access = rng.choice(["private", "public"])
    kinds = []
    # named kind constants
    if rng.random() < 0.6:
        k = Var(ctx.name("k"), TypeSpec("integer"), parameter=True, init=rng.choice(["8", "4", "kind(1.0d0)", "selected_real_kind(12)"]))
        k.doc = ctx.doc()
        m.vars.append(k)
        kinds.append(k.name)
    if rng.random() < 0.3:
        m.uses.append(Use("iso_fortran_env", only=[("real64", None), ("int32", None)], nature=rng.choice([None, "intrinsic"])))
        kinds += ["real64", "int32"]
    types: List[str] = []
    # used modules
    for um in rng.sample(avail_modules, min(len(avail_modules), rng.randint(0, 2))):
        pub_types = [t.name for t in um.types if (t.access or um.default_access or "public") == "public"]
        if rng.random() < 0.5 or not pub_types:
            m.uses.append(Use(um.name))
            types += pub_types
        else:
            sel = rng.sample(pub_types, min(len(pub_types), 2))
            m.uses.append(Use(um.name, only=[(x, None) for x in sel]))
            types += sel
    # derived types
    ntypes = rng.randint(0, 3)
    for i in range(ntypes):
        own = [t.name for t in m.types]
        ext = None
        extc = [t for t in m.types if not t.sequence and not t.bind_c]
        if extc and rng.random() < 0.35:
            ext = rng.choice(extc).name
        t = gen_dtype(ctx, kinds, types + own, extends=ext)
        m.types.append(t)
    alltypes = types + [t.name for t in m.types]
    # module variables
    for _ in range(rng.randint(0, 5)):
        m.vars += with_siblings(ctx, gen_var(ctx, "variable", kinds, alltypes, module_level=True))
    for v in m.vars:
        if v.ts.base == "class" and "allocatable" not in v.attrs and "pointer" not in v.attrs:
            v.ts.base = "type"
    # procedures
    for _ in range(rng.randint(0, 4)):
        p = gen_proc(ctx, kinds, alltypes, module_level=True)
        if rng.random() < 0.15:
            p.access = None
        m.procs.append(p)
    # type-bound procedures: for some types, add bindings with implementing procedures
    for t in m.types:
        if t.sequence or t.bind_c or rng.random() < 0.4:
            continue
        nb = rng.randint(1, 3)
        t.private_bindings = rng.random() < 0.2
        t.multi_binding_stmt = rng.random() < 0.3
        shared_doc = ctx.doc() if t.multi_binding_stmt else []  # the comment after a statement naming several bindings documents each of them
        for _ in range(nb):
            selfarg = Var(ctx.name("self"), TypeSpec("class", proto=t.name), intent=rng.choice(["in", "inout"]), role="arg")
            impl = gen_proc(ctx, kinds, alltypes, self_arg=selfarg, module_level=True, allow_contains=False)
            impl.prefixes = [x for x in impl.prefixes if x != "elemental"]
            impl.bind = None
            m.procs.append(impl)
            b = Binding(ctx.name("b"))
            if rng.random() < 0.6:
                b.target = impl.name
            else:
                b.name = impl.name
            if rng.random() < 0.2:
                b.access = rng.choice(["public", "private"])
            if rng.random() < 0.15:
                b.attrs.append("non_overridable")
            b.doc = ctx.doc() if not t.multi_binding_stmt else list(shared_doc)
            t.bindings.append(b)
        plain = [b for b in t.bindings]
        if len(plain) >= 2 and rng.random() < 0.4:
            g = Binding(ctx.name("g"), generic=[b.name for b in plain[:2]])
            g.doc = ctx.doc()
            t.bindings.append(g)
        if rng.random() < 0.25 and not t.extends:
            fin = Proc("subroutine", ctx.name("s"))
            fa = Var(ctx.name("a"), TypeSpec("type", proto=t.name), intent="inout", role="arg")
            fin.args = [fa]
            fin.arg_order = [fa.name]
            fin.doc = ctx.doc()
            m.procs.append(fin)
            t.finals.append(fin.name)
    # abstract interface + deferred binding on an abstract type
    if rng.random() < 0.35:
        ai = Interface("abstract")
        for _ in range(rng.randint(1, 2)):
            b = gen_proc(ctx, kinds, [], interface_body=True, allow_contains=False)
            b.bind = None
            b.doc = ctx.doc()
            for a in b.args:
                a.doc = a.doc
            ai.bodies.append(b)
        m.interfaces.append(ai)
        # an abstract type whose deferred bindings name these interfaces (several names in one statement when they share one)
        if rng.random() < 0.6:
            at = DType(ctx.name("t"), abstract=True)
            at.doc = ctx.doc()
            at.multi_binding_stmt = rng.random() < 0.6
            for k in range(rng.randint(1, 3)):
                db = Binding(ctx.name("b"), deferred_iface=(ai.bodies[0] if k < 2 else rng.choice(ai.bodies)).name, attrs=["nopass"])
                db.doc = ctx.doc() if not at.multi_binding_stmt else []
                at.bindings.append(db)
            m.types.append(at)
        # procedure pointer variable using it
        if rng.random() < 0.6:
            pv = Var(ctx.name("p"), TypeSpec("procedure", proto=ai.bodies[0].name), attrs=["pointer"], init="null()", points=True)
            pv.doc = ctx.doc()
            m.vars.append(pv)
    # generic interface over module procedures
    subs = [p for p in m.procs if p.kind == "subroutine" and not any(a.ts.base == "class" for a in p.args) and p.bind is None]
    if len(subs) >= 2 and rng.random() < 0.5:
        gi = Interface("generic", ctx.name("i"), modprocs=[subs[0].name, subs[1].name], doc=ctx.doc())
        # make them distinguishable: give them distinct first argument types
        for sp, base in zip(subs[:2], ["integer", "real"]):
            a = Var(ctx.name("a"), TypeSpec(base), intent="in", role="arg")
            sp.args.insert(0, a)
            sp.arg_order.insert(0, a.name)
            for other in sp.args[1:]:
                if "optional" not in other.attrs:
                    other.attrs.append("optional") if "value" not in other.attrs and other.intent != None or True else None
        m.interfaces.append(gi)
    # operator interface
    if rng.random() < 0.25 and m.types:
        t = rng.choice(m.types)
        f = Proc("function", ctx.name("f"))
        a1 = Var(ctx.name("a"), TypeSpec("type", proto=t.name), intent="in", role="arg")
        a2 = Var(ctx.name("a"), TypeSpec("type", proto=t.name), intent="in", role="arg")
        f.args = [a1, a2]
        f.arg_order = [a1.name, a2.name]
        f.result = Var(ctx.name("r"), TypeSpec("type", proto=t.name), role="result")
        f.result_clause = True
        f.doc = ctx.doc()
        m.procs.append(f)
        op = rng.choice(["operator(+)", "operator(.cross.)", "operator(==)", "operator(<)", "operator(*)", "operator(/)"])
        m.interfaces.append(Interface("generic", op, modprocs=[f.name], doc=ctx.doc()))
    if rng.random() < 0.15 and m.types:
        t = rng.choice(m.types)
        s = Proc("subroutine", ctx.name("s"))
        a1 = Var(ctx.name("a"), TypeSpec("type", proto=t.name), intent="out", role="arg")
        a2 = Var(ctx.name("a"), TypeSpec("integer"), intent="in", role="arg")
        s.args = [a1, a2]
        s.arg_order = [a1.name, a2.name]
        s.doc = ctx.doc()
        m.procs.append(s)
        m.interfaces.append(Interface("generic", "assignment(=)", modprocs=[s.name], doc=ctx.doc()))
    # user-defined constructor: a generic interface named like a derived type of the module
    ctor_types = [t for t in m.types if not t.access]  # (type and generic share the identifier: keep its accessibility unambiguous)
    if rng.random() < 0.2 and ctor_types:
        t = rng.choice(ctor_types)
        if not any(it.kind == "generic" and (it.name or "").lower() == t.name.lower() for it in m.interfaces):
            f = Proc("function", ctx.name("f"))
            a1 = Var(ctx.name("a"), TypeSpec("integer"), intent="in", role="arg")
            f.args = [a1]
            f.arg_order = [a1.name]
            f.result = Var(ctx.name("r"), TypeSpec("type", proto=t.name), role="result")
            f.result_clause = True
            f.doc = ctx.doc()
            m.procs.append(f)
            m.interfaces.append(Interface("generic", t.name, modprocs=[f.name], doc=ctx.doc()))
    # explicit interface block for external procedures
    if rng.random() < 0.25:
        ei = Interface("explicit")
        b = gen_proc(ctx, kinds, [], interface_body=True, allow_contains=False)
        b.bind = None
        ei.bodies.append(b)
        m.interfaces.append(ei)
    # enum
    if rng.random() < 0.3:
        items = []
        for _ in range(rng.randint(1, 4)):
            items.append((ctx.name("e"), rng.choice([None, None, str(rng.randint(0, 20)), str(-rng.randint(1, 20))])))
        m.enums.append(Enum(items, ctx.doc()))
    # namelist over module variables
    cand = [v.name for v in m.vars if not v.parameter and v.ts.base not in ("type", "class", "procedure") and "pointer" not in v.attrs
            and "allocatable" not in v.attrs and not (v.ts.base == "character" and v.ts.len in ("*", ":"))]
    if cand and rng.random() < 0.3:
        m.namelists.append(Namelist(ctx.name("n"), rng.sample(cand, min(len(cand), rng.randint(1, 3))), ctx.doc()))
    # explicit access statements for entities without an attribute
    if rng.random() < 0.4:
        pool = [p.name for p in m.procs] + [v.name for v in m.vars if not v.access] + [t.name for t in m.types if not t.access]
        if pool:
            names = rng.sample(pool, min(len(pool), rng.randint(1, 3)))
            acc = rng.choice(["public", "private"])
            m.access_stmts.append((acc, names))
    # fix validity: protected only with save semantics fine at module level; private type components etc fine
    return m


def gen_submodule_pair(ctx: Ctx):
    """A module with separate module procedure interfaces + a submodule implementing them."""
    rng = ctx.rng
    m = Unit("module", ctx.name("m"), doc=ctx.doc())
    it = Interface("explicit")
    impls = []
    for _ in range(rng.randint(1, 3)):
        b = gen_proc(ctx, [], [], interface_body=True, allow_contains=False)
        b.prefixes = ["module"] + [x for x in b.prefixes if x != "elemental"]
        b.bind = None
        it.bodies.append(b)
    m.interfaces.append(it)
    sub = Unit("submodule", ctx.name("sm"), ancestor=m.name, doc=ctx.doc())
    for b in it.bodies:
        if rng.random() < 0.5:
            mp = Proc(b.kind, b.name)
            mp.locals = [gen_var(ctx, "variable", [], []) for _ in range(rng.randint(0, 2))]
            mp.doc = ctx.doc()
            sub.mp_impls.append(mp)
        else:
            # full re-declaration
            import copy

            full = copy.deepcopy(b)
            full.is_interface_body = False
            full.doc = ctx.doc()
            for a in full.args:
                a.doc = []
            if full.result is not None:
                full.result.doc = []
            sub.procs.append(full)
    units = [m, sub]
    if rng.random() < 0.4:
        sub2 = Unit("submodule", ctx.name("sm"), ancestor=m.name, parent_sub=sub.name, doc=ctx.doc())
        p = gen_proc(ctx, [], [], allow_contains=False)
        sub2.procs.append(p)
        units.append(sub2)
    return units


def gen_program(ctx: Ctx, avail_modules: List[Unit]):
    rng = ctx.rng
    pr = Unit("program", ctx.name("p"), doc=ctx.doc())
    for um in rng.sample(avail_modules, min(len(avail_modules), rng.randint(0, 2))):
        pr.uses.append(Use(um.name))
    for _ in range(rng.randint(0, 4)):
        pr.vars.append(gen_var(ctx, "variable", [], []))
    for v in pr.vars:
        v.access = None
    if rng.random() < 0.3:
        cand = [v.name for v in pr.vars if not v.parameter and not v.init and "allocatable" not in v.attrs and "pointer" not in v.attrs
                and v.ts.base in ("integer", "real") and "target" not in v.attrs]
        if cand:
            pr.commons.append(Common(ctx.name("c"), cand[:2], ctx.doc()))
    for _ in range(rng.randint(0, 2)):
        pr.procs.append(gen_proc(ctx, [], [], depth=1, allow_contains=False))
    pr.body = [f"call {p.name}()" for p in pr.procs if p.kind == "subroutine" and not p.arg_order][:2] or ["continue"]
    return pr


def gen_blockdata(ctx: Ctx):
    rng = ctx.rng
    # (a program may hold only one unnamed block data unit)
    unnamed = rng.random() >= 0.8 and not getattr(ctx, "unnamed_blockdata", False)
    if unnamed:
        ctx.unnamed_blockdata = True
    bd = Unit("blockdata", "" if unnamed else ctx.name("bd"), doc=ctx.doc())
    vs = []
    for _ in range(rng.randint(1, 3)):
        v = Var(ctx.name("v"), TypeSpec(rng.choice(["integer", "real"])))
        v.doc = ctx.doc()
        vs.append(v)
    bd.vars = vs
    bd.commons.append(Common(ctx.name("c"), [v.name for v in vs], ctx.doc()))
    return bd


def gen_project(seed: int, nfiles=None, docs=True, features=None, rich_docs=False, ctx_out=None) -> List[SrcFile]:
    rng = random.Random(seed)
    ctx = Ctx(rng, docs=docs)
    ctx.rich = rich_docs
    if ctx_out is not None:
        ctx_out.append(ctx)
    nfiles = nfiles or rng.randint(1, 4)
    files: List[SrcFile] = []
    modules: List[Unit] = []
    features = features or {}
    for i in range(nfiles):
        f = SrcFile(f"src{seed}_{i}".replace("-", "n"))
        if rng.random() < 0.3:
            f.doc = ctx.doc(force=True)
        r = rng.random()
        nunits = rng.randint(1, 2)
        for _ in range(nunits):
            r = rng.random()
            if r < 0.55:
                m = gen_module(ctx, modules)
                f.units.append(m)
                modules.append(m)
            elif r < 0.7 and features.get("submodules", True):
                us = gen_submodule_pair(ctx)
                f.units += us
            elif r < 0.85:
                f.units.append(gen_proc(ctx, [], [], depth=0))
            elif r < 0.93 and features.get("blockdata", True):
                f.units.append(gen_blockdata(ctx))
            else:
                if not any(isinstance(u, Unit) and u.kind == "program" for u in f.units):
                    f.units.append(gen_program(ctx, modules))
                else:
                    f.units.append(gen_proc(ctx, [], [], depth=0))
        files.append(f)
    return files
