"""Grammar of documentation bodies (Markdown + FORD note boxes) made of unique tracer words."""
from __future__ import annotations

import html
import re

NOTE_TYPES = ["note", "warning", "todo", "bug", "history"]
TRACER_RE = re.compile(r"z[qm]\d+[a-z]\d+(?:x\d+)?")
MARK_TOKENS = ["k!>k", "k!*k", "k!|k", "k!!k", "k!^k", "k!%k", "k!~k", "k!@k", "k!#k"]
MARKTOK_RE = re.compile(r"k![>*|!<^%~@#]k")
BLOCK_TAGS = r"p|li|div|pre|h[1-6]|ul|ol|br|td|th|tr|table|blockquote|dt|dd|dl|hr|section"


class Words:
    def __init__(self, prefix):
        self.prefix = prefix
        self.k = 0

    def take(self, n):
        out = []
        for _ in range(n):
            out.append(f"{self.prefix}w{self.k}")
            self.k += 1
        return " ".join(out)


def gen_body(rng, ident, allow=("para", "bullets", "numbered", "fenced", "indented", "note", "table", "latexenv", "defs"), max_blocks=4, features=None):
    """Returns (lines, features).  Every word is a tracer `zq<ident>w<k>`; the expected rendering
    contains exactly these words once, in order."""
    w = Words(f"zq{ident}")
    feats = set() if features is None else features
    lines = []
    nblocks = rng.randint(1, max_blocks)
    prev = None
    footnote = "footnote" in allow or (features is not None and "note" in allow and rng.random() < 0.12)
    for b in range(nblocks):
        kind = rng.choice([a for a in allow if a != "footnote"])
        if b == 0 and kind in ("indented",):
            if rng.random() < 0.5:
                kind = "para"
            else:
                feats.add("indented_code_first")
        note_form = None
        if kind == "note":
            note_form = rng.choice(["inline_blank", "block_end", "inline_end", "end_with_trailing", "text_before_end", "unterminated_last", "two_consecutive",
                                    "text_before_start", "multi_para_end", "end_with_trailing_then_text"])
        if lines and prev == "para" and kind == "note" and note_form != "text_before_start" and rng.random() < 0.35:
            feats.add("note_directly_after_text")  # no blank line between the paragraph and the box
        elif lines and not (prev == "note_unterminated_then_note"):
            lines.append("")
        feats.add(kind)
        if kind == "para":
            for _ in range(rng.randint(1, 3)):
                lines.append(w.take(rng.randint(1, 5)))
                if rng.random() < 0.12:
                    # text that looks like a doc marker pair: part of the documentation, verbatim
                    lines[-1] += " " + rng.choice(MARK_TOKENS) + " " + w.take(1)
                    feats.add("marker_pair_inside_text")
        elif kind == "bullets":
            mark = rng.choice(["*", "-", "+"])
            for _ in range(rng.randint(2, 3)):
                lines.append(f"{mark} {w.take(rng.randint(1, 3))}")
                if rng.random() < 0.3:
                    lines.append(f"  {w.take(2)}")
                    feats.add("list_item_continuation")
        elif kind == "table":
            # a Markdown table (rendered with FORD's striped-table extension): cell words row by row
            ncol = rng.randint(2, 3)
            lines.append("| " + " | ".join(w.take(1) for _ in range(ncol)) + " |")
            lines.append("|" + "|".join(rng.choice(["---", ":---", "---:"]) for _ in range(ncol)) + "|")
            for _ in range(rng.randint(1, 2)):
                lines.append("| " + " | ".join(w.take(rng.randint(1, 2)) for _ in range(ncol)) + " |")
        elif kind == "latexenv":
            # a LaTeX environment (kept for MathJax by FORD's environment extension): its words stay, in order
            env = rng.choice(["equation", "align", "equation*"])
            lines += [f"\\begin{{{env}}}", w.take(rng.randint(1, 3)), f"\\end{{{env}}}"]
        elif kind == "defs":
            # definition list
            lines += [w.take(1), ":   " + w.take(rng.randint(1, 3))]
        elif kind == "numbered":
            for i in range(rng.randint(2, 3)):
                lines.append(f"{i + 1}. {w.take(rng.randint(1, 3))}")
        elif kind == "fenced":
            lines.append(rng.choice(["```", "```text", "~~~"]))
            fence = lines[-1][:3]
            for _ in range(rng.randint(1, 2)):
                lines.append(w.take(rng.randint(1, 3)))
            lines.append(fence)
        elif kind == "indented":
            for _ in range(rng.randint(1, 2)):
                lines.append("    " + w.take(rng.randint(1, 3)))
        elif kind == "note":
            t = rng.choice(NOTE_TYPES)
            tt = rng.choice([t, t.upper(), t.capitalize()]) if rng.random() < 0.3 else t
            form = note_form
            feats.add("note:" + form)
            if form == "inline_blank":
                lines.append(f"@{tt} {w.take(3)}")
                lines.append(w.take(2))
            elif form == "block_end":
                lines += [f"@{tt}", w.take(3), w.take(2), f"@end{tt}"]
            elif form == "inline_end":
                lines += [f"@{tt} {w.take(2)}", w.take(2), f"@end{tt}"]
            elif form == "end_with_trailing":
                lines += [f"@{tt} {w.take(2)}", f"@end{tt} {w.take(2)}"]
            elif form == "end_with_trailing_then_text":
                lines += [f"@{tt} {w.take(2)}", f"@end{tt} {w.take(2)}", w.take(2)]
            elif form == "text_before_end":
                lines += [f"@{tt}", f"{w.take(3)} @end{tt}"]
            elif form == "unterminated_last":
                lines += [f"@{tt} {w.take(2)}", w.take(3)]
            elif form == "two_consecutive":
                t2 = rng.choice(NOTE_TYPES)
                lines += [f"@{tt} {w.take(2)}", f"@{t2} {w.take(2)}", f"@end{t2}"]
            elif form == "text_before_start":
                lines += [f"{w.take(2)} @{tt} {w.take(2)}", f"@end{tt}"]
            else:
                lines += [f"@{tt}", w.take(2), "", w.take(2), f"@end{tt}"]
        prev = kind
    if footnote:
        # a footnote: reference in a closing paragraph, definition last (rendered at the end of the documentation)
        feats.add("footnote")
        label = rng.choice(["1", "1", "offset", "n2"])  # (labels are used as written: they need not be numbers)
        if lines and re.match(r"^z\w+( z\w+)*$", lines[0]) and rng.random() < 0.5:
            feats.add("footnote_reference_in_first_paragraph")
            lines[0] += f" [^{label}]"
            lines.append("")
        else:
            if lines:
                lines.append("")
            lines.append(f"{w.take(2)} [^{label}] {w.take(1)}")
            lines.append("")
        lines.append(f"[^{label}]: {w.take(3)}")
    return lines, feats


def tracer_seq(text_or_lines):
    if isinstance(text_or_lines, (list, tuple)):
        text_or_lines = "\n".join(text_or_lines)
    return TRACER_RE.findall(text_or_lines)


def html_text(h: str) -> str:
    """Visible text of an HTML fragment: block-level tags separate words, inline tags do not."""
    # mdx_math keeps TeX source in <script type="math/tex">: MathJax displays it, so it is visible text
    h = re.sub(r'(?is)<script type="math/tex[^"]*">(.*?)</script>', r" \1 ", h)
    h = re.sub(r"(?is)<(script|style)[^>]*>.*?</\1>", " ", h)
    h = re.sub(rf"(?i)</?(?:{BLOCK_TAGS})(?:\s[^>]*)?/?>", " ", h)
    h = re.sub(r"<[^>]+>", "", h)
    return html.unescape(h)
