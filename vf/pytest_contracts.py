"""pytest plugin: the repository's own test-suite as one more workload for the contracts.

Loaded with `-p vf.pytest_contracts` (PYTHONPATH = /verif:/verif/.deps:<repo>).  Attaches the same icontract post-conditions
the checks use (they record and return True, so no test changes behaviour) and writes what they saw to $VF_CONTRACT_OUT."""
import json
import os
import sys

_STATE = {}


def pytest_configure(config):
    os.environ.setdefault("VERIF_REPO", os.getcwd())
    from vf import core

    core.setup_env()
    import checks.c02 as c02
    import checks.c03 as c03
    import checks.c10 as c10
    import checks.c15 as c15
    import icontract
    import ford.settings as fs
    import ford.sourceform as sf

    # C02: quote tracker and quote_split agree with the independent scanner (no file serving here)
    import ford.reader
    import ford.utils

    for name in ("_contains_unterminated_string", "_unterminated_quote"):
        f = getattr(ford.reader, name, None)
        if f is not None:
            setattr(ford.reader, name, icontract.ensure(c02._post_unterminated, error=c02.ContractBroken)(f))
    ford.utils.quote_split = icontract.ensure(c02._post_quote_split, error=c02.ContractBroken)(ford.utils.quote_split)
    # C03: admonition pre-processor conserves the words
    c03.install_contract()
    # C10: page names are injective per directory
    sf.NameSelector.get_name = icontract.ensure(c10._post_get_name, error=c10.ContractBroken)(sf.NameSelector.get_name)
    # C15: convert_setting returns a value of the option's type (warn is left alone here)
    fs.convert_setting = icontract.ensure(c15._post_convert_setting, error=c15.ContractBroken)(fs.convert_setting)
    _STATE.update(c02=c02, c03=c03, c10=c10, c15=c15)


def pytest_sessionfinish(session, exitstatus):
    out = os.environ.get("VF_CONTRACT_OUT")
    if not out or not _STATE:
        return
    c02, c03, c10, c15 = (_STATE[k] for k in ("c02", "c03", "c10", "c15"))
    data = {
        "exitstatus": int(exitstatus),
        "tests_collected": session.testscollected,
        "tests_failed": session.testsfailed,
        "C02": {"evals_unterminated": c02.MON["unterminated_evals"], "evals_quote_split": c02.MON["quote_split_evals"],
                "violations": [list(map(str, v)) for v in c02.MON["contract_viol"][:20]]},
        "C03": {"evals_admonition_run": c03.MON["admon_evals"], "violations": [{k: str(x)[:300] for k, x in v.items()} for v in c03.MON["admon_viol"][:20]]},
        "C10": {"evals_get_name": c10.MON["get_name_evals"], "violations": c10.MON["collisions"][:20]},
        "C15": {"evals_convert_setting": c15.CONTRACT["convert_setting_evals"], "violations": [list(v) for v in c15.CONTRACT["viol"][:20]]},
    }
    with open(out, "w") as f:
        json.dump(data, f, indent=1, default=str)
