"""Common machinery: environment, verdict bookkeeping, evidence, known findings,
replay files and the fork-per-case parallel runner.

Everything here is harness side; nothing in /repo is edited for instrumentation.
"""
from __future__ import annotations

import hashlib
import json
import os
import pickle
import select
import shutil
import signal
import subprocess
import sys
import tempfile
import time
import traceback

VERIF = os.path.dirname(os.path.dirname(os.path.abspath(__file__)))
REPO = os.environ.get("VERIF_REPO", "/repo")
OUT = os.environ.get("VERIF_OUT", VERIF)  # where evidence/ and replay/ are written (scratch runs against a mutated copy set it)
PY = "/venv/bin/python"


# ----------------------------------------------------------------------------------------------
# environment


def setup_env():
    """Make `import ford` resolve to REPO's *current working tree* and make the contract
    libraries importable.  Called first by every check."""
    os.environ.setdefault("PYTHONHASHSEED", "0")
    os.environ["PYTHONDONTWRITEBYTECODE"] = "1"
    os.environ["FORD_DEBUGGING"] = "1"  # existing FORD switch: disables the rich progress bar
    os.environ["FORD_VERIF"] = "1"  # guard name recorded in MANIFEST.hooks (no source hooks exist)
    if "/venv/bin" not in os.environ.get("PATH", "").split(":"):
        os.environ["PATH"] = "/venv/bin:" + os.environ.get("PATH", "")
    sys.dont_write_bytecode = True
    deps = os.path.join(VERIF, ".deps")
    if not os.path.isdir(os.path.join(deps, "icontract")):
        subprocess.run([os.path.join(VERIF, "setup.sh")], check=False)
    for p in (deps, VERIF, REPO):
        if p in sys.path:
            sys.path.remove(p)
    sys.path.insert(0, deps)
    sys.path.insert(0, VERIF)
    sys.path.insert(0, REPO)
    if os.environ.get("VF_REACH"):
        import atexit

        from vf import reach

        os.environ["VF_REACH_REPO"] = REPO  # CLI runs inherit it (vf/audit_site/sitecustomize.py)
        reach.start(REPO)
        atexit.register(reach.dump)
    import ford  # noqa: F401

    got = os.path.realpath(os.path.dirname(ford.__file__))
    want = os.path.realpath(os.path.join(REPO, "ford"))
    if got != want:
        print(f"INCONCLUSIVE: ford imported from {got}, expected {want}")
        sys.exit(2)
    return ford


def tier() -> str:
    t = os.environ.get("VERIF_TIER", "quick")
    for i, a in enumerate(sys.argv):
        if a == "--tier" and i + 1 < len(sys.argv):
            t = sys.argv[i + 1]
    return "thorough" if t.startswith("t") else "quick"


def seed() -> int:
    try:
        return int(os.environ.get("VERIF_SEED", "0"))
    except ValueError:
        return 0


def replay_arg():
    for i, a in enumerate(sys.argv):
        if a == "--replay" and i + 1 < len(sys.argv):
            return sys.argv[i + 1]
    return None


def mktemp(prefix="vf_") -> str:
    base = os.environ.get("VERIF_TMP", tempfile.gettempdir())
    return tempfile.mkdtemp(prefix=prefix, dir=base)


def h(obj) -> str:
    return hashlib.sha256(json.dumps(obj, sort_keys=True, default=str).encode()).hexdigest()[:16]


# ----------------------------------------------------------------------------------------------
# known findings


def load_known(pid):
    path = os.path.join(VERIF, "known_findings.json")
    try:
        data = json.load(open(path))
    except FileNotFoundError:
        return []
    return [f for f in data.get("findings", []) if f.get("property") == pid]


def match_known(entries, kf: dict):
    """An entry matches a violation iff every key of its `when` predicate is present in the
    violation's classification dict and the value is one of the allowed ones."""
    for e in entries:
        ok = True
        for k, allowed in e.get("when", {}).items():
            v = kf.get(k, None)
            if not isinstance(allowed, list):
                allowed = [allowed]
            if v not in allowed:
                ok = False
                break
        if ok:
            return e
    return None


# ----------------------------------------------------------------------------------------------
# run bookkeeping


class Run:
    """Collects what the monitors observed and turns it into evidence + exit status."""

    def __init__(self, pid, level="exploration", rule="", assumptions=None):
        self.pid = pid
        self.level = level
        self.tier = tier()
        self.seed = seed()
        self.t0 = time.time()
        self.evaluations = 0
        self.nontrivial = set()
        self.rule = rule
        self.samples = []
        self.counters = {}
        self.sets = {}
        self.violations = []  # (kf, witness)
        self.inconclusive = []
        self.assumptions = assumptions or []
        self.extra = {}
        self.max_samples = 4

    # -- counting
    def count(self, key, n=1):
        self.counters[key] = self.counters.get(key, 0) + n

    def seen(self, setname, value):
        self.sets.setdefault(setname, set()).add(value if isinstance(value, (str, int, tuple)) else json.dumps(value, sort_keys=True, default=str))

    def case(self, key=None, nontrivial=False, sample=None):
        self.evaluations += 1
        if nontrivial and key is not None:
            self.nontrivial.add(key)
        if sample is not None and len(self.samples) < self.max_samples:
            self.samples.append(sample)

    def violation(self, kf: dict, witness: dict):
        self.violations.append((kf, witness))

    def inconc(self, why: str):
        self.inconclusive.append(why)

    def merge_counts(self, counters: dict):
        for k, v in (counters or {}).items():
            self.count(k, v)

    # -- finish
    def finish(self, floors: dict | None = None, max_inconclusive_frac=0.05):
        floors = floors or {}
        known = load_known(self.pid)
        unknown = []
        matched = {}
        matched_kf = {}
        for kf, wit in self.violations:
            e = match_known(known, kf)
            if e is None:
                unknown.append((kf, wit))
            else:
                matched.setdefault(e["id"], [e, 0])[1] += 1
                matched_kf.setdefault(e["id"], set()).add(json.dumps(kf, sort_keys=True, default=str))
        # replay files for unknown violations (deduplicated by classification)
        replay_paths = []
        rdir = os.path.join(OUT, "replay", self.pid)
        seen_kf = {}
        for kf, wit in unknown:
            k = json.dumps(kf, sort_keys=True, default=str)
            seen_kf.setdefault(k, []).append(wit)
        if unknown:
            os.makedirs(rdir, exist_ok=True)
        for k, wits in list(seen_kf.items())[:80]:
            wit = wits[0]
            path = os.path.join(rdir, h(wit) + ".json")
            with open(path, "w") as f:
                json.dump({"property": self.pid, "classification": json.loads(k), "count": len(wits),
                           "witness": wit, "seed": self.seed, "tier": self.tier}, f, indent=1, default=str)
            replay_paths.append((json.loads(k), path, len(wits)))

        cov = {
            "evaluations": self.evaluations,
            "distinct_nontrivial": len(self.nontrivial),
            "rule": self.rule,
            "samples": self.samples,
            "counters": dict(sorted(self.counters.items())),
            "distinct_observed": {k: len(v) for k, v in sorted(self.sets.items())},
            "observed_values": {k: sorted(map(str, v))[:60] for k, v in sorted(self.sets.items()) if len(v) <= 200},
            "known_findings_matched": {k: v[1] for k, v in matched.items()},
            "known_findings_matched_classifications": {k: sorted(v)[:12] for k, v in matched_kf.items()},
            "inconclusive_cases": len(self.inconclusive),
            "inconclusive_reasons": sorted(set(self.inconclusive))[:10],
        }
        cov.update(self.extra)
        # coverage floors -> inconclusive
        floor_fail = []
        for k, minimum in floors.items():
            if k == "distinct_nontrivial":
                val = len(self.nontrivial)
            elif k == "evaluations":
                val = self.evaluations
            elif k in self.counters:
                val = self.counters[k]
            elif k in self.sets:
                val = len(self.sets[k])
            else:
                val = 0
            if val < minimum:
                floor_fail.append(f"{k}={val}<{minimum}")
        if self.evaluations and len(self.inconclusive) > max_inconclusive_frac * self.evaluations + 3:
            floor_fail.append(f"inconclusive_cases={len(self.inconclusive)}")
        cov["floors"] = floors
        ev = {
            "property_id": self.pid,
            "tier": self.tier,
            "seed": self.seed,
            "level": self.level,
            "coverage": cov,
            "assumptions": self.assumptions,
            "wall_s": round(time.time() - self.t0, 2),
            "violations": len(unknown),
        }
        os.makedirs(os.path.join(OUT, "evidence"), exist_ok=True)
        evpath = os.path.join(OUT, "evidence", f"{self.pid}.json")
        tmp = evpath + ".tmp"
        with open(tmp, "w") as f:
            json.dump(ev, f, indent=1, default=str)
        os.replace(tmp, evpath)

        for eid, (e, n) in sorted(matched.items()):
            print(f"KNOWN-FINDING: property={self.pid} {eid}: {e.get('what', '')} [{n} case(s) this run]")
        print(f"{self.pid} tier={self.tier} seed={self.seed} evaluations={self.evaluations} "
              f"distinct_nontrivial={len(self.nontrivial)} violations={len(unknown)} "
              f"known={sum(v[1] for v in matched.values())} inconclusive={len(self.inconclusive)} "
              f"wall={ev['wall_s']}s")
        for k in sorted(self.counters):
            print(f"  counter {k} = {self.counters[k]}")
        for k in sorted(self.sets):
            print(f"  distinct {k} = {len(self.sets[k])}")
        if unknown:
            for kf, path, n in replay_paths[:15]:
                print(f"VIOLATION property={self.pid} replay={path}   # {n} case(s): {json.dumps(kf, default=str)[:300]}")
            if len(replay_paths) > 15:
                print(f"  ... {len(replay_paths) - 15} more violation classes with replay files under {rdir}")
            sys.stdout.flush()
            sys.exit(1)
        if floor_fail:
            print(f"INCONCLUSIVE property={self.pid} coverage floor(s) not met: {', '.join(floor_fail)}")
            sys.stdout.flush()
            sys.exit(2)
        sys.stdout.flush()
        sys.exit(0)


# ----------------------------------------------------------------------------------------------
# fork-per-case parallel runner


class _Timeout(Exception):
    pass


def _reach_dump():
    if os.environ.get("VF_REACH"):
        try:
            from vf import reach

            reach.dump()
        except BaseException:  # noqa: BLE001
            pass


def _run_in_child(func, item, timeout):
    """Run func(item) in a forked child; result pickled over a pipe.  Returns
    ('ok', result) | ('error', text) | ('timeout', None) | ('died', status)."""
    r, w = os.pipe()
    pid = os.fork()
    if pid == 0:
        os.close(r)
        code = 0
        try:
            try:
                res = ("ok", func(item))
            except SystemExit as e:  # FORD calls sys.exit on some errors
                res = ("exit", repr(e.code))
            except BaseException:
                res = ("error", traceback.format_exc())
            data = pickle.dumps(res)
            with os.fdopen(w, "wb") as f:
                f.write(data)
        except BaseException:
            code = 3
        finally:
            _reach_dump()
            os._exit(code)
    os.close(w)
    chunks = []
    deadline = time.time() + timeout
    status = None
    with os.fdopen(r, "rb") as f:
        fd = f.fileno()
        while True:
            left = deadline - time.time()
            if left <= 0:
                try:
                    os.kill(pid, signal.SIGKILL)
                except ProcessLookupError:
                    pass
                os.waitpid(pid, 0)
                return ("timeout", None)
            rl, _, _ = select.select([fd], [], [], min(left, 1.0))
            if rl:
                b = os.read(fd, 1 << 20)
                if not b:
                    break
                chunks.append(b)
    _, status = os.waitpid(pid, 0)
    data = b"".join(chunks)
    if not data:
        return ("died", status)
    try:
        return pickle.loads(data)
    except Exception:
        return ("died", status)


def fork_map(func, items, workers=None, case_timeout=120, per_case_fork=True, total_timeout=None):
    """Apply func to every item, in `workers` worker processes.  With per_case_fork each case runs
    in its own forked grandchild (fresh FORD globals, crash/timeout isolation).  Returns a list of
    (status, result) aligned with items.  status in ok/exit/error/timeout/died/notrun."""
    items = list(items)
    n = len(items)
    if n == 0:
        return []
    workers = min(workers or int(os.environ.get("VERIF_WORKERS", "16")), n)
    tmpd = mktemp("vf_map_")
    pids = []
    try:
        for wi in range(workers):
            pid = os.fork()
            if pid == 0:
                code = 0
                try:
                    out = open(os.path.join(tmpd, f"w{wi}.pkl"), "wb")
                    for idx in range(wi, n, workers):
                        if per_case_fork:
                            res = _run_in_child(func, items[idx], case_timeout)
                        else:
                            try:
                                res = ("ok", func(items[idx]))
                            except SystemExit as e:
                                res = ("exit", repr(e.code))
                            except BaseException:
                                res = ("error", traceback.format_exc())
                        pickle.dump((idx, res), out)
                        out.flush()
                    out.close()
                except BaseException:
                    traceback.print_exc()
                    code = 3
                finally:
                    _reach_dump()
                    os._exit(code)
            pids.append(pid)
        deadline = time.time() + (total_timeout or (case_timeout * (n // workers + 2) + 60))
        for pid in pids:
            while True:
                p, _ = os.waitpid(pid, os.WNOHANG)
                if p:
                    break
                if time.time() > deadline:
                    try:
                        os.kill(pid, signal.SIGKILL)
                    except ProcessLookupError:
                        pass
                    os.waitpid(pid, 0)
                    break
                time.sleep(0.02)
        results = [("notrun", None)] * n
        for wi in range(workers):
            path = os.path.join(tmpd, f"w{wi}.pkl")
            if not os.path.exists(path):
                continue
            with open(path, "rb") as f:
                while True:
                    try:
                        idx, res = pickle.load(f)
                    except EOFError:
                        break
                    except Exception:
                        break
                    results[idx] = res
        return results
    finally:
        shutil.rmtree(tmpd, ignore_errors=True)


def run_alone(func, item, timeout=300):
    return _run_in_child(func, item, timeout)
