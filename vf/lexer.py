"""Independent free-form Fortran scanner used as the reference model for C02 (and by the
layout engine to find safe break points).  It knows only the lexical rules: character literals
delimited by ' or ", a doubled delimiter inside a literal stands for one delimiter character,
`!` outside a literal starts a comment, `;` outside a literal separates statements."""
from __future__ import annotations


def scan(s: str, state=None):
    """Yield (index, char, in_literal_before) and return final state (open quote char or None)."""
    q = state
    i = 0
    n = len(s)
    out = []
    while i < n:
        c = s[i]
        if q is None:
            if c in "'\"":
                q = c
                out.append((i, c, True))  # delimiter counts as literal text
            else:
                out.append((i, c, False))
            i += 1
        else:
            if c == q:
                if i + 1 < n and s[i + 1] == q:
                    out.append((i, c, True))
                    out.append((i + 1, c, True))
                    i += 2
                    continue
                out.append((i, c, True))
                q = None
                i += 1
            else:
                out.append((i, c, True))
                i += 1
    return out, q


def in_literal(s: str):
    """Open quote character if `s` ends inside a character literal, else None."""
    return scan(s)[1]


def split_outside(s: str, sep: str):
    """Split at `sep` characters that are outside literals."""
    marks, _ = scan(s)
    parts = []
    left = 0
    for i, c, lit in marks:
        if c == sep and not lit:
            parts.append(s[left:i])
            left = i + 1
    parts.append(s[left:])
    return parts


def comment_start(s: str, state=None):
    """Index of the `!` that starts a comment (outside literals) or -1."""
    marks, _ = scan(s, state)
    for i, c, lit in marks:
        if c == "!" and not lit:
            return i
    return -1


def normalise(s: str) -> str:
    """Collapse runs of blanks outside literals to one blank; strip; literals verbatim."""
    marks, _ = scan(s)
    out = []
    prev_blank = False
    for i, c, lit in marks:
        if not lit and c in " \t":
            if not prev_blank:
                out.append(" ")
            prev_blank = True
        else:
            out.append(c)
            prev_blank = False
    return "".join(out).strip()


def squeeze(s: str) -> str:
    """Remove all blanks outside literals and lower-case outside literals (for comparisons where
    token spacing is not significant)."""
    marks, _ = scan(s)
    return "".join(c if lit else c.lower() for i, c, lit in marks if lit or c not in " \t")


def literals(s: str):
    """List of the character literals in s (with delimiters)."""
    marks, _ = scan(s)
    res = []
    cur = []
    for i, c, lit in marks:
        if lit:
            cur.append(c)
        else:
            if cur:
                res.append("".join(cur))
                cur = []
    if cur:
        res.append("".join(cur))
    # adjacent literals ('a''b' is one literal; 'a' 'b' are two) are already separate because a
    # blank between them is non-literal; 'a'"b" would be glued - split those
    final = []
    for r in res:
        j = 0
        while j < len(r):
            q = r[j]
            k = j + 1
            while k < len(r):
                if r[k] == q:
                    if k + 1 < len(r) and r[k + 1] == q:
                        k += 2
                        continue
                    break
                k += 1
            final.append(r[j:k + 1])
            j = k + 1
    return final


def break_points(s: str):
    """Indices i (0 < i < len(s)) such that s[i-1] or s[i] is a blank outside a literal, i.e. places
    where a free-form line may be broken between tokens."""
    marks, _ = scan(s)
    pts = []
    for idx in range(1, len(marks)):
        i, c, lit = marks[idx]
        pi, pc, plit = marks[idx - 1]
        if (not lit and c == " ") and not (not plit and pc == " "):
            pts.append(i)
    return pts
