"""Observation layer: canonical entity table from FORD's object tree (same format as
vf.fgen.expect_file), and helpers to run the real FORD pipeline in-process."""
from __future__ import annotations

import contextlib
import io
import os
import sys

from vf import lexer
from vf.fgen import norm_expr


def _lw(x):
    return x.lower() if isinstance(x, str) else x


def _name_of(x):
    """Name of a resolved object or the remaining string."""
    if x is None:
        return None
    if isinstance(x, str):
        return x.lower()
    return getattr(x, "name", str(x)).lower()


class DocWords(list):
    """List of documentation words that remembers the entity (used in-process by C03)."""

    ent = None


def docwords(ent):
    words = DocWords()
    for line in getattr(ent, "doc_list", []) or []:
        words += line.split()
    words.ent = ent
    return words


def var_record(v, kind, with_perm=True):
    d = {"vartype": v.vartype.replace(" ", ""), "kind": kind}
    if v.vartype == "character":
        d["strlen"] = str(v.strlen) if v.strlen is not None else "1"
        if v.kind:
            d["kind_"] = str(v.kind).lower()
    elif v.vartype in ("type", "class", "procedure"):
        if v.proto:
            d["proto"] = _name_of(v.proto[0])
            if len(v.proto) > 1 and v.proto[1]:
                d["proto_args"] = str(v.proto[1]).lower()
    elif v.kind:
        d["kind_"] = str(v.kind).lower()
    attribs = set()
    for a in v.attribs or []:
        a = a.replace(" ", "").lower()
        attribs.add(a)
    if getattr(v, "parameter", False):
        attribs.add("parameter")
    if getattr(v, "optional", False):
        attribs.add("optional")
    d["attribs"] = sorted(attribs)
    if v.dimension:
        d["dimension"] = v.dimension.replace(" ", "").lower()
    if v.intent:
        d["intent"] = v.intent.lower()  # FORD canonicalises `in out` to `inout` on every path: compared as stored
    if v.initial is not None:
        d["initial"] = norm_expr(str(v.initial))
        d["points"] = bool(v.points)
    if with_perm:
        d["permission"] = v.permission
    d["doc"] = docwords(v)
    return d


def _fix_var_keys(d):
    # expectation uses "kind" for entity kind and for the type kind parameter under the same key in
    # TypeSpec.expect; keep them apart here
    return d


def add_var(table, path, v, kind, with_perm=True):
    table_key = f"{path}/{kind}:{v.name.lower()}"
    _put(table, table_key, var_record(v, kind, with_perm))


def _put(table, key, rec):
    if key in table:
        table.setdefault("__duplicates__", {"kind": "dups", "keys": []})["keys"].append(key)
    table[key] = rec


def add_type(table, path, t, with_perm=True):
    p = f"{path}/type:{t.name.lower()}"
    attribs = sorted(a.replace(" ", "").lower() for a in t.attribs)
    rec = {"kind": "type", "extends": _name_of(t.extends), "attribs": attribs, "sequence": bool(t.sequence), "doc": docwords(t)}
    if with_perm:
        rec["permission"] = t.permission
    _put(table, p, rec)
    own_vars = getattr(t, "_vf_own_vars", None)
    if own_vars is None:
        own_vars = getattr(t, "local_variables", t.variables)
    for c in own_vars:
        add_var(table, p, c, "component")
    own_bps = getattr(t, "_vf_own_bps", None)
    if own_bps is None:
        own_bps = t.boundprocs
    for b in own_bps:
        d = {"kind": "binding", "permission": b.permission, "doc": docwords(b),
             "attribs": sorted(a.replace(" ", "").lower() for a in b.attribs), "deferred": bool(b.deferred),
             "generic": bool(b.generic), "bindings": [_name_of(x) for x in getattr(b, "_vf_own_bindings", b.bindings)]}
        if b.proto:
            d["proto"] = _name_of(b.proto)
        _put(table, f"{p}/binding:{b.name.lower()}", d)
    for f in t.finalprocs:
        _put(table, f"{p}/final:{f.name.lower()}", {"kind": "final"})


def add_proc(table, path, p, kindname=None, with_perm=False):
    ptype = getattr(p, "proctype", "").lower()
    k = kindname or ptype
    pp = f"{path}/{k}:{p.name.lower()}"
    d = {"kind": k, "proctype": ptype, "attribs": sorted(a for a in p.attribs if a != "module") if False else sorted(p.attribs),
         "args": [_name_of(a) for a in p.args], "doc": docwords(p)}
    if getattr(p, "bindC", None):
        d["bindc"] = lexer.squeeze(p.bindC)
    if with_perm:
        d["permission"] = p.permission
    if hasattr(p, "calls"):
        d["calls"] = sorted(_call_name(c) for c in p.calls)
    _put(table, pp, d)
    for a in p.args:
        if isinstance(a, str):
            _put(table, f"{pp}/arg:{a.lower()}", {"kind": "arg", "unresolved": True})
        elif hasattr(a, "vartype"):
            add_var(table, pp, a, "arg", with_perm=False)
        else:
            _put(table, f"{pp}/arg:{a.name.lower()}", {"kind": "arg", "is_procedure": True, "proctype": getattr(a, "proctype", "").lower(),
                                                        "attribs": sorted(x.replace(" ", "").lower() for x in getattr(a, "attribs", []) or []),
                                                        "args": [_name_of(x) for x in getattr(a, "args", [])]})
    rv = getattr(p, "retvar", None)
    if ptype == "function" and rv is not None:
        if isinstance(rv, str):
            _put(table, f"{pp}/result", {"kind": "result", "name": rv.lower(), "unresolved": True})
        else:
            r = var_record(rv, "result", with_perm=False)
            r["name"] = rv.name.lower()
            _put(table, f"{pp}/result", r)
    add_scope_contents(table, pp, p, module_level=False)


def add_interface(table, path, it, with_perm):
    # generic named interface
    if getattr(it, "generic", False):
        pp = f"{path}/interface:{it.name.lower().replace(' ', '')}"
        d = {"kind": "interface", "modprocs": [m.name.lower() for m in it.modprocs], "doc": docwords(it)}
        if with_perm:
            d["permission"] = it.permission
        _put(table, pp, d)
        for b in list(it.functions) + list(it.subroutines):
            add_proc(table, pp, b, kindname="ifacebody")
    else:
        # FortranModuleProcedureInterface wrapping one body
        k = "absinterface" if getattr(it, "_vf_abstract", False) else "ifacebody"
        proc = it.procedure
        add_proc(table, path, proc, kindname=k)
        key = f"{path}/{k}:{proc.name.lower()}"
        if with_perm:
            table[key]["permission"] = it.permission


def add_scope_contents(table, up, u, module_level):
    for v in getattr(u, "variables", []):
        if isinstance(v, str):
            continue
        add_var(table, up, v, "variable", with_perm=module_level)
    for t in getattr(u, "types", []):
        add_type(table, up, t, with_perm=module_level)
    for it in getattr(u, "interfaces", []):
        add_interface(table, up, it, module_level)
    for it in getattr(u, "absinterfaces", []):
        it._vf_abstract = True
        add_interface(table, up, it, module_level)
    for i, e in enumerate(getattr(u, "enums", [])):
        ep = f"{up}/enum:{i}"
        _put(table, ep, {"kind": "enum", "doc": docwords(e)})
        for v in e.variables:
            _put(table, f"{ep}/enumerator:{v.name.lower()}", {"kind": "enumerator", "initial": str(v.initial).replace(" ", "")})
    for c in getattr(u, "common", []):
        _put(table, f"{up}/common:{(c.name or '').lower()}", {"kind": "common", "vars": [_name_of(v) for v in c.variables], "doc": docwords(c)})
    for n in getattr(u, "namelists", []):
        _put(table, f"{up}/namelist:{n.name.lower()}", {"kind": "namelist", "vars": [_name_of(v) for v in n.variables], "doc": docwords(n)})
    procs = list(getattr(u, "functions", [])) + list(getattr(u, "subroutines", [])) + list(getattr(u, "modfunctions", [])) + list(getattr(u, "modsubroutines", []))
    for p in procs:
        add_proc(table, up, p, with_perm=module_level)
    for p in getattr(u, "modprocedures", []):
        pp = f"{up}/mpimpl:{p.name.lower()}"
        _put(table, pp, {"kind": "mpimpl", "doc": docwords(p)})
        for v in p.variables:
            add_var(table, pp, v, "variable", with_perm=False)


def _call_name(c):
    if isinstance(c, str):
        return c.lower()
    if isinstance(c, (list, tuple)):
        return "%".join(c).lower()
    return getattr(c, "name", str(c)).lower()


def add_unit(table, path, u, kind):
    name = u.name or ""
    if kind == "blockdata" and name == "<em>unnamed</em>":
        name = ""
    up = f"{path}/{kind}:{name.lower()}"
    d = {"kind": kind, "doc": docwords(u)}
    if kind == "submodule":
        d["ancestor"] = _name_of(u.ancestor_module)
        d["parent_sub"] = _name_of(u.parent_submodule)
    if hasattr(u, "calls"):
        d["calls"] = sorted(_call_name(c) for c in u.calls)
    _put(table, up, d)
    add_scope_contents(table, up, u, module_level=kind in ("module", "submodule"))


def snapshot_before_correlate(project):
    """Remember what each derived type declares itself (correlate() merges inherited
    components/bindings into the same lists)."""
    import ford.sourceform as sf

    def walk(scope):
        for t in getattr(scope, "types", []):
            t._vf_own_vars = list(t.variables)
            t._vf_own_bps = list(t.boundprocs)
            for b in t.boundprocs:
                b._vf_own_bindings = list(b.bindings)
        for attr in ("functions", "subroutines", "modprocedures", "modules", "submodules", "programs", "blockdata"):
            for s in getattr(scope, attr, []):
                walk(s)
        for it in getattr(scope, "interfaces", []):
            for attr in ("functions", "subroutines"):
                for s in getattr(it, attr, []):
                    walk(s)
            if getattr(it, "procedure", None) is not None:
                walk(it.procedure)

    for f in project.files:
        walk(f)


def tree(project, strip_ext=False):
    """Canonical table path -> attributes for every file of the project."""
    table = {}
    for f in project.files:
        root = "file:" + (f.name.rsplit(".", 1)[0] if strip_ext else f.name).lower()
        _put(table, root, {"kind": "file", "doc": docwords(f)})
        for m in f.modules:
            add_unit(table, root, m, "module")
        for m in f.submodules:
            add_unit(table, root, m, "submodule")
        for m in f.programs:
            add_unit(table, root, m, "program")
        for m in f.blockdata:
            add_unit(table, root, m, "blockdata")
        for p in list(f.functions) + list(f.subroutines):
            add_proc(table, root, p)
    # bindings lists hold resolved objects after correlate: names already taken through _name_of
    return table


def normalise_expected(table):
    """Bring an expectation table (vf.fgen.expect_file) to the observer's key names."""
    out = {}
    for k, d in table.items():
        d = dict(d)
        if d.get("kind") in ("variable", "component", "arg", "result") or "vartype" in d:
            pass
        out[k] = d
    return out


def diff_tables(expected, observed, ignore_keys=()):
    """List of differences: (path, field, expected, observed)."""
    diffs = []
    for k in sorted(set(expected) | set(observed)):
        if k == "__duplicates__":
            diffs.append((k, "duplicate_entities", None, observed[k]["keys"]))
            continue
        if k not in observed:
            diffs.append((k, "missing", expected[k].get("kind"), None))
            continue
        if k not in expected:
            diffs.append((k, "undeclared", None, observed[k].get("kind")))
            continue
        e, o = expected[k], observed[k]
        for f in sorted(set(e) | set(o)):
            if f in ignore_keys:
                continue
            ev, ov = e.get(f), o.get(f)
            if ev in (None, [], False, "") and ov in (None, [], False, ""):
                continue
            if ev != ov:
                diffs.append((k, f, ev, ov))
    return diffs


# ---------------------------------------------------------------------------------------------
# running FORD in-process


class Captured:
    def __init__(self):
        self.warnings = []
        self.stdout = ""


def install_warn_recorder(cap: Captured):
    import ford.console
    import ford

    def rec(*a, **k):
        cap.warnings.append(" ".join(str(x) for x in a))

    for name, mod in list(sys.modules.items()):
        if name == "ford" or name.startswith("ford."):
            if getattr(mod, "warn", None) is not None and callable(mod.warn):
                mod.warn = rec


def parse_and_correlate(src_dirs, settings_kw=None, correlate=True, cap: Captured = None):
    """Project(settings) [+ correlate()] on the real code with all entities kept
    (display everything, proc_internals) unless overridden."""
    from ford.settings import ProjectSettings
    from ford.fortran_project import Project

    import pathlib

    kw = dict(src_dir=[pathlib.Path(p) for p in src_dirs], preprocess=False, display=["public", "private", "protected"], proc_internals=True,
              dbg=True, warn=False, quiet=True)
    kw.update(settings_kw or {})
    settings = ProjectSettings(**kw)
    # parse_arguments would empty this when preprocess is off
    if not settings.preprocess:
        settings.fpp_extensions = []
    cap = cap or Captured()
    install_warn_recorder(cap)
    buf = io.StringIO()
    with contextlib.redirect_stdout(buf):
        project = Project(settings)
        snapshot_before_correlate(project)
        if correlate:
            project.correlate()
    cap.stdout = buf.getvalue()
    return project, cap
