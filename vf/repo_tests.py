"""Runs the repository's own test-suite with the contracts attached (vf/pytest_contracts.py) and returns what they observed."""
import json
import os
import subprocess

from vf import core


def run(timeout=1500):
    out = os.path.join(core.mktemp("vf_rt_"), "contracts.json")
    env = dict(os.environ)
    env["PYTHONPATH"] = ":".join([core.VERIF, os.path.join(core.VERIF, ".deps"), core.REPO])
    env["VERIF_REPO"] = core.REPO
    env["VF_CONTRACT_OUT"] = out
    env["PATH"] = "/venv/bin:" + env.get("PATH", "")
    env.pop("FORD_DEBUGGING", None)
    try:
        p = subprocess.run([core.PY, "-B", "-m", "pytest", "-q", "-p", "no:cacheprovider", "-p", "vf.pytest_contracts", "--timeout=900", "test"],
                           cwd=core.REPO, env=env, capture_output=True, text=True, timeout=timeout)
    except subprocess.TimeoutExpired:
        return None
    try:
        data = json.load(open(out))
    except Exception:  # noqa: BLE001
        return {"error": (p.stdout + p.stderr)[-1500:]}
    data["tail"] = p.stdout.strip().splitlines()[-1:] if p.stdout else []
    return data


def attach(run_obj, pid):
    """Adds what the contracts of property `pid` saw during the repository's test-suite to the evidence of a run (thorough tiers)."""
    d = run()
    if d is None or "error" in (d or {}):
        run_obj.inconc("repository test-suite with contracts did not produce a report: " + str((d or {}).get("error", "time-out"))[-300:])
        return
    mine = d.get(pid, {})
    for k, v in mine.items():
        if k.startswith("evals_"):
            run_obj.count("repo_test_suite_contract_" + k, v)
    run_obj.count("repo_test_suite_tests_run", d.get("tests_collected", 0))
    for v in mine.get("violations", []):
        run_obj.violation({"kind": "contract_violated_during_repository_test_suite", "contract_of": pid}, {"witness": v})
