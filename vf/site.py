"""Complete FORD runs (in a forked child or as a CLI subprocess) and parsing of the generated site."""
from __future__ import annotations

import contextlib
import io
import json
import os
import posixpath
import re
import subprocess
import sys
import urllib.parse

from vf import core


def write_project_file(root, options: dict, body="Front page text zfront1.\n", name="proj.md"):
    lines = []
    for k, v in options.items():
        if isinstance(v, (list, tuple)):
            if not v:
                continue
            lines.append(f"{k}: {v[0]}")
            for x in v[1:]:
                lines.append(f"    {x}")
        elif isinstance(v, bool):
            lines.append(f"{k}: {'true' if v else 'false'}")
        elif isinstance(v, dict):
            items = list(v.items())
            if not items:
                continue
            sep = ":" if k in ("extra_mods", "extra_vartypes") else "="
            lines.append(f"{k}: {items[0][0]} {sep} {items[0][1]}")
            for a, b in items[1:]:
                lines.append(f"    {a} {sep} {b}")
        else:
            lines.append(f"{k}: {v}")
    path = os.path.join(root, name)
    with open(path, "w") as f:
        f.write("\n".join(lines) + "\n\n" + body)
    return path


def run_in_process(root, project_file="proj.md", extra_cli=None, record_warnings=True):
    """To be called inside a forked child: runs the real ford.run() machinery with cwd=root.
    Returns dict(outcome, stdout, warnings, output_dir)."""
    import ford

    os.chdir(root)
    warnings = []
    if record_warnings:
        def rec(*a, **k):
            warnings.append(" ".join(str(x) for x in a))

        for name, mod in list(sys.modules.items()):
            if (name == "ford" or name.startswith("ford.")) and callable(getattr(mod, "warn", None)):
                mod.warn = rec
    out = io.StringIO()
    old_argv = sys.argv
    sys.argv = ["ford", project_file] + list(extra_cli or [])
    res = {"outcome": "ok"}
    try:
        with contextlib.redirect_stdout(out), contextlib.redirect_stderr(out):
            try:
                proj_data, proj_docs = ford.initialize()
                res["output_dir"] = str(proj_data.output_dir)
                ford.main(proj_data, proj_docs)
            except SystemExit as e:
                res = {"outcome": "exit", "code": str(e.code)[:500]}
            except BaseException as e:
                import traceback

                res = {"outcome": "raise", "error": f"{type(e).__name__}: {str(e)[:400]}", "tb": traceback.format_exc()[-2500:]}
    finally:
        sys.argv = old_argv
    res["stdout"] = out.getvalue()[-6000:]
    res["warnings"] = warnings[:200]
    return res


def run_cli(root, project_file="proj.md", extra_cli=None, env=None, timeout=300, cwd=None):
    """Real `python -m ford` subprocess with REPO first on PYTHONPATH."""
    e = dict(os.environ)
    e["PYTHONPATH"] = core.REPO + (":" + e["PYTHONPATH"] if e.get("PYTHONPATH") else "")
    e["PATH"] = "/venv/bin:" + e.get("PATH", "")
    e.pop("FORD_DEBUGGING", None)
    e["FORD_DEBUGGING"] = "1"
    e["PYTHONDONTWRITEBYTECODE"] = "1"
    e.update(env or {})
    if os.environ.get("VF_REACH"):
        audit = os.path.join(core.VERIF, "vf", "audit_site")
        if audit not in e["PYTHONPATH"].split(":"):
            e["PYTHONPATH"] = audit + ":" + e["PYTHONPATH"]
        e["VF_REACH_REPO"] = core.REPO
    try:
        p = subprocess.run([core.PY, "-B", "-m", "ford", project_file] + list(extra_cli or []), cwd=cwd or root, env=e, capture_output=True, text=True, timeout=timeout)
        return {"rc": p.returncode, "stdout": p.stdout[-6000:], "stderr": p.stderr[-6000:]}
    except subprocess.TimeoutExpired as t:
        return {"rc": "timeout", "stdout": str(t.stdout)[-2000:], "stderr": str(t.stderr)[-2000:]}


# ---------------------------------------------------------------------------------------------
# parsing the output


URL_ATTRS = ("href", "src", "action", "xlink:href", "data", "poster")


def parse_site(out_dir):
    """Returns dict with pages (rel path -> info), files (set of rel paths), search records."""
    from bs4 import BeautifulSoup

    files = set()
    for dp, dn, fn in os.walk(out_dir):
        for f in fn:
            files.add(os.path.relpath(os.path.join(dp, f), out_dir))
    pages = {}
    for rel in sorted(files):
        if not rel.endswith(".html"):
            continue
        raw = open(os.path.join(out_dir, rel), encoding="utf-8", errors="replace").read()
        soup = BeautifulSoup(raw, "html.parser")
        ids = []
        id_attrs = []
        links = []
        for el in soup.find_all(True):
            if el.has_attr("id"):
                ids.append(el["id"])
                id_attrs.append((el["id"], el.name + ":" + core.h(el.get_text(" ", strip=True))[:12]))
            if el.name == "a" and el.has_attr("name"):
                ids.append(el["name"])
            for a in URL_ATTRS:
                if el.has_attr(a):
                    links.append((el.name, a, el[a]))
        # text without source listings
        soup2 = BeautifulSoup(raw, "html.parser")
        for hl in soup2.select("div.hl, div.codehilite, table.codehilitetable, pre.hl"):
            hl.decompose()
        for sc in soup2(["script", "style"]):
            if sc.name == "script" and str(sc.get("type", "")).startswith("math/tex"):
                sc.replace_with(" " + sc.get_text() + " ")  # TeX source shown by MathJax: visible text
            else:
                sc.decompose()
        pages[rel] = {"ids": ids, "id_attrs": id_attrs, "links": links, "text": soup2.get_text(" "), "title": (soup.title.get_text() if soup.title else ""), "raw_len": len(raw)}
    search = []
    sp = os.path.join(out_dir, "search", "search_database.json")
    if os.path.exists(sp):
        try:
            txt = open(sp, encoding="utf-8").read()
            if txt.startswith("var tipuesearch ="):
                txt = txt[len("var tipuesearch ="):]
            search = json.loads(txt).get("pages", [])
        except Exception as e:  # noqa
            search = [{"error": str(e)}]
    return {"pages": pages, "files": files, "search": search}


def is_external(url):
    u = url.strip()
    return bool(re.match(r"^[a-zA-Z][a-zA-Z0-9+.-]*:", u)) or u.startswith("//")


def check_links(site, out_dir):
    """C09 checker.  Returns list of problems: dict(page, url, kind, why)."""
    problems = []
    pages = site["pages"]
    files = site["files"]
    idsets = {p: set(info["ids"]) for p, info in pages.items()}
    nlinks = 0

    def check(page_rel, url, where):
        nonlocal nlinks
        u = url.strip()
        if u in ("", "#") or u.startswith(("javascript:", "mailto:", "data:")):
            return
        if is_external(u):
            if u.lower().startswith("file:"):
                problems.append({"page": page_rel, "url": url, "where": where, "why": "file_url"})
            return
        nlinks += 1
        if u.startswith("/") or os.path.realpath(out_dir) in u:
            problems.append({"page": page_rel, "url": url, "where": where, "why": "absolute"})
            return
        path, _, frag = u.partition("#")
        path = path.split("?")[0]
        path = urllib.parse.unquote(path)
        frag = urllib.parse.unquote(frag)
        base = posixpath.dirname(page_rel)
        target = posixpath.normpath(posixpath.join(base, path)) if path else page_rel
        if target.startswith(".."):
            problems.append({"page": page_rel, "url": url, "where": where, "why": "escapes_output_dir"})
            return
        if target not in files:
            if os.path.isdir(os.path.join(out_dir, target)):
                if posixpath.join(target, "index.html") in files:
                    target = posixpath.join(target, "index.html")
                else:
                    problems.append({"page": page_rel, "url": url, "where": where, "why": "target_is_directory"})
                    return
            else:
                problems.append({"page": page_rel, "url": url, "where": where, "why": "missing_target"})
                return
        raw_frag = u.partition("#")[2]
        if frag and target in idsets and frag not in idsets[target] and raw_frag not in idsets[target]:
            problems.append({"page": page_rel, "url": url, "where": where, "why": "missing_fragment", "target": target})

    for rel, info in pages.items():
        for tag, attr, url in info["links"]:
            check(rel, url, f"{tag}@{attr}")
    for rec in site["search"]:
        if "url" in rec:
            check("search.html", rec["url"], "search_index")
    return problems, nlinks


RELURL_MON = {"evals": 0, "entity_evals": 0, "viol": []}


def install_relurl_contract():
    """Post-condition on the `relurl` template filter (ford.output.relative_url), evaluated on every link the templates render:
    for an entity argument the returned link, read from the directory of the page being rendered, is the entity's own URL
    (`entity.get_url()`), whatever was rendered before.  The filter table keeps a reference bound at import time, so the wrapped
    function is put into the table itself.  Returns the monitor's counters (same object on every call)."""
    import ford.output as fo
    import ford.sourceform as sf

    if getattr(fo, "_vf_relurl_wrapped", False):
        return RELURL_MON
    orig = fo.env.filters["relurl"]

    def checked(entity, page_url):
        result = orig(entity, page_url)
        RELURL_MON["evals"] += 1
        try:
            if isinstance(entity, sf.FortranBase) and not hasattr(entity, "external_url"):
                url = entity.get_url()
                m = re.search(r"""href=["']([^"']*)["']""", str(result))
                if url and m and not m.group(1).startswith("http"):
                    RELURL_MON["entity_evals"] += 1
                    href = urllib.parse.unquote(m.group(1))
                    path, _, frag = href.partition("#")
                    want_path, _, want_frag = urllib.parse.unquote(str(url)).partition("#")
                    got = os.path.normpath(os.path.join(os.path.dirname(str(page_url)), path))
                    ok = (got == os.path.normpath(want_path) or got.endswith(os.sep + os.path.normpath(want_path).lstrip("./"))) and frag == want_frag
                    if not ok and len(RELURL_MON["viol"]) < 20:
                        RELURL_MON["viol"].append({"entity": f"{type(entity).__name__}:{entity.name}", "defined_in": str(getattr(entity, "filename", "")),
                                                   "entity_url": str(url), "rendered_href": m.group(1), "page": str(page_url)})
        except Exception as e:  # the monitor must not change the run
            RELURL_MON.setdefault("errors", []).append(f"{type(e).__name__}: {e}")
        return result

    fo.env.filters["relurl"] = checked
    fo._vf_relurl_wrapped = True
    return RELURL_MON
