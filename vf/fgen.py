"""Abstract Fortran program model + seeded renderer.

The *model* (plain python objects, JSON-serialisable through to_json) is ground truth: what is
declared where.  `render_file(file, style)` turns it into logical statements (vf.layout lays them
out physically, free or fixed form); `expect_file(file)` computes the canonical entity table the
documentation tool must report (path -> attributes), independently of any spelling choice.

Only standard-conforming Fortran 2008 inside the supported subset is produced (see DESIGN.md 2.4).
"""
from __future__ import annotations

import random
from dataclasses import dataclass, field, asdict
from typing import List, Optional, Dict, Any

# ---------------------------------------------------------------------------------------------
# style: the spelling choices of the renderer


class Style:
    """All spelling choices derive from one seeded RNG; `pick` records nothing - the style is
    reproducible from (seed)."""

    def __init__(self, seed, fixed_choices=None):
        self.rng = random.Random(seed)
        self.seed = seed
        self.kwcase = self.rng.choice(["lower", "upper", "title", "mixed"])
        self.namecase = self.rng.choice(["asis", "upper", "lower", "mixed"])
        self.dcolon_bias = self.rng.random()
        self.sep_attr_bias = self.rng.choice([0.0, 0.3, 0.7, 1.0])
        self.paren_blanks = self.rng.random() < 0.3
        self.canonical = False
        if fixed_choices:
            for k, v in fixed_choices.items():
                setattr(self, k, v)

    @classmethod
    def plain(cls):
        s = cls(0)
        s.kwcase = "lower"
        s.namecase = "asis"
        s.dcolon_bias = 1.0
        s.sep_attr_bias = 0.0
        s.paren_blanks = False
        s.canonical = True
        return s

    def kw(self, word: str) -> str:
        if self.kwcase == "lower":
            return word.lower()
        if self.kwcase == "upper":
            return word.upper()
        if self.kwcase == "title":
            return word.title() if self.rng.random() < 0.8 else word.lower()
        return "".join(c.upper() if self.rng.random() < 0.5 else c.lower() for c in word)

    def nm(self, name: str) -> str:
        """A *use* of an identifier: Fortran is case-insensitive."""
        if self.namecase == "asis" or not name:
            return name
        if self.namecase == "upper":
            return name.upper()
        if self.namecase == "lower":
            return name.lower()
        return "".join(c.upper() if self.rng.random() < 0.5 else c.lower() for c in name)

    def dcolon(self) -> bool:
        return self.rng.random() < self.dcolon_bias

    def separate_attr(self) -> bool:
        return self.rng.random() < self.sep_attr_bias

    def choice(self, seq):
        if self.canonical:
            return seq[0]
        return self.rng.choice(seq)

    def flip(self, p=0.5):
        if self.canonical:
            return False
        return self.rng.random() < p

    def paren(self, inner: str) -> str:
        if self.paren_blanks and self.rng.random() < 0.5:
            return f"( {inner} )"
        return f"({inner})"


# ---------------------------------------------------------------------------------------------
# model


@dataclass
class TypeSpec:
    base: str  # integer real double precision complex logical character type class procedure
    kind: Optional[str] = None  # numeric literal or named constant
    len: Optional[str] = None  # character only: "10", "*", ":", name
    proto: Optional[str] = None  # type/class/procedure target name, or "*"

    def render(self, st: Style) -> str:
        b = self.base
        if b == "double precision":
            return st.choice([st.kw("double") + " " + st.kw("precision"), st.kw("doubleprecision"), st.kw("double") + "  " + st.kw("precision")])
        if b in ("type", "class", "procedure"):
            return st.kw(b) + st.paren(st.nm(self.proto) if self.proto != "*" else "*")
        if b == "character":
            k, l = self.kind, self.len
            forms = []
            if k is None and l is None:
                return st.kw("character")
            if k is None:
                forms = [f"({l})", f"({st.kw('len')}={l})", f"({st.kw('len')} = {l})"]
                if l.isdigit():
                    forms.append(f"*{l}")
                elif l == "*":
                    forms.append("*(*)")
            elif l is None:
                forms = [f"({st.kw('kind')}={st.nm(k)})"]
            else:
                forms = [f"({st.kw('len')}={l}, {st.kw('kind')}={st.nm(k)})", f"({st.kw('kind')}={st.nm(k)}, {st.kw('len')}={l})",
                         f"({l}, {st.nm(k)})", f"({l}, {st.kw('kind')}={st.nm(k)})"]
            return st.kw("character") + st.choice(forms)
        # numeric / logical
        if self.kind is None:
            return st.kw(b)
        k = self.kind
        forms = [st.paren(st.nm(k)), st.paren(f"{st.kw('kind')}={st.nm(k)}"), st.paren(f"{st.kw('kind')} = {st.nm(k)}")]
        if k.isdigit():
            forms.append(f"*{k}")
        return st.kw(b) + st.choice(forms)

    def expect(self) -> Dict[str, Any]:
        d = {"vartype": self.base.replace(" ", "")}
        if self.base == "character":
            d["strlen"] = self.len or "1"
            if self.kind:
                d["kind_"] = self.kind.lower()
        elif self.base in ("type", "class", "procedure"):
            d["proto"] = self.proto.lower()
        elif self.kind:
            d["kind_"] = self.kind.lower()
        return d


SEPARABLE = ["allocatable", "pointer", "target", "save", "volatile", "asynchronous", "value", "optional"]


@dataclass
class Var:
    name: str
    ts: TypeSpec
    attrs: List[str] = field(default_factory=list)  # subset of SEPARABLE + contiguous
    dim: Optional[str] = None  # "(3)" "(:)" "(2,2)" "(n)"
    dim_form: str = "name"  # name: x(3) | attr: dimension(3)
    intent: Optional[str] = None
    parameter: bool = False
    init: Optional[str] = None  # expression text (canonical spelling, blanks allowed)
    points: bool = False
    access: Optional[str] = None  # public private protected
    doc: List[str] = field(default_factory=list)
    role: str = "variable"  # variable component arg result
    group: Optional[int] = None  # consecutive variables with the same group id share one declaration statement

    def expect(self) -> Dict[str, Any]:
        d = self.ts.expect()
        at = set(a for a in self.attrs)
        if self.parameter:
            at.add("parameter")
        if self.dim and self.dim_form == "attr":
            at.add("dimension" + self.dim.replace(" ", "").lower())
        elif self.dim:
            d["dimension"] = self.dim.replace(" ", "").lower()
        d["attribs"] = sorted(at)
        if self.intent:
            d["intent"] = self.intent
        if self.init is not None:
            d["initial"] = norm_expr(self.init)
            d["points"] = self.points
        return d


def norm_expr(s: str) -> str:
    """Canonical form of an expression: blanks removed and lower-cased outside literals, NBSP ->
    blank and doubled backslashes undone inside."""
    from vf import lexer

    s = s.replace("\xa0", " ").replace("\\\\", "\\")
    return lexer.squeeze(s)


@dataclass
class Binding:
    name: str
    target: Optional[str] = None  # procedure :: name => target
    generic: Optional[List[str]] = None  # generic :: name => a, b
    deferred_iface: Optional[str] = None  # procedure(iface), deferred :: name
    attrs: List[str] = field(default_factory=list)  # nopass, non_overridable, pass(x)
    access: Optional[str] = None
    doc: List[str] = field(default_factory=list)


@dataclass
class DType:
    name: str
    access: Optional[str] = None
    extends: Optional[str] = None
    abstract: bool = False
    bind_c: bool = False
    sequence: bool = False
    private_components: bool = False
    components: List[Var] = field(default_factory=list)
    private_bindings: bool = False
    bindings: List[Binding] = field(default_factory=list)
    multi_binding_stmt: bool = False  # render consecutive plain bindings as one statement
    finals: List[str] = field(default_factory=list)
    doc: List[str] = field(default_factory=list)


@dataclass
class Proc:
    kind: str  # subroutine | function
    name: str
    args: List[Var] = field(default_factory=list)
    proc_args: List["Proc"] = field(default_factory=list)  # dummy procedures declared by interface body (names also in arg_order)
    dummy_attrs: List[str] = field(default_factory=list)  # when this Proc is a dummy procedure: attributes given by separate statements (optional)
    arg_order: List[str] = field(default_factory=list)
    result: Optional[Var] = None  # function result variable (name may equal function name)
    result_clause: bool = False
    ret_on_prefix: bool = False
    prefixes: List[str] = field(default_factory=list)  # pure elemental recursive impure non_recursive module
    bind: Optional[str] = None  # None | "" (bind(c)) | "cname"
    uses: List["Use"] = field(default_factory=list)
    locals: List[Var] = field(default_factory=list)
    types: List[DType] = field(default_factory=list)
    interfaces: List["Interface"] = field(default_factory=list)
    namelists: List["Namelist"] = field(default_factory=list)
    commons: List["Common"] = field(default_factory=list)
    body: List[str] = field(default_factory=list)  # executable statements (canonical text)
    contains: List["Proc"] = field(default_factory=list)
    access: Optional[str] = None
    doc: List[str] = field(default_factory=list)
    is_interface_body: bool = False
    import_stmt: bool = False


@dataclass
class Interface:
    kind: str  # generic | abstract | explicit
    name: Optional[str] = None  # generic: identifier or operator(+) / assignment(=)
    bodies: List[Proc] = field(default_factory=list)
    modprocs: List[str] = field(default_factory=list)
    access: Optional[str] = None
    doc: List[str] = field(default_factory=list)


@dataclass
class Enum:
    items: List[tuple] = field(default_factory=list)  # (name, explicit value or None)
    doc: List[str] = field(default_factory=list)


@dataclass
class Common:
    name: str
    vars: List[str] = field(default_factory=list)
    doc: List[str] = field(default_factory=list)


@dataclass
class Namelist:
    name: str
    vars: List[str] = field(default_factory=list)
    doc: List[str] = field(default_factory=list)


@dataclass
class Use:
    module: str
    only: Optional[List[tuple]] = None  # list of (local, remote) ; remote None when no rename
    renames: List[tuple] = field(default_factory=list)  # without ONLY
    nature: Optional[str] = None  # intrinsic | non_intrinsic


@dataclass
class Unit:
    kind: str  # module submodule program blockdata
    name: str
    uses: List[Use] = field(default_factory=list)
    default_access: Optional[str] = None
    vars: List[Var] = field(default_factory=list)
    types: List[DType] = field(default_factory=list)
    interfaces: List[Interface] = field(default_factory=list)
    enums: List[Enum] = field(default_factory=list)
    commons: List[Common] = field(default_factory=list)
    namelists: List[Namelist] = field(default_factory=list)
    procs: List[Proc] = field(default_factory=list)
    body: List[str] = field(default_factory=list)
    ancestor: Optional[str] = None  # submodule
    parent_sub: Optional[str] = None
    mp_impls: List[Proc] = field(default_factory=list)  # `module procedure name` implementations
    doc: List[str] = field(default_factory=list)
    access_stmts: List[tuple] = field(default_factory=list)  # (access, [names]) explicit statements


@dataclass
class SrcFile:
    name: str  # base name without extension
    units: List[Any] = field(default_factory=list)  # Unit | Proc (external)
    subdir: str = ""
    doc: List[str] = field(default_factory=list)


def to_json(obj):
    return asdict(obj)


# ---------------------------------------------------------------------------------------------
# rendering: produces a list of logical statements


@dataclass
class Stmt:
    text: str
    docs: List[str] = field(default_factory=list)  # documentation lines following the statement
    label: Optional[str] = None
    kind: str = "code"  # code | open | end (used by corruptors)


def _decl_entities(st: Style, v: Var, name_dim: bool):
    s = st.nm(v.name) if not st.canonical else v.name
    if v.dim and name_dim:
        s += v.dim
    if v.init is not None:
        s += (" => " if v.points else " = ") + v.init
    return s


def render_var(st: Style, v: Var, scope_kind: str, allow_separate=True) -> List[Stmt]:
    """One declaration (possibly followed by separate attribute statements)."""
    out_attrs = []
    separate = []
    can_sep = allow_separate and scope_kind != "type" and not st.canonical
    for a in v.attrs:
        if can_sep and a in SEPARABLE and st.separate_attr():
            separate.append(a)
        else:
            out_attrs.append(st.kw(a))
    dim_sep = False
    name_dim = v.dim_form == "name"
    if v.dim and v.dim_form == "attr":
        if can_sep and st.separate_attr():
            dim_sep = True
        else:
            out_attrs.append(st.kw("dimension") + v.dim)
    intent_sep = False
    if v.intent:
        if can_sep and st.separate_attr():
            intent_sep = True
        else:
            spell = {"in": ["in"], "out": ["out"], "inout": ["inout", "in out"]}[v.intent]
            out_attrs.append(st.kw("intent") + st.paren(st.kw(st.choice(spell))))
    param_sep = False
    if v.parameter:
        if can_sep and st.separate_attr():
            param_sep = True
        else:
            out_attrs.append(st.kw("parameter"))
    acc_sep = False
    if v.access:
        if can_sep and scope_kind in ("module",) and st.separate_attr():
            acc_sep = True
        else:
            out_attrs.append(st.kw(v.access))
    st.rng.shuffle(out_attrs) if not st.canonical else None
    ent = st.nm(v.name) if not st.canonical else v.name
    declname = v.name
    text = v.ts.render(st)
    body = declname + (v.dim if (v.dim and name_dim) else "")
    if v.ts.base == "character" and v.ts.kind is None and v.ts.len and not st.canonical and st.flip(0.2):
        # the length written with the entity: character :: a(3)*10, b*(*), c*(n)
        text = st.kw("character")
        body += "*" + (v.ts.len if v.ts.len.isdigit() else "(" + v.ts.len + ")")
    if v.init is not None and not param_sep:
        body += (" => " if v.points else " = ") + v.init
    if out_attrs:
        text += ", " + ", ".join(out_attrs) + " :: " + body
    elif v.init is not None and not param_sep:
        text += " :: " + body
    elif st.dcolon() or v.ts.base in ("type", "class", "procedure") and False:
        text += " :: " + body
    else:
        # without `::` the type spec must be separated from the name
        text += " " + body
    stmts = [Stmt(text, list(v.doc))]
    for a in separate:
        stmts.append(Stmt(st.kw(a) + (" :: " if st.dcolon() else " ") + st.nm(v.name)))
    if dim_sep:
        stmts.append(Stmt(st.kw("dimension") + (" :: " if st.dcolon() else " ") + st.nm(v.name) + v.dim))
    if intent_sep:
        spell = {"in": ["in"], "out": ["out"], "inout": ["inout", "in out"]}[v.intent]
        stmts.append(Stmt(st.kw("intent") + st.paren(st.kw(st.choice(spell))) + (" :: " if st.dcolon() else " ") + st.nm(v.name)))
    if param_sep:
        stmts.append(Stmt(st.kw("parameter") + " " + st.paren(f"{st.nm(v.name)} = {v.init}")))
    if acc_sep:
        stmts.append(Stmt(st.kw(v.access) + (" :: " if st.dcolon() else " ") + st.nm(v.name)))
    return stmts


def render_vars(st: Style, vs: List[Var], scope_kind: str, allow_separate=True) -> List[List[Stmt]]:
    """Blocks of statements for a list of variables; consecutive members of a group share one
    declaration (type spec, common attributes and doc comment); attributes that only some members have
    come as separate attribute statements."""
    blocks = []
    i = 0
    while i < len(vs):
        v = vs[i]
        j = i + 1
        if v.group is not None:
            while j < len(vs) and vs[j].group == v.group:
                j += 1
        grp = vs[i:j]
        if len(grp) == 1:
            blocks.append(render_var(st, v, scope_kind, allow_separate))
        else:
            blocks.append(render_group(st, grp, scope_kind))
        i = j
    return blocks


def render_group(st: Style, grp: List[Var], scope_kind: str) -> List[Stmt]:
    first = grp[0]
    shared = [a for a in first.attrs if all(a in g.attrs for g in grp)]
    out_attrs = [st.kw(a) for a in shared]
    if first.dim and first.dim_form == "attr":
        out_attrs.append(st.kw("dimension") + first.dim)
    if first.intent:
        out_attrs.append(st.kw("intent") + st.paren(st.kw(first.intent)))
    if first.parameter:
        out_attrs.append(st.kw("parameter"))
    if first.access:
        out_attrs.append(st.kw(first.access))
    if not st.canonical:
        st.rng.shuffle(out_attrs)
    ents = []
    for g in grp:
        e = g.name + (g.dim if (g.dim and g.dim_form == "name") else "")
        if g.init is not None:
            e += (" => " if g.points else " = ") + g.init
        ents.append(e)
    text = first.ts.render(st)
    if out_attrs:
        text += ", " + ", ".join(out_attrs) + " :: " + ", ".join(ents)
    elif any(g.init is not None for g in grp) or st.dcolon():
        text += " :: " + ", ".join(ents)
    else:
        text += " " + ", ".join(ents)
    stmts = [Stmt(text, list(first.doc))]
    for g in grp:
        for a in g.attrs:
            if a not in shared:
                stmts.append(Stmt(st.kw(a) + (" :: " if st.dcolon() else " ") + st.nm(g.name)))
    return stmts


def render_end(st: Style, what: str, name: Optional[str], allow_bare=True) -> Stmt:
    forms = []
    w = what
    if allow_bare:
        forms.append(st.kw("end"))
    forms.append(st.kw("end") + " " + st.kw(w))
    forms.append(st.kw("end" + w.replace(" ", "")) if " " not in w else st.kw("end") + " " + st.kw(w))
    if name:
        forms.append(st.kw("end") + " " + st.kw(w) + " " + st.nm(name))
        forms.append(st.kw("end" + w) + " " + st.nm(name) if " " not in w else st.kw("end") + " " + st.kw(w) + " " + st.nm(name))
    if st.canonical:
        return Stmt(st.kw("end") + " " + st.kw(w) + (" " + name if name else ""), kind="end")
    return Stmt(st.choice(forms), kind="end")


def render_use(st: Style, u: Use) -> Stmt:
    t = st.kw("use")
    if u.nature:
        t += ", " + st.kw(u.nature) + " :: " + st.nm(u.module)
    elif st.flip(0.2):
        t += " :: " + st.nm(u.module)
    else:
        t += " " + st.nm(u.module)
    if u.only is not None:
        items = [(f"{st.nm(l)} => {st.nm(r)}" if r else st.nm(l)) for l, r in u.only]
        t += ", " + st.kw("only") + st.choice([": ", " : ", ":"]) + ", ".join(items)
    elif u.renames:
        t += ", " + ", ".join(f"{st.nm(l)} => {st.nm(r)}" for l, r in u.renames)
    return Stmt(t)


def render_dtype(st: Style, t: DType, scope_kind: str) -> List[Stmt]:
    attrs = []
    if t.access:
        attrs.append(st.kw(t.access))
    if t.extends:
        attrs.append(st.kw("extends") + st.paren(st.nm(t.extends)))
    if t.abstract:
        attrs.append(st.kw("abstract"))
    if t.bind_c:
        attrs.append(st.kw("bind") + "(" + st.kw("c") + ")")
    if not st.canonical:
        st.rng.shuffle(attrs)
    if attrs:
        head = st.kw("type") + ", " + ", ".join(attrs) + " :: " + t.name
    elif st.dcolon():
        head = st.kw("type") + " :: " + t.name
    else:
        head = st.kw("type") + " " + t.name
    out = [Stmt(head, list(t.doc), kind="open")]
    if t.sequence:
        out.append(Stmt(st.kw("sequence")))
    if t.private_components:
        out.append(Stmt(st.kw("private")))
    for blk in render_vars(st, t.components, "type", allow_separate=False):
        out += blk
    if t.bindings or t.finals:
        out.append(Stmt(st.kw("contains")))
        if t.private_bindings:
            out.append(Stmt(st.kw("private")))
        i = 0
        bs = t.bindings
        while i < len(bs):
            b = bs[i]
            if b.generic is not None:
                a = [st.kw(x) for x in ([b.access] if b.access else [])]
                txt = st.kw("generic") + ("".join(", " + x for x in a)) + " :: " + b.name + " => " + ", ".join(st.nm(x) for x in b.generic)
                out.append(Stmt(txt, list(b.doc)))
                i += 1
                continue
            if b.deferred_iface:
                a = [st.kw("deferred")] + [st.kw(x) for x in b.attrs] + ([st.kw(b.access)] if b.access else [])
                if not st.canonical:
                    st.rng.shuffle(a)
                group = [b]
                if t.multi_binding_stmt:
                    j = i + 1
                    while (j < len(bs) and bs[j].deferred_iface and bs[j].deferred_iface.lower() == b.deferred_iface.lower() and bs[j].attrs == b.attrs
                           and bs[j].access == b.access and not bs[j].doc and not b.doc):
                        group.append(bs[j])
                        j += 1
                out.append(Stmt(st.kw("procedure") + st.paren(st.nm(b.deferred_iface)) + ", " + ", ".join(a) + " :: " + ", ".join(g.name for g in group), list(b.doc)))
                i += len(group)
                continue
            # plain bindings; maybe several in one statement
            group = [b]
            if t.multi_binding_stmt:
                j = i + 1
                while j < len(bs) and bs[j].generic is None and not bs[j].deferred_iface and bs[j].attrs == b.attrs and bs[j].access == b.access and bs[j].doc == b.doc:
                    group.append(bs[j])
                    j += 1
            a = [st.kw(x) for x in b.attrs] + ([st.kw(b.access)] if b.access else [])
            if not st.canonical:
                st.rng.shuffle(a)
            names = ", ".join((g.name + (" => " + st.nm(g.target) if g.target else "")) for g in group)
            if a:
                txt = st.kw("procedure") + ", " + ", ".join(a) + " :: " + names
            elif st.dcolon() or len(group) > 1:
                txt = st.kw("procedure") + " :: " + names
            else:
                txt = st.kw("procedure") + " " + names
            out.append(Stmt(txt, list(b.doc)))
            i += len(group)
        if t.finals:
            out.append(Stmt(st.kw("final") + " :: " + ", ".join(st.nm(f) for f in t.finals)))
    out.append(render_end(st, "type", t.name, allow_bare=False))
    return out


def render_interface(st: Style, it: Interface, scope_kind: str) -> List[Stmt]:
    if it.kind == "abstract":
        head = st.kw("abstract") + " " + st.kw("interface")
    elif it.kind == "generic":
        head = st.kw("interface") + " " + it.name
    else:
        head = st.kw("interface")
    out = [Stmt(head, list(it.doc) if it.kind == "generic" else [], kind="open")]
    for b in it.bodies:
        out += render_proc(st, b, "interface")
    if it.modprocs:
        if st.flip(0.5) and len(it.modprocs) > 1:
            for m in it.modprocs:
                out.append(Stmt(st.choice([st.kw("module") + " " + st.kw("procedure"), st.kw("module") + " " + st.kw("procedure") + " ::"]) + " " + st.nm(m)))
        else:
            out.append(Stmt(st.kw("module") + " " + st.kw("procedure") + " " + ", ".join(st.nm(m) for m in it.modprocs)))
    endname = it.name if (it.kind == "generic" and st.flip(0.5)) else None
    e = st.choice([st.kw("end") + " " + st.kw("interface"), st.kw("endinterface")]) if not st.canonical else st.kw("end") + " " + st.kw("interface")
    if endname:
        e += " " + endname
    out.append(Stmt(e, kind="end"))
    return out


def render_proc(st: Style, p: Proc, scope_kind: str) -> List[Stmt]:
    pre = [st.kw(x) for x in p.prefixes]
    if p.kind == "function" and p.ret_on_prefix and p.result is not None:
        pre.append(p.result.ts.render(st))
    if not st.canonical:
        st.rng.shuffle(pre)
    head = (" ".join(pre) + " " if pre else "") + st.kw(p.kind) + " " + p.name
    if p.arg_order or p.kind == "function" or st.flip(0.5):
        head += st.paren(", ".join(st.nm(a) for a in p.arg_order)) if p.arg_order else "()"
    suffix = []
    if p.kind == "function" and p.result_clause and p.result is not None:
        suffix.append(st.kw("result") + st.paren(st.nm(p.result.name)))
    if p.bind is not None:
        suffix.append(st.kw("bind") + "(" + st.kw("c") + (f", {st.kw('name')}='{p.bind}'" if p.bind else "") + ")")
    if not st.canonical and len(suffix) == 2 and st.flip():
        suffix.reverse()
    if suffix:
        head += " " + " ".join(suffix)
    out = [Stmt(head, list(p.doc), kind="open")]
    for u in p.uses:
        out.append(render_use(st, u))
    if p.import_stmt:
        out.append(Stmt(st.kw("import")))
    if st.flip(0.7) or st.canonical:
        out.append(Stmt(st.kw("implicit") + " " + st.kw("none")))
    decls: List[List[Stmt]] = []
    for t in p.types:
        decls.append(render_dtype(st, t, "proc"))
    decls += render_vars(st, p.args, "proc")
    for it in p.interfaces:
        decls.append(render_interface(st, it, "proc"))
    for pa in p.proc_args:
        blk = [Stmt(st.kw("interface"), kind="open")] + render_proc(st, pa, "iface") + [Stmt(st.kw("end") + " " + st.kw("interface"), kind="end")]
        att = [Stmt(st.kw(a) + (" :: " if st.dcolon() else " ") + st.nm(pa.name)) for a in pa.dummy_attrs]
        decls.append(att + blk if (not st.canonical and st.flip()) else blk + att)
    if p.kind == "function" and p.result is not None and not p.ret_on_prefix:
        decls.append(render_var(st, p.result, "proc"))
    if p.kind == "function" and p.result is not None and p.ret_on_prefix and p.result.attrs:
        decls.append([Stmt(st.kw(a) + (" :: " if st.dcolon() else " ") + st.nm(p.result.name)) for a in p.result.attrs])
    decls += render_vars(st, p.locals, "proc")
    # types must precede variables of that type: keep type blocks first, shuffle the rest
    ntypes = len(p.types)
    rest = decls[ntypes:]
    if not st.canonical:
        st.rng.shuffle(rest)
    for d in decls[:ntypes] + rest:
        out += d
    for c in p.commons:
        out.append(Stmt(st.kw("common") + " /" + c.name + "/ " + ", ".join(st.nm(v) for v in c.vars), list(c.doc)))
    for n in p.namelists:
        out.append(Stmt(st.kw("namelist") + " /" + n.name + "/ " + ", ".join(st.nm(v) for v in n.vars), list(n.doc)))
    for b in p.body:
        out.append(Stmt(b, kind="exec"))
    if p.contains:
        out.append(Stmt(st.kw("contains")))
        for c in p.contains:
            out += render_proc(st, c, "proc")
    out.append(render_end(st, p.kind, p.name))
    return out


def render_unit(st: Style, u: Unit) -> List[Stmt]:
    if u.kind == "module":
        head = st.kw("module") + " " + u.name
    elif u.kind == "submodule":
        par = st.nm(u.ancestor) + (":" + st.nm(u.parent_sub) if u.parent_sub else "")
        head = st.kw("submodule") + " " + st.paren(par) + " " + u.name
    elif u.kind == "program":
        head = st.kw("program") + " " + u.name
    else:
        head = st.choice([st.kw("block") + " " + st.kw("data"), st.kw("blockdata")]) + (" " + u.name if u.name else "")
    out = [Stmt(head, list(u.doc), kind="open")]
    for us in u.uses:
        out.append(render_use(st, us))
    out.append(Stmt(st.kw("implicit") + " " + st.kw("none")))
    if u.default_access:
        out.append(Stmt(st.kw(u.default_access)))
    blocks: List[List[Stmt]] = []
    pre_blocks: List[List[Stmt]] = []
    for e in u.enums:
        b = [Stmt(st.kw("enum") + ", " + st.kw("bind") + "(" + st.kw("c") + ")", list(e.doc), kind="open")]
        # one or several enumerator statements
        items = [(n + (f" = {v}" if v is not None else "")) for n, v in e.items]
        if st.flip(0.5) and len(items) > 1:
            for itx in items:
                b.append(Stmt(st.kw("enumerator") + " :: " + itx))
        else:
            b.append(Stmt(st.kw("enumerator") + " :: " + ", ".join(items)))
        b.append(Stmt(st.choice([st.kw("end") + " " + st.kw("enum"), st.kw("endenum")]), kind="end"))
        pre_blocks.append(b)
    for t in u.types:
        pre_blocks.append(render_dtype(st, t, u.kind))
    blocks += render_vars(st, u.vars, "module" if u.kind in ("module", "submodule") else u.kind)
    for it in u.interfaces:
        blocks.append(render_interface(st, it, u.kind))
    for acc, names in u.access_stmts:
        blocks.append([Stmt(st.kw(acc) + (" :: " if st.dcolon() else " ") + ", ".join(st.nm(n) for n in names))])
    if not st.canonical:
        st.rng.shuffle(blocks)
    for b in pre_blocks + blocks:
        out += b
    for c in u.commons:
        out.append(Stmt(st.kw("common") + " /" + c.name + "/ " + ", ".join(st.nm(v) for v in c.vars), list(c.doc)))
    for n in u.namelists:
        out.append(Stmt(st.kw("namelist") + " /" + n.name + "/ " + ", ".join(st.nm(v) for v in n.vars), list(n.doc)))
    for b in u.body:
        out.append(Stmt(b, kind="exec"))
    if u.procs or u.mp_impls:
        out.append(Stmt(st.kw("contains")))
        for p in u.procs:
            out += render_proc(st, p, u.kind)
        for p in u.mp_impls:
            out.append(Stmt(st.kw("module") + " " + st.kw("procedure") + " " + p.name, list(p.doc), kind="open"))
            for blk in render_vars(st, p.locals, "proc"):
                out += blk
            for b in p.body:
                out.append(Stmt(b, kind="exec"))
            out.append(Stmt(st.choice([st.kw("end") + " " + st.kw("procedure"), st.kw("end") + " " + st.kw("procedure") + " " + st.nm(p.name), st.kw("endprocedure")]), kind="end"))
    w = {"module": "module", "submodule": "submodule", "program": "program", "blockdata": "block data"}[u.kind]
    out.append(render_end(st, w, u.name or None))
    return out


def render_file(f: SrcFile, st: Style) -> List[Stmt]:
    out: List[Stmt] = []
    for u in f.units:
        if isinstance(u, Unit):
            out += render_unit(st, u)
        else:
            out += render_proc(st, u, "file")
    if f.doc and out:
        # file-level documentation: doc lines before the first statement
        out.insert(0, Stmt("", list(f.doc), kind="filedoc"))
    return out


# ---------------------------------------------------------------------------------------------
# expectation: canonical entity table


def _docwords(doc):
    w = []
    for line in doc:
        w += line.split()
    return w


def expect_var(table, path, v: Var, kind, perm=None, with_perm=True):
    d = v.expect()
    d["kind"] = kind
    if with_perm and perm is not None:
        d["permission"] = perm
    d["doc"] = _docwords(v.doc)
    table[path + f"/{kind}:{v.name.lower()}"] = d


def expect_dtype(table, path, t: DType, default_perm, with_perm=True):
    p = path + f"/type:{t.name.lower()}"
    attrs = []
    if t.abstract:
        attrs.append("abstract")
    if t.bind_c:
        attrs.append("bind(c)")
    table[p] = {"kind": "type", "extends": t.extends.lower() if t.extends else None, "attribs": sorted(attrs),
                "sequence": t.sequence, "doc": _docwords(t.doc)}
    if with_perm:
        table[p]["permission"] = t.access or default_perm
    cperm = "private" if t.private_components else "public"
    for c in t.components:
        expect_var(table, p, c, "component", c.access or cperm)
    bperm = "private" if t.private_bindings else "public"
    for b in t.bindings:
        d = {"kind": "binding", "permission": b.access or bperm, "doc": _docwords(b.doc),
             "attribs": sorted(a.replace(" ", "").lower() for a in b.attrs), "deferred": bool(b.deferred_iface),
             "generic": b.generic is not None}
        if b.generic is not None:
            d["bindings"] = [x.lower() for x in b.generic]
        elif b.deferred_iface:
            d["proto"] = b.deferred_iface.lower()
            d["bindings"] = [b.name.lower()]
        else:
            d["bindings"] = [(b.target or b.name).lower()]
        table[p + f"/binding:{b.name.lower()}"] = d
    for fn in t.finals:
        table[p + f"/final:{fn.lower()}"] = {"kind": "final"}


def expect_proc(table, path, p: Proc, default_perm, kindname=None):
    k = kindname or p.kind
    pp = path + f"/{k}:{p.name.lower()}"
    d = {"kind": k, "proctype": p.kind, "attribs": sorted(p.prefixes), "args": [a.lower() for a in p.arg_order],
         "doc": _docwords(p.doc)}
    if p.bind is not None:
        d["bindc"] = "c" + (f",name='{p.bind}'" if p.bind else "")
    if default_perm is not None:
        d["permission"] = p.access or default_perm
    table[pp] = d
    argnames = {a.lower() for a in p.arg_order}
    for a in p.args:
        expect_var(table, pp, a, "arg", with_perm=False)
    for pa in p.proc_args:
        # a dummy procedure declared by an interface body is reported as the argument itself
        table[pp + f"/arg:{pa.name.lower()}"] = {"kind": "arg", "is_procedure": True, "proctype": pa.kind, "attribs": sorted(pa.dummy_attrs),
                                                   "args": [a.lower() for a in pa.arg_order]}
    if p.kind == "function" and p.result is not None:
        r = p.result
        d2 = r.expect() if not p.ret_on_prefix else r.ts.expect()
        if p.ret_on_prefix:
            d2["attribs"] = sorted(r.attrs)
        d2["kind"] = "result"
        d2["name"] = r.name.lower()
        if not p.ret_on_prefix:
            d2["doc"] = _docwords(r.doc)
        table[pp + "/result"] = d2
    in_common = {v.lower() for c in p.commons for v in c.vars}
    for v in p.locals:
        if v.name.lower() in in_common:
            continue
        expect_var(table, pp, v, "variable", with_perm=False)
    for t in p.types:
        expect_dtype(table, pp, t, "public", with_perm=False)
    for it in p.interfaces:
        expect_interface(table, pp, it, None)
    for c in p.commons:
        expect_common(table, pp, c, p.locals)
    for n in p.namelists:
        table[pp + f"/namelist:{n.name.lower()}"] = {"kind": "namelist", "vars": [v.lower() for v in n.vars], "doc": _docwords(n.doc)}
    for c in p.contains:
        expect_proc(table, pp, c, None)


def expect_common(table, path, c: Common, pool: List[Var]):
    table[path + f"/common:{c.name.lower()}"] = {"kind": "common", "vars": [v.lower() for v in c.vars], "doc": _docwords(c.doc)}


def expect_interface(table, path, it: Interface, default_perm):
    if it.kind == "generic":
        pp = path + f"/interface:{it.name.lower().replace(' ', '')}"
        d = {"kind": "interface", "modprocs": [m.lower() for m in it.modprocs], "doc": _docwords(it.doc)}
        if default_perm is not None:
            d["permission"] = it.access or default_perm
        table[pp] = d
        for b in it.bodies:
            expect_proc(table, pp, b, None, kindname="ifacebody")
    else:
        k = "absinterface" if it.kind == "abstract" else "ifacebody"
        for b in it.bodies:
            expect_proc(table, path, b, default_perm if default_perm is None else (b.access or default_perm), kindname=k)
            key = path + f"/{k}:{b.name.lower()}"
            if default_perm is not None:
                table[key]["permission"] = b.access or it.access or default_perm


def expect_unit(table, path, u: Unit):
    up = path + f"/{u.kind}:{(u.name or '').lower()}"
    d = {"kind": u.kind, "doc": _docwords(u.doc)}
    if u.kind == "submodule":
        d["ancestor"] = u.ancestor.lower()
        d["parent_sub"] = u.parent_sub.lower() if u.parent_sub else None
    table[up] = d
    is_mod = u.kind in ("module", "submodule")
    dperm = (u.default_access or ("private" if u.kind == "submodule" else "public")) if is_mod else None
    stmt_access = {}
    for acc, names in u.access_stmts:
        for n in names:
            stmt_access[n.lower()] = acc
    in_common = {v.lower() for c in u.commons for v in c.vars}
    for v in u.vars:
        if v.name.lower() in in_common:
            continue
        perm = None
        if is_mod:
            perm = v.access or stmt_access.get(v.name.lower()) or dperm
        expect_var(table, up, v, "variable", perm, with_perm=is_mod)
    for t in u.types:
        expect_dtype(table, up, t, stmt_access.get(t.name.lower()) or dperm or "public")
    for it in u.interfaces:
        expect_interface(table, up, it, dperm)
        if is_mod and it.kind == "generic" and it.name.lower() in stmt_access:
            table[up + f"/interface:{it.name.lower().replace(' ', '')}"]["permission"] = stmt_access[it.name.lower()]
    for i, e in enumerate(u.enums):
        ep = up + f"/enum:{i}"
        table[ep] = {"kind": "enum", "doc": _docwords(e.doc)}
        val = -1
        for n, v in e.items:
            val = int(v) if v is not None else val + 1
            table[ep + f"/enumerator:{n.lower()}"] = {"kind": "enumerator", "initial": str(val)}
    for c in u.commons:
        expect_common(table, up, c, u.vars)
    for n in u.namelists:
        table[up + f"/namelist:{n.name.lower()}"] = {"kind": "namelist", "vars": [v.lower() for v in n.vars], "doc": _docwords(n.doc)}
    for p in u.procs:
        expect_proc(table, up, p, (stmt_access.get(p.name.lower()) or dperm) if is_mod else None)
        if is_mod and p.name.lower() in stmt_access:
            table[up + f"/{p.kind}:{p.name.lower()}"]["permission"] = stmt_access[p.name.lower()]
    for p in u.mp_impls:
        table[up + f"/mpimpl:{p.name.lower()}"] = {"kind": "mpimpl", "doc": _docwords(p.doc)}
        for v in p.locals:
            expect_var(table, up + f"/mpimpl:{p.name.lower()}", v, "variable", with_perm=False)


def expect_file(f: SrcFile, fname: str) -> Dict[str, Dict[str, Any]]:
    table: Dict[str, Dict[str, Any]] = {}
    root = "file:" + fname.lower()
    table[root] = {"kind": "file", "doc": _docwords(f.doc)}
    for u in f.units:
        if isinstance(u, Unit):
            expect_unit(table, root, u)
        else:
            expect_proc(table, root, u, None)
    return table
