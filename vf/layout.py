"""Physical layout of logical statements: free form and fixed form.

The layout engine never changes the token sequence of a statement: it only chooses line breaks at
blanks outside literals, continuation style, indentation, ordinary comments, blank lines, `;` joining
and the placement/style of documentation comments."""
from __future__ import annotations

import random
from typing import List

from vf import lexer
from vf.fgen import Stmt

COMMENT_WORDS = ["zn1", "zn2 plain", "zn3 it's", "zn4 \"q", "zn5 a ; b &", "zn6 ! again"]


class Layout:
    def __init__(self, seed=0, plain=False, docstyle="after", docmark="!", predocmark=">", docmark_alt="*",
                 predocmark_alt="|", cont_p=0.25, comment_p=0.15, semi_p=0.1, max_width=None, lit_break_p=0.0):
        self.rng = random.Random(seed)
        self.plain = plain
        self.docstyle = docstyle  # after | inline | pre | alt | prealt | mixed
        self.docmark, self.predocmark = docmark, predocmark
        self.docmark_alt, self.predocmark_alt = docmark_alt, predocmark_alt
        self.cont_p, self.comment_p, self.semi_p = cont_p, comment_p, semi_p
        self.lit_break_p = lit_break_p
        self.features = set()

    def _cw(self):
        """text of an ordinary comment; sometimes it mentions a doc marker further along (still an ordinary comment)"""
        extra = ["zn14 cf. znhelper(3) and call znother(1)", f"zn7 was: integer :: old !{self.docmark} zn8 old doc", f"zn9 remark !{self.docmark} zn10", f"zn11 see !{self.predocmark} zn12 and !{self.docmark_alt} zn13"]
        return self.rng.choice(COMMENT_WORDS + extra) if self.rng.random() < 0.3 else self.rng.choice(COMMENT_WORDS)

    def _empty_doc(self, ind, k):
        """an empty documentation line (paragraph break) inside a following doc block: the marker alone, or - the block goes on after
        it - a blank line or an ordinary comment line"""
        r = self.rng.random()
        if self.plain or k == 0 or r < 0.6:
            return f"{ind}!{self.docmark}"
        self.features.add("doc_block_continues_after_blank_or_comment_line")
        return "" if r < 0.8 else ind + "! " + self.rng.choice(COMMENT_WORDS)

    # ------------------------------------------------------------------ free form
    def free(self, stmts: List[Stmt]) -> str:
        out: List[str] = []
        rng = self.rng
        depth = 0
        i = 0
        n = len(stmts)
        while i < n:
            s = stmts[i]
            if s.kind == "filedoc":
                for d in s.docs:
                    out.append(f"!{self.docmark} {d}")
                out.append("")
                i += 1
                continue
            if s.kind == "end":
                depth = max(0, depth - 1)
            ind = "" if self.plain else " " * (rng.choice([0, 1, 2, 4]) * min(depth, 3) if rng.random() < 0.8 else rng.randint(0, 7))
            style = self.docstyle
            if style == "mixed":
                style = rng.choice(["after", "inline", "pre", "alt", "prealt"])
            docs = s.docs
            pre_lines, post_lines, inline = [], [], None
            if docs:
                self.features.add("doc:" + style)
                if style == "after":
                    post_lines = [f"{ind}!{self.docmark} {d}" if d else self._empty_doc(ind, k) for k, d in enumerate(docs)]
                elif style == "inline":
                    inline = f" !{self.docmark} {docs[0]}"
                    post_lines = [f"{ind}!{self.docmark} {d}" if d else self._empty_doc(ind, k + 1) for k, d in enumerate(docs[1:])]
                elif style == "pre":
                    pre_lines = [f"{ind}!{self.predocmark} {d}" if d else f"{ind}!{self.predocmark}" for d in docs]
                elif style == "alt":
                    post_lines = [f"{ind}!{self.docmark_alt} {docs[0]}"] + [f"{ind}! {d}" if d else f"{ind}!" for d in docs[1:]]
                elif style == "prealt":
                    pre_lines = [f"{ind}!{self.predocmark_alt} {docs[0]}"] + [f"{ind}! {d}" if d else f"{ind}!" for d in docs[1:]]
            # ordinary comment / blank lines before the statement (not between pre-docs and it)
            if not self.plain and rng.random() < self.comment_p and not (out and out[-1].lstrip().startswith("!") and not out[-1].lstrip().startswith("! zn")):
                # an ordinary comment directly after an alt doc block would be read as its continuation:
                # separate with a blank line first
                out.append("")
                out.append(ind + "! " + self._cw())
                if rng.random() < 0.5:
                    out.append("")
                self.features.add("comment_line")
            elif not self.plain and rng.random() < 0.1:
                out.append("")
            out += pre_lines
            if pre_lines and not self.plain and rng.random() < 0.25:
                out.append("")  # blank line(s) between a preceding doc block and its statement
                self.features.add("blank_after_predoc")
            text = s.text
            # optional `;` joining of two short plain statements
            joined = False
            if (not self.plain and not docs and s.kind in ("code", "exec") and not s.label and i + 1 < n and stmts[i + 1].kind == s.kind and not stmts[i + 1].label
                    and not stmts[i + 1].docs and rng.random() < self.semi_p and len(text) < 60 and "\n" not in text):
                text = text + rng.choice([" ; ", "; ", ";"]) + stmts[i + 1].text
                joined = True
                self.features.add("semicolon")
            if s.label:
                text = s.label + " " + text
            lines = self._break_free(text, ind)
            if inline:
                lines[-1] += inline
            elif not self.plain and rng.random() < self.comment_p / 2:
                lines[-1] += " ! " + self._cw()
                self.features.add("trailing_comment")
            out += lines
            out += post_lines
            if post_lines and style == "alt":
                if self.plain or rng.random() < 0.5:
                    out.append("")  # close the alt block (any non-comment line or another doc block closes it too)
                else:
                    self.features.add("alt_block_closed_by_next_line")
            if s.kind == "open":
                depth += 1
            i += 2 if joined else 1
        return "\n".join(out) + "\n"

    def _break_free(self, text: str, ind: str) -> List[str]:
        rng = self.rng
        if self.plain or rng.random() > self.cont_p * (1 + len(text) / 40):
            return [ind + text]
        if self.lit_break_p and rng.random() < self.lit_break_p and not text.lstrip().lower().startswith("include"):
            # break inside a character literal: `...'ab&` / `&cd'...` (the leading `&` is mandatory there and
            # every character after it, blanks included, belongs to the literal)
            marks, _ = lexer.scan(text)
            inner = [i for idx, (i, c, lit) in enumerate(marks) if idx > 0 and lit and marks[idx - 1][2]
                     and c not in "'\"" and marks[idx - 1][1] not in "'\""]
            if inner:
                k = rng.choice(inner)
                self.features.add("break_inside_literal")
                lead = lambda: ind + " " * rng.choice([0, 2, 5])  # noqa: E731
                # sometimes a second break further along: inside the same (or a later) literal, or between tokens after it
                later_in = [i for i in inner if i > k + 1]
                later_out = [q for q in lexer.break_points(text) if q > k + 1]
                r2 = rng.random()
                if r2 < 0.3 and later_in:
                    k2 = rng.choice(later_in)
                    self.features.add("literal_over_three_lines")
                    return [ind + text[:k] + "&", lead() + "&" + text[k:k2] + "&", lead() + "&" + text[k2:]]
                if r2 < 0.6 and later_out:
                    k2 = rng.choice(later_out)
                    self.features.add("literal_break_then_token_break")
                    return [ind + text[:k] + "&", lead() + "&" + text[k:k2].rstrip() + rng.choice([" &", " & ! " + self._cw()]), lead() + rng.choice(["", "& "]) + text[k2:].strip()]
                return [ind + text[:k] + "&", lead() + "&" + text[k:]]
        pts = lexer.break_points(text)
        if not pts:
            return [ind + text]
        k = min(len(pts), rng.choice([1, 1, 2, 3]))
        chosen = sorted(rng.sample(pts, k))
        pieces = []
        last = 0
        for p in chosen:
            pieces.append(text[last:p])
            last = p
        pieces.append(text[last:])
        lines = []
        tight_prev = False
        for j, pc in enumerate(pieces):
            first = j == 0
            lastp = j == len(pieces) - 1
            cind = ind if first else ind + " " * rng.choice([2, 4, 6])
            body = pc.strip() if not first else pc.rstrip()
            if tight_prev:
                # the previous line ends `token&`: the blanks that separate the tokens stand after the leading `&`
                body = "&" + rng.choice(["", " ", "   "]) + pc.rstrip()
                self.features.add("tight_amp_blanks_after_leading_amp")
            elif not first and rng.random() < 0.4:
                body = "& " + body if rng.random() < 0.5 else "&" + body
                self.features.add("leading_amp")
            line = cind + body
            tight_prev = False
            if not lastp and pieces[j + 1][:1] == " " and rng.random() < 0.2:
                line += "&"
                tight_prev = True
            elif not lastp:
                line += rng.choice([" &", "  &", " & ! " + self._cw()])
                if "!" in line.split("&")[-1]:
                    self.features.add("cont_trailing_comment")
            lines.append(line)
            if not lastp and rng.random() < 0.15:
                lines.append(rng.choice(["", cind + "! " + self._cw()]))
                self.features.add("cont_interleaved_line")
        self.features.add("continuation")
        return lines

    # ------------------------------------------------------------------ fixed form
    def fixed(self, stmts: List[Stmt], length_limit=True, junk=True) -> str:
        """Fixed-form rendering: statement text in columns 7-72, continuation char in column 6,
        labels in 1-5, comment lines C/c/*/!, optional sequence-field junk in 73+."""
        rng = self.rng
        out: List[str] = []
        contchars = "".join(chr(c) for c in range(33, 127) if chr(c) != "0")
        for s in stmts:
            if s.kind == "filedoc":
                for d in s.docs:
                    out.append(f"!{self.docmark} {d}")
                out.append("")
                continue
            style = self.docstyle if self.docstyle in ("after", "inline", "pre", "alt") else "after"
            if self.docstyle == "mixed":
                style = rng.choice(["after", "inline", "pre", "alt"])
            docs = s.docs
            pre_lines, post_lines, inline = [], [], None
            cchar = "!" if self.plain else None

            def c1():
                """a comment line may start with C, c or * as well as with !: `C! text` is the doc comment `!! text`; a `!` comment may
                also start in any column but 6 (such a line is a comment as a whole, however long it is)"""
                r = rng.random()
                if self.plain or r < 0.45:
                    return "!"
                if r < 0.6:
                    self.features.add("indented_doc_comment_line")
                    return " " * rng.choice([1, 3, 6, 9]) + "!"
                self.features.add("doc_comment_on_old_style_comment_line")
                return rng.choice(["C", "c", "*"])

            if docs:
                if style == "after":
                    post_lines = [f"{c1()}{self.docmark} {d}" if d else f"{c1()}{self.docmark}" for d in docs]
                elif style == "inline":
                    inline = f" !{self.docmark} {docs[0]}"
                    post_lines = [f"{c1()}{self.docmark} {d}" if d else f"{c1()}{self.docmark}" for d in docs[1:]]
                elif style == "alt":
                    # block form: the alternative marker on the first line, plain comment lines continue it, a blank line closes it
                    post_lines = [f"{c1()}{self.docmark_alt} {docs[0]}"] + [f"{c1()} {d}" if d else c1() for d in docs[1:]] + [""]
                    self.features.add("fixed_alt_doc_block")
                else:
                    pre_lines = [f"{c1()}{self.predocmark} {d}" if d else f"{c1()}{self.predocmark}" for d in docs]
            if not self.plain and rng.random() < self.comment_p:
                c = rng.choice(["C", "c", "*", "!"])
                # (also comment text that starts right after the comment character with `$`: commented-out code `c$$$`, keyword lines `C$Id$`)
                out.append(c + rng.choice([" zn1", " zn2 plain", " zn7 fixed comment", "$$$ zn7 old = 1", "$$$" + c + "$$$ zn2 twice commented", "$Id: zn1 $", "$ zn7"]))
                self.features.add("fixed_comment_" + c)
                if rng.random() < 0.3:
                    out.append("")
            out += pre_lines
            text = s.text
            # with the length limit off, statements may extend beyond column 72
            width = 66 if length_limit else rng.choice([66, 90, 120, 120])
            # split text into chunks at blanks outside literals so that each fits columns 7-72
            pieces = self._split_fixed(text, width, force=(not self.plain and rng.random() < self.cont_p), lit_break=(length_limit and not self.plain and width == 66 and not label_of(s)))
            label = s.label or ""
            if label:
                self.features.add("label")
            lines = []
            for j, pc in enumerate(pieces):
                if j == 0:
                    # column 6 of an initial line is blank or zero
                    zero = not self.plain and rng.random() < 0.2
                    if zero:
                        self.features.add("zero_in_column_6" + ("_with_label" if label else ""))
                    lines.append(f"{label:<5}" + ("0" if zero else " ") + pc)
                else:
                    cc = rng.choice(contchars) if not self.plain else "&"
                    lines.append("     " + cc + pc)
                    self.features.add("fixed_cont")
                mixq = "'" in pc and '"' in pc  # a literal holding the other quote character: comment detection must track which quote is open
                if j < len(pieces) - 1 and not self.plain and rng.random() < (0.6 if mixq else 0.15) and (len(lines[-1]) < 50 or not length_limit):
                    lines[-1] += rng.choice(["  ! zn3 trailing", " ! zn3 it's trailing", "   !zn3"])  # a comment after a line that is continued
                    self.features.add("fixed_trailing_comment_on_continued_line")
                if j < len(pieces) - 1 and not self.plain and rng.random() < 0.2:
                    lines.append(rng.choice(["C interleaved zn8", "", "* zn9", "c", "!   zn1", "   ", "      ", "          ", " " * 30, "c$$$ zn8 = 2", "C$$$c$$$ zn9", "*$ zn1",
                                             "       ! zn4 comment from column 8", " " * 14 + "! zn5 indented comment", "  ! zn6 comment from column 3"]))
                    self.features.add("fixed_cont_interleaved")
            if (inline and len(pieces) > 1 and not self.plain and rng.random() < 0.3 and not lexer.in_literal(pieces[0]) and "!" not in lines[0]
                    and (len(lines[0]) + len(inline) <= 72 or not length_limit) and not lines[0].startswith(("C", "c", "*", "!"))):
                # the inline doc comment stands on the first line of a statement that is continued
                k0 = [k for k, l in enumerate(lines) if l.endswith(pieces[0])]
                if k0:
                    lines[k0[0]] += inline
                    self.features.add("fixed_inline_doc_on_continued_line")
                    inline = None
            if inline is None:
                pass
            elif inline and (len(lines[-1]) + len(inline) <= 72 or not length_limit):
                lines[-1] += inline
            elif inline:
                post_lines = [f"!{self.docmark} {docs[0]}"] + post_lines
            if junk and length_limit and not self.plain:
                # sequence field: pad code lines to column 72 and append junk in 73+
                for k, l in enumerate(lines):
                    if l and l[0] not in "Cc*!" and len(l) <= 72 and rng.random() < 0.4 and "!" not in l:
                        lines[k] = l.ljust(72) + rng.choice(["SEQ00010", "zz = 'x", "! x", "12345678"])
                        self.features.add("sequence_field")
                    elif l and l[0] not in "Cc*!" and len(l) <= 72 and "!" in l and rng.random() < (0.8 if ("'" in l and '"' in l) else 0.3):
                        lines[k] = l.ljust(72) + rng.choice(["SEQ00020", "87654321"])  # ignored columns after a trailing comment / inline doc
                        self.features.add("sequence_field_after_comment")
            out += lines
            out += post_lines
        return "\n".join(out) + "\n"

    def _split_fixed(self, text: str, width: int, force=False, lit_break=False) -> List[str]:
        rng = self.rng
        if len(text) <= width and not force:
            return [text]
        pts = lexer.break_points(text)
        pieces = []
        start = 0
        marks = lexer.scan(text)[0] if lit_break else None
        # greedy with random earlier breaks
        while len(text) - start > width or (force and not pieces and pts):
            cands = [p for p in pts if start < p <= start + width]
            q = start + width
            # (not after a blank: a preprocessor may strip trailing blanks before FORD sees the line)
            if marks is not None and q < len(text) and lexer.in_literal(text[:q]) and text[q - 1] != " " and (not cands or rng.random() < 0.6):
                # a character literal that runs through column 72 goes on in column 7 of the continuation line (the line is full: nothing but
                # the ignored sequence field can follow the break)
                pieces.append(text[start:q])
                start = q
                force = False
                self.features.add("fixed_literal_continued_at_column_72")
                continue
            if not cands:
                break  # cannot split legally: leave long (only happens with very long literals)
            if force or rng.random() < 0.5:
                p = rng.choice(cands)
            else:
                p = cands[-1]
            pieces.append(text[start:p])
            start = p
            force = False
        pieces.append(text[start:])
        return pieces


def label_of(s):
    return getattr(s, "label", None)


def assign_labels(stmts, rng, p=0.15):
    """Give some executable statements a numeric label (same labels for every layout of the file)."""
    used = set()
    for s in stmts:
        if s.label:
            used.add(s.label)
    for s in stmts:
        if s.kind == "exec" and not s.label and rng.random() < p:
            while True:
                lab = str(rng.choice([rng.randint(1, 9), rng.randint(10, 999), rng.randint(1000, 99999)]))
                if lab not in used:
                    break
            used.add(lab)
            s.label = lab
    return stmts
