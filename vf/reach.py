"""Reach monitor: which lines of REPO/ford the workload of a check executed.

sys.monitoring LINE events with DISABLE after the first hit of each location, so the cost is one callback per line
ever executed.  Enabled by VF_REACH=<directory>; every process (the check, its forked workers and cases, CLI runs through
vf/audit_site/sitecustomize.py) writes <directory>/<pid>.txt at exit; tools/reach_report.py merges them.  It decides
nothing: it shows where the generators do not reach (evidence of reach, and the to-do list for widening them)."""
import os
import sys

HITS = set()
_ON = False
TOOL = 3


def start(repo):
    global _ON
    if _ON or not os.environ.get("VF_REACH") or not hasattr(sys, "monitoring"):
        return
    root = os.path.realpath(os.path.join(repo, "ford")) + os.sep
    mon = sys.monitoring
    try:
        mon.use_tool_id(TOOL, "vf_reach")
    except ValueError:
        return

    rel = {}  # co_filename -> path relative to ford/ or None

    def on_line(code, line):
        fn = code.co_filename
        r = rel.get(fn, 0)
        if r == 0:
            rp = fn if fn.startswith(root) else os.path.realpath(fn)
            r = rel[fn] = rp[len(root):] if rp.startswith(root) else None
        if r is not None:
            HITS.add((r, line))
        return mon.DISABLE

    mon.register_callback(TOOL, mon.events.LINE, on_line)
    mon.set_events(TOOL, mon.events.LINE)
    _ON = True


def dump():
    d = os.environ.get("VF_REACH")
    if not (_ON and d):
        return
    try:
        os.makedirs(d, exist_ok=True)
        with open(os.path.join(d, f"{os.getpid()}.txt"), "w") as f:
            for fn, line in sorted(HITS):
                f.write(f"{fn}:{line}\n")
    except OSError:
        pass
