"""Injected (through PYTHONPATH) into real `python -m ford` subprocesses by the C19/C20/C12 checks.

VF_AUDIT_LOG=<path>  : append one JSON line per mutating file-system event (and subprocess start)
VF_FAIL_AT=<k>       : raise OSError at the k-th mutating event (source-free failpoint)
VF_FAIL_MATCH=<text> : only events whose path contains <text> count for VF_FAIL_AT
VF_FAIL_ROOT=<dir>   : only events whose path is below <dir> count for VF_FAIL_AT
VF_FILE_ORDER=<perm> : wrap ford.fortran_project.find_all_files to return the files (sorted by path) in the
                       given comma separated permutation / 'reverse' / 'sorted'  (schedule injection)
"""
import os
import sys

_log = os.environ.get("VF_AUDIT_LOG")
_fail_at = int(os.environ.get("VF_FAIL_AT", "0") or 0)
_fail_root = os.environ.get("VF_FAIL_ROOT", "")
_fail_match = os.environ.get("VF_FAIL_MATCH", "")
_order = os.environ.get("VF_FILE_ORDER")

if _log:
    import json

    _fd = os.open(_log, os.O_WRONLY | os.O_CREAT | os.O_APPEND, 0o644)
    _count = [0]
    _busy = [False]

    MUT = {"os.mkdir", "os.rmdir", "os.remove", "os.rename", "os.symlink", "os.link", "os.chmod", "os.chown", "os.utime", "os.truncate",
           "shutil.rmtree", "shutil.copyfile", "shutil.copytree", "shutil.move", "shutil.copymode", "shutil.copystat", "os.mkfifo", "os.mknod"}

    def _p(x):
        try:
            if isinstance(x, int):
                return f"<fd {x}>"
            x = os.fspath(x)
            if isinstance(x, bytes):
                x = x.decode("utf-8", "replace")
            return x
        except Exception:
            return repr(x)

    def _hook(event, args):
        if _busy[0]:
            return
        rec = None
        if event == "open":
            path, mode, flags = args[0], args[1], args[2]
            w = False
            if mode is not None:
                w = any(c in str(mode) for c in "wax+")
            elif flags is not None:
                w = bool(flags & (os.O_WRONLY | os.O_RDWR | os.O_CREAT | os.O_TRUNC | os.O_APPEND))
            if w and not isinstance(path, int):
                rec = {"e": "open_w", "p": _p(path)}
        elif event in MUT:
            paths = [_p(a) for a in args[:2] if isinstance(a, (str, bytes, os.PathLike))]
            rec = {"e": event, "p": paths[0] if paths else "?", "p2": paths[1] if len(paths) > 1 else None}
            if event in ("os.remove", "os.rmdir", "os.mkdir") and len(args) > 1 and isinstance(args[-1], int) and args[-1] != -1:
                rec["dir_fd"] = True
                try:  # the name is relative to an open directory (shutil.rmtree): resolve it
                    rec["p"] = os.path.join(os.readlink(f"/proc/self/fd/{args[-1]}"), rec["p"])
                except OSError:
                    pass
        elif event == "subprocess.Popen":
            rec = {"e": "popen", "p": _p(args[0]), "argv": [str(a) for a in (args[1] or [])][:6]}
        if rec is None:
            return
        _busy[0] = True
        try:
            rec["cwd"] = os.getcwd()
            counted = rec["e"] != "popen" and (not _fail_root or os.path.abspath(os.path.join(rec["cwd"], rec["p"])).startswith(_fail_root))
            if counted and _fail_match and _fail_match not in rec["p"] and _fail_match not in (rec.get("p2") or ""):
                counted = False
            if counted:
                _count[0] += 1
                rec["k"] = _count[0]
            fail = counted and _fail_at and _count[0] == _fail_at
            if fail:
                rec["injected_failure"] = True
            os.write(_fd, (json.dumps(rec) + "\n").encode())
        finally:
            _busy[0] = False
        if fail:
            raise OSError(28, f"injected failure at file-system event {_fail_at} ({rec['e']} {rec['p']})")

    sys.addaudithook(_hook)

if _order:
    import importlib.abc
    import importlib.machinery

    class _Finder(importlib.abc.MetaPathFinder):
        def find_spec(self, name, path, target=None):
            if name != "ford.fortran_project":
                return None
            sys.meta_path.remove(self)
            spec = importlib.machinery.PathFinder.find_spec(name, path)
            if spec is None:
                return None
            loader = spec.loader
            orig_exec = loader.exec_module

            def exec_module(module):
                orig_exec(module)
                orig = module.find_all_files

                def ordered(settings):
                    files = sorted(orig(settings), key=lambda p: str(p))
                    if _order == "reverse":
                        files.reverse()
                    elif _order not in ("sorted", ""):
                        perm = [int(i) for i in _order.split(",")]
                        if sorted(perm) == list(range(len(files))):
                            files = [files[i] for i in perm]
                    return files

                module.find_all_files = ordered

            loader.exec_module = exec_module
            return spec

    sys.meta_path.insert(0, _Finder())

# VF_SCAN_ORDER=<k> : the order in which the file system enumerates directory entries is permuted (os.scandir / os.listdir):
#                     entries are sorted by name, then put in the k-th permutation (lexicographic index, modulo n!) for n <= 6,
#                     or shuffled with seed k for larger directories.  Applies only below VF_SCAN_ROOT.
_scan = os.environ.get("VF_SCAN_ORDER")
if _scan not in (None, ""):
    import random as _random

    _scan_k = int(_scan)
    _scan_root = os.environ.get("VF_SCAN_ROOT", "/")
    _orig_scandir = os.scandir
    _orig_listdir = os.listdir

    def _permute(items, key):
        items = sorted(items, key=key)
        n = len(items)
        if n <= 1:
            return items
        if n <= 6:
            fact = 1
            for i in range(2, n + 1):
                fact *= i
            k = _scan_k % fact
            pool = list(items)
            out = []
            for i in range(n, 0, -1):
                fact //= i
                out.append(pool.pop(k // fact))
                k %= fact
            return out
        _random.Random(_scan_k * 1000003 + n).shuffle(items)
        return items

    class _Scan:
        def __init__(self, entries):
            self._it = iter(entries)

        def __iter__(self):
            return self

        def __next__(self):
            return next(self._it)

        def __enter__(self):
            return self

        def __exit__(self, *a):
            return False

        def close(self):
            pass

    def _in_root(path):
        try:
            p = os.path.abspath(os.fspath(path)) if not isinstance(path, int) else None
        except TypeError:
            return False
        if isinstance(p, bytes):
            return False
        return p is not None and (p + os.sep).startswith(_scan_root.rstrip(os.sep) + os.sep)

    def scandir(path="."):
        if not _in_root(path):
            return _orig_scandir(path)
        with _orig_scandir(path) as it:
            entries = list(it)
        return _Scan(_permute(entries, key=lambda e: e.name))

    def listdir(path="."):
        res = _orig_listdir(path)
        if not _in_root(path):
            return res
        return _permute(res, key=lambda n: n)

    os.scandir = scandir
    os.listdir = listdir

# VF_HEAP_NOISE=<k> : allocate (and keep / free in a seeded pattern) many small objects before anything else runs, so that the
#                     addresses - hence identity hashes and the iteration order of sets of objects - differ between runs.
_noise = os.environ.get("VF_HEAP_NOISE")
if _noise not in (None, "", "0"):
    import random as _r2

    _rng = _r2.Random(int(_noise))
    _keep = []
    for _i in range(20000):
        _o = [object() for _ in range(_rng.randint(1, 8))]
        if _rng.random() < 0.5:
            _keep.append(_o)
        if _rng.random() < 0.1:
            _keep.append(bytearray(_rng.randint(1, 5000)))
    sys._vf_heap_noise = _keep

# VF_CPU_LIMIT=<seconds> : CPU-time limit for the process (a hang that burns CPU ends with SIGXCPU instead of a wall-clock guess)
_cpu = os.environ.get("VF_CPU_LIMIT")
if _cpu:
    import resource as _res

    _res.setrlimit(_res.RLIMIT_CPU, (int(_cpu), int(_cpu) + 5))

# VF_REACH=<dir> + VF_REACH_REPO=<repo> : record which lines of <repo>/ford this process executes (vf/reach.py), written at exit
if os.environ.get("VF_REACH") and os.environ.get("VF_REACH_REPO"):
    try:
        import atexit
        import importlib.util

        _spec = importlib.util.spec_from_file_location("vf_reach", os.path.join(os.path.dirname(os.path.dirname(os.path.abspath(__file__))), "reach.py"))
        _reach = importlib.util.module_from_spec(_spec)
        _spec.loader.exec_module(_reach)
        _reach.start(os.environ["VF_REACH_REPO"])
        atexit.register(_reach.dump)
    except Exception:  # noqa: BLE001
        pass
