#!/bin/sh
# Installs the contract libraries beside the repository's interpreter, offline.
# Idempotent; safe to call from every check.
set -e
cd "$(dirname "$0")"
if [ ! -d .deps/icontract ] || [ ! -d .deps/deal ]; then
  mkdir -p .deps
  PIP_NO_INDEX=1 /venv/bin/pip install --quiet --no-index --find-links /opt/veriftools/wheels \
     --target .deps icontract deal >/dev/null 2>&1 || {
       echo "setup: could not install icontract/deal from the wheelhouse" >&2; exit 1; }
fi
exit 0
