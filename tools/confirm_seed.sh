#!/bin/sh
# tools/confirm_seed.sh <name> <property> <patch.diff> <demo.py> "<what it needs>"
# Confirms in a scratch worktree of /repo HEAD: demo passes without the patch, fails with it, and the
# repository's test-suite still passes with it.  On success stores /verif/seeded/<name>/.
name="$1"; prop="$2"; patch="$3"; demo="$4"; needs="$5"
wt="/tmp/confirm_$name"
git -C /repo worktree remove --force "$wt" >/dev/null 2>&1
git -C /repo worktree add --detach "$wt" HEAD >/dev/null 2>&1 || { echo "worktree failed"; exit 9; }
cd "$wt" || exit 9
PATH=/venv/bin:$PATH timeout 600 /venv/bin/python "$demo" >/tmp/confirm_$name.clean 2>&1; c0=$?
if ! git apply "$patch" 2>/tmp/confirm_$name.err; then
  git apply --3way "$patch" 2>>/tmp/confirm_$name.err || { echo "$name: PATCH DOES NOT APPLY"; cd /; git -C /repo worktree remove --force "$wt"; exit 8; }
fi
PATH=/venv/bin:$PATH timeout 600 /venv/bin/python "$demo" >/tmp/confirm_$name.mut 2>&1; c1=$?
# the repository's pinned baseline: the 255 stable tests of /root/.vp/BASELINE.json, run with its own command (no PATH tweak)
timeout 1200 /venv/bin/python -m pytest -ra -q -p no:cacheprovider --timeout=900 --continue-on-collection-errors --junitxml=/tmp/confirm_$name.xml >/dev/null 2>&1
tests=$(python3 - "/tmp/confirm_$name.xml" <<'PY'
import json,sys,xml.etree.ElementTree as ET
base=set(json.load(open('/root/.vp/BASELINE.json'))['stable_pass'])
ok=set()
for tc in ET.parse(sys.argv[1]).getroot().iter('testcase'):
    tid=f"{tc.get('classname')}::{tc.get('name')}"
    if not any(ch.tag in('failure','error','skipped') for ch in tc): ok.add(tid)
missing=sorted(base-ok)
print(f"baseline {len(base&ok)}/{len(base)} passed" + ("" if not missing else " failed: "+", ".join(missing[:3])))
PY
)
git diff HEAD > /tmp/confirm_$name.diff
cd /; git -C /repo worktree remove --force "$wt"
echo "$name: demo_clean=$c0 demo_mutant=$c1 tests: $tests"
case "$tests" in *failed*|*error*) echo "$name: TESTS FAIL"; exit 7;; esac
case "$tests" in *"255/255"*) ;; *) echo "$name: BASELINE INCOMPLETE"; exit 7;; esac
if [ "$c0" != 0 ] || [ "$c1" = 0 ]; then echo "$name: DEMO DOES NOT DISCRIMINATE"; exit 6; fi
d="/verif/seeded/$name"; mkdir -p "$d"
cp /tmp/confirm_$name.diff "$d/patch.diff"; cp "$demo" "$d/demo.py"
python3 - "$name" "$prop" "$needs" "$tests" <<'PY'
import json,sys
name,prop,needs,tests=sys.argv[1:5]
json.dump({"name":name,"property":prop,"needs_to_manifest":needs,
 "confirmed":{"how":"tools/confirm_seed.sh in a scratch worktree of /repo HEAD: demo.py exit 0 without patch, non-zero with patch; repository test-suite with patch: "+tests},
 "caught_by":None},open(f"/verif/seeded/{name}/meta.json","w"),indent=1)
PY
rm -f /tmp/confirm_$name.*
