#!/bin/sh
# tools/seedtest.sh <Cnn> <patch.diff> [tier]  - apply a seeded change to /repo, run the check, undo.
id="$1"; patch="$2"; t="${3:-quick}"
cd /repo || exit 9
if ! git diff --quiet; then echo "repo dirty; refusing"; exit 9; fi
if ! git apply --3way "$patch" 2>/tmp/seedtest.err; then
  if ! git apply "$patch" 2>>/tmp/seedtest.err; then echo "PATCH DOES NOT APPLY"; cat /tmp/seedtest.err; git checkout -- . ; exit 8; fi
fi
git reset -q
cd /verif && VERIF_TIER="$t" ./check "$id" > /tmp/seedtest.out 2>&1; rc=$?
grep -E "^(VIOLATION|INCONCLUSIVE|KNOWN-FINDING|C[0-9]+ tier)" /tmp/seedtest.out | cut -c1-400 | head -12
echo "exit=$rc"
git -C /repo checkout -- . 
exit $rc
