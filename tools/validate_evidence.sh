#!/bin/sh
# validates all evidence files against the schema
python3-vt - <<'PY'
import json,glob,jsonschema
s=json.load(open('/root/.vp/EVIDENCE.schema.json'))
for f in sorted(glob.glob('/verif/evidence/*.json')):
    try:
        jsonschema.validate(json.load(open(f)),s); print(f,'ok')
    except Exception as e:
        print(f,'INVALID',str(e)[:300])
PY
