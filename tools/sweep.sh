#!/bin/sh
# tools/sweep.sh <tier> <seed...> : run every check on /repo for the given seeds, print one line per run
tier="$1"; shift
cd /verif
for s in "$@"; do
  for c in C01 C02 C03 C04 C05 C06 C07 C08 C09 C10 C11 C12 C13 C14 C15 C16 C17 C18 C19 C20; do
    out=$(VERIF_SEED=$s ./check $c --tier $tier 2>&1); rc=$?
    echo "seed=$s rc=$rc $(echo "$out" | grep -E "^$c tier" | cut -c1-160)"
    echo "$out" | grep -E "^(VIOLATION|INCONCLUSIVE)" | cut -c1-300 | head -5
  done
done
