#!/bin/sh
# tools/seedtest_all.sh <dir-with-Cnn-subdirs> <Cnn>... : run every m*.diff of the given properties against its check (quick tier)
base="$1"; shift
for id in "$@"; do
  for d in $base/$id/m*.diff; do
    k=$(basename "$d" .diff)
    p="$d"; [ -f "/tmp/port2/$id-$k.diff" ] && p="/tmp/port2/$id-$k.diff"
    res=$(/verif/tools/seedtest.sh $id "$p" 2>&1)
    rc=$(echo "$res" | grep -o "exit=[0-9]*")
    echo "$id $k $rc $(echo "$res" | grep -E "^(VIOLATION|PATCH|INCONCLUSIVE)" | head -2 | cut -c1-260 | tr '\n' ' ')"
  done
done
