#!/usr/bin/env python3
"""Regenerates /verif/MANIFEST.json from the registry below and validates it."""
import json
import os
import subprocess
import sys

V = os.path.dirname(os.path.dirname(os.path.abspath(__file__)))
props = [json.loads(l) for l in open(os.path.join(V, "properties.jsonl"))]

# id -> (level category, level text, level note, technique, design section)
CHECKS = {
    "C01": (
        "exploration",
        "Runtime monitor on the real parser + correlate(): seeded project models (all unit kinds, types with components/bindings/"
        "generics/finals, generic/abstract/explicit interfaces, enums, common, namelists, all intrinsic types and kind/len "
        "spellings, attribute forms incl. multi-entity declarations) are rendered in a canonical and in random equivalent "
        "spellings; FORD's object tree is canonicalised and compared between spellings (metamorphic) and with the table computed "
        "from the model (reference); parse diagnostics on valid input are violations.",
        "Trusts vf/fgen.py (model -> expected table) and the generator's validity rules; internal representation differences "
        "(flag vs list, blanks, letter case outside literals) are normalised; documentation words are left to C03.",
        "runtime monitoring: metamorphic + reference-model oracle over FORD's entity tree, diagnostics recorder",
        "3/C01",
    ),
    "C02": (
        "exploration",
        "Runtime monitor on the real FortranReader: bounded-exhaustive token/separator sequences plus seeded long random ones "
        "are rendered to files, read by FORD, and the emitted statement/doc stream is compared with the sequence the file was "
        "rendered from; icontract post-conditions compare the reader's quote tracker and quote_split with an independent "
        "scanner on every call. Held on the executions observed, nothing more.",
        "Trusts vf/lexer.py (60-line scanner) as the definition of Fortran's literal/comment/; rules and the renderer's "
        "ground truth; only standard continuation forms; default doc markers.",
        "runtime monitoring: reference-model oracle over reader emissions + icontract post-conditions vs independent scanner",
        "3/C02",
    ),
    "C03": (
        "exploration",
        "Runtime monitor on the real reader + parser + MetaMarkdown: generated programs whose documentable entities carry bodies of "
        "globally unique tracer words (grammar: paragraphs, lists, fenced/indented code, note boxes of 5 kinds x 10 start/end forms, "
        "optional leading metadata) are laid out in each marker style x 3 marker-character sets with ordinary comments, blank lines "
        "(also between a preceding doc block and its statement) and continuations; per entity the tracer sequence of doc_list, of the "
        "rendered HTML and the metadata are compared with the model, foreign or `zn` (ordinary comment) words are violations; bodies "
        "also go straight through MetaMarkdown.convert; an icontract post-condition on AdmonitionPreprocessor.run checks word "
        "conservation and order. Site-level family: complete runs (all entities displayed / default display, proc_internals on); every word of every "
        "comment must be found, in order, on some generated page (internal procedures and their contents excepted). Extra-file-type family: `//` comments of a `.c` file "
        "(inline, own-line, block with plain continuation lines) make up the file's documentation in order.",
        "Trusts the model->expected mapping (docs attach to the statement they follow / precede); HTML structure is not compared.",
        "runtime monitoring: reference-model oracle over doc_list/doc/meta with tracer words + icontract on AdmonitionPreprocessor.run",
        "3/C03",
    ),
    "C04": (
        "exploration",
        "Runtime monitor on the real parser + correlate(): the complete legal product scope default x early/late x declaration "
        "attribute x access statement x before/after x entity kind (variable, parameter, type, type+constructor interface, "
        "subroutine, function, generic/abstract/operator interface, component, binding incl. multi-name binding statements; "
        "submodule entities) is rendered as distinct entities in generated modules (seeded spellings and statement orders, random "
        "neighbour files) and `permission` of every entity is compared with an independent implementation of the rule. The cell "
        "space is enumerated completely on every run (exhaustive: true in the evidence).",
        "Trusts expected_access() (12 lines) as the Fortran rule; two known findings are suppressed by exact cell predicates "
        "(late bare PRIVATE; PROTECTED sharing the accessibility field).",
        "runtime monitoring: reference-model oracle over entity.permission, exhaustive cell enumeration",
        "3/C04",
    ),
    "C05": (
        "exploration",
        "Runtime monitor over complete FORD runs (forked child): generated programs with unique tracer words per entity x project "
        "display {public; public,protected; public,private; all; none} x proc_internals x hide_undoc x incl_src, with display/"
        "proc_internals overrides in file, module, type and procedure metadata; a three-valued selection model (must-show / must-hide / "
        "either) is compared with (a) where each entity's words occur on all pages (source listings excluded) and in all search records, "
        "(b) presence/absence of the entity's anchor id on any page, (c) own page existence, (d) links to pages that were not generated.",
        "Entities rendered as part of another selected entity (binding targets, generic specifics, finalisers, deferred prototypes, "
        "components of extended types, locals of internal procedures) are 'either' and not judged; display sets contain 'public' or are "
        "'none'; no submodules/enums/common/namelists in this workload.",
        "runtime monitoring: reference-model oracle (three-valued selection) over the generated site and search index",
        "3/C05",
    ),
    "C06": (
        "exploration",
        "Runtime monitor on the real correlate(): all DAG shapes over <=3 provider modules + a consumer (exhaustive) with seeded "
        "decoration (default access, explicit public re-export lists, per-entity access, USE forms plain/only/rename/only+rename/"
        "non_intrinsic/two USEs in either order, USE at module level, in the probing procedure or in a nested internal procedure); "
        "the consumer probes every candidate name (type(n), procedure(n) pointer, namelist member, call, function reference); the "
        "object found in each probe slot (recorder on _find_chain_item for calls) is compared with an independent implementation of "
        "F2008 11.2.2; the order in which files are parsed is injected through the file names (FORD parses in sorted path order; sampled permutations, all in thorough); separate cases use two modules exporting equal names with textually identical ONLY lists. A fifth probing place is the body of a named (generic) interface; "
        "the name tables of the probing scope are read as hooked state (every accessible name stands in the table of each kind it denotes).",
        "Trusts imports()/exports() in checks/c06.py as the standard's rule; unique entity names; one known finding (several USE "
        "statements of one module applied independently) is suppressed only where an alternative per-statement model predicts "
        "exactly the observed object.",
        "runtime monitoring: reference-model oracle over probe reference slots + schedule injection (file order)",
        "3/C06",
    ),
    "C07": (
        "exploration",
        "Runtime monitor on the real correlate(): programs reusing a 4-name pool across provider module, decoy module, consumer "
        "module, sibling procedures, an internal procedure and an external decoy (random letter case; some names declared nowhere; "
        "sometimes an extra_mods entry named like the provider) hold reference slots in every scope (variable type, parent type, "
        "procedure-pointer interface, binding target, deferred interface, finaliser, generic specific, call); the object in each slot "
        "is compared with an independent host/use-association lookup. Further cases: equally named submodules under two modules, "
        "child submodules, separate module procedures, constructors with a same-named decoy type, type-bound call chains whose "
        "first label is declared with different types in nested scopes.",
        "Trusts lookup() (15 lines) as the scoping rule; slots whose visible entity has another kind are not generated (invalid "
        "Fortran); references to undeclared names are generated on purpose and must stay unresolved.",
        "runtime monitoring: reference-model oracle over reference slots + recorder on _find_chain_item",
        "3/C07",
    ),
    "C08": (
        "exploration",
        "Runtime monitor on the real parser + correlate(): executable parts are generated from a statement/expression grammar that "
        "records, per statement, the user procedures it invokes; unit.calls of module procedures, internal procedures, main "
        "programs and external procedures is compared with that ground truth (set equality, no duplicates); a recorder on "
        "FortranContainer._add_procedure_calls ties every recorded chain to the statement that produced it.",
        "Trusts the grammar's bookkeeping; unique procedure names; one known finding (declarations inside BLOCK constructs) is "
        "suppressed only for names the generator declared inside a BLOCK.",
        "runtime monitoring: reference-model oracle over unit.calls + recorder on _add_procedure_calls",
        "3/C08",
    ),
    "C09": (
        "exploration",
        "Runtime monitor over complete FORD runs (real argparse + settings + parser + templates + graphviz, forked child) on generated projects "
        "of varying shape (single file / many, no modules, only a program, block data, submodules, static pages at several depths, media, "
        "graphs on/off, search on/off, incl_src, sort and display vectors): an offline checker walks every href/src/action/xlink:href of "
        "every generated page (incl. inline SVG) and every search record and requires: relative URL, no absolute output path, target file "
        "exists under the output directory, #fragment is an id of the target page.",
        "External (scheme) URLs are not followed; the fragment check accepts the raw or the percent-decoded form; html.parser defines the DOM.",
        "runtime monitoring: offline link-graph checker over the generated site of each run",
        "3/C09",
    ),
    "C10": (
        "exploration",
        "Runtime monitor over complete FORD runs (forked child): (a) sys.addaudithook file-system event log - an entity page or copied "
        "source opened for writing twice in one run; (b) icontract post-condition on NameSelector.get_name - (directory, lower-cased "
        "stem) -> item injective; (c) recorder on the `anchor` property - an anchor string that stands for two items and occurs on a "
        "page; (d) after the run: distinct page-owning entities have distinct URLs (case-insensitively), the page at an entity's URL "
        "carries its tracer word (the file at the percent-decoded URL must exist), the source-file link of every page serves the defining file; (e) icontract post-condition on the "
        "`relurl` template filter - a link rendered for an entity leads to entity.get_url(); (f) two elements of a page that are not entity anchors and differ in content never share an id. Workload: projects built to collide (same names across modules/"
        "files/directories, letter-case variants, operator/assignment interfaces, generics with explicit bodies, unnamed programs/block "
        "data, submodule named like a module, separate module procedures named like procedures elsewhere, equal file base names). Thorough tier: the contract "
        "also runs under the repository's own test-suite (vf/pytest_contracts.py).",
        "Only writes below the entity directories are counted (css/js are touch()ed by design); one known finding (flat src/ copies of "
        "equal base names) is suppressed by an exact predicate.",
        "runtime monitoring: audit-hook fs event log + icontract invariant on NameSelector + offline site checks",
        "3/C10",
    ),
    "C11": (
        "exploration",
        "Runtime monitor over complete FORD runs (forked child): a project with deliberately repeated names carries batteries of "
        "[[...]] references in every documented spelling (qualifiers on/off for both parts, kind synonyms, child part, references to "
        "nothing / to the wrong kind / with a missing first part, some in code spans) in the docs of modules, types, components, "
        "procedures, program, files, the project file, `summary` and static pages at depth 0 and 2, each bracketed by unique markers; on "
        "every page where a marker pair occurs the <a> between them is resolved from that page and the element it lands on must carry "
        "the tracer word of an entity allowed by an independent implementation of the documented lookup; plain text + warning for "
        "references to nothing; verbatim text in code spans.",
        "Several equally named candidates at the deciding level are all accepted (documented as undefined); dummy arguments are not link "
        "targets (they have no anchors); first-part qualifiers that are not child kinds are looked up project-wide.",
        "runtime monitoring: reference-model oracle (documented lookup) over links found on generated pages via marker words",
        "3/C11",
    ),
    "C13": (
        "exploration",
        "Runtime monitor over complete FORD runs with graphs on (forked child): generated projects with known module-use, "
        "submodule-ancestry, type extension/composition, call and file-dependency relations (chains, diamonds, cycles, disconnected "
        "parts; equal file base names), per-entity graph:false / graph_maxdepth / graph_maxnodes metadata, project graph_maxdepth, "
        "show_proc_parent. The DOT body of every per-entity and project-wide graph object of the real Documentation is compared with "
        "the hop-wise ball of the model relation; edge endpoints must be nodes; untruncated forward/inverse graphs must be inverses; at "
        "the quiescent point after graph_all() the inverse adjacency sets of all node objects are checked for consistency; graph:false "
        "entities own no graphs. Private procedures under a display without `private` are not drawn (a call of one stands, transitively, for its calls). Two monitors on the "
        "rendered output: a graph shown as a table has one row per first-hop edge, every non-empty graph object is found on the page of its entity, and every edge of the DOT "
        "source is an edge of the drawn SVG (two arrowheads on one line count for an opposite pair).",
        "Per-entity graphs in which a graph:false entity takes part are not judged (documentation leaves it open); one known finding "
        "(graph:false entity drawn as a neighbour in project-wide graphs); no type-bound procedures; internal functions only as callers.",
        "runtime monitoring: reference-model oracle over captured DOT sources + invariant check at a quiescent hook",
        "3/C13",
    ),
    "C17": (
        "exploration",
        "Runtime monitor over complete FORD runs (forked child): generated page directories (depth <=3; index.md present/absent/"
        "title-less; titled and title-less pages; other files; hidden/backup files; nested sub-directories; plain asset directories; "
        "ordered_subpage complete/partial/with duplicates in both metadata spellings; copy_subdir in project file, index.md and on "
        "non-index pages; relative, |page| |media| |url| and [[entity]] links) are compared with an independent walk of the model: page "
        "set and titles, navigation pre-order inside every page, byte equality of copied files, reports for skipped files, and link "
        "resolution from every depth (C09 checker).",
        "ordered_subpage entries always name existing entries; a directory whose index.md is missing or title-less is skipped with its sub-tree.",
        "runtime monitoring: reference-model oracle over <output>/page + navigation order + link checker",
        "3/C17",
    ),
    "C18": (
        "exploration",
        "Runtime monitor over complete FORD runs (forked child): programs whose declarations carry HTML/Markdown-significant text "
        "(literals in initial values via attribute or PARAMETER statement, relational expressions in initial values, kinds, lengths, "
        "dimensions, DIMENSION attributes, component defaults, namelist members, interface arguments, bind names, prefixed function "
        "headings; `lower` on/off) are run together with a same-width benign twin; oracles: each fragment is found verbatim in the text "
        "of the page that displays it (blanks inside literals compared up to run length), the (tag, attribute-name) sequence of every "
        "page equals the twin's, and the page text mapped through the character replacement equals the twin's text.",
        "Runs of blanks are collapsed (non-breaking spaces by design); html.parser defines the DOM.",
        "runtime monitoring: reference + differential-DOM (hostile vs benign twin) oracle over generated pages",
        "3/C18",
    ),
    "C19": (
        "fault_enumeration",
        "Runtime monitor on the real `python -m ford` process: a sitecustomize injected through PYTHONPATH installs sys.addaudithook, "
        "logs every mutating file-system event (open for writing, mkdir, rmdir, remove, rename, link, symlink, chmod, utime, truncate, "
        "shutil.rmtree/copyfile/copytree/move/copymode/copystat) and can raise OSError at the k-th such event (k enumerated; also the "
        "first/second event touching each kind of output: css, js, media, page copies, sources, search index, graphs, modules.json...). "
        "A sandbox (project, sources, pages with copy_subdir, media, css, favicon, mathjax config, bystander files, dangling and outward "
        "symlinks) is hashed before and after each run; output_dir is placed sibling / nested / absolute / through a symlink / with .. / "
        "inside a source dir / over stale output, given in the project file or with -o, and in four positions that contain a source "
        "directory (must be refused before any mutating event). Oracles: snapshot outside output_dir and graph_dir unchanged; no logged "
        "mutating event resolves outside them. Thorough tier adds strace -f on three runs (writes of dot children).",
        "Fault = OSError(ENOSPC) raised from the audit hook before the operation happens; power-loss style partial writes are not modelled. "
        "Creating missing parent directories of output_dir is allowed. parallel is 0 (worker processes are exercised by C12).",
        "runtime monitoring: audit-hook event log + before/after content snapshot oracle, failpoint enumeration over file-system events",
        "3/C19",
    ),
    "C12": (
        "exploration",
        "Runtime monitor over repeated real `python -m ford` runs: for each generated multi-file project (equally named procedures, types, "
        "interfaces, modules/submodules, files; generics with several procedures; extension; cross-file calls; markdown link/abbreviation/"
        "footnote definitions in docs; pages; search; graphs embedded or in graph_dir; externalize; sort modes) one reference run is compared "
        "byte for byte and path for path with runs that differ in exactly one factor: PYTHONHASHSEED, the memory layout of the process (heap noise, PYTHONMALLOC), the directory enumeration order "
        "(os.scandir/os.listdir results permuted inside the FORD process by an injected sitecustomize; every permutation for flat projects "
        "of 3-4 files), parallel 0/2/8, and the prior content of the output directory (same project / another project with pages, graphs, "
        "modules.json, media, stray files). A control variant (same settings, other location) guards the harness' attribution.",
        "Each variant runs in its own copy of the project (regenerated from the seed); a difference in the control run makes the case "
        "inconclusive, not a violation. creation_date off; `dot` assumed deterministic for identical input. A stale graph_dir outside the "
        "output directory is not part of the property and not tested.",
        "runtime monitoring: differential oracle over output trees of repeated runs with schedule injection (hash seed, directory order, workers, history)",
        "3/C12",
    ),
    "C20": (
        "fault_enumeration",
        "Runtime monitor on the real parser (Project + correlate in a forked child with a CPU-time limit) and on complete `python -m ford` "
        "runs: a generated valid project is observed alone and together with 1-3 additional files made by corrupting valid sources - "
        "truncation at every statement boundary of every donor file (thorough; a sample at quick), inside continued statements, mid-line; "
        "complete unit followed by a truncated unit or garbage; dropped / doubled / leading / file-level END; doubled or file-level CONTAINS; "
        "units never closed or never opened; undecodable, NUL, UTF-16, Latin-1 bytes; unbalanced quotes; arbitrary text; lone `&`; empty "
        "files - named so that they are read before, between and after the valid files. Oracles: termination (SIGXCPU), no abort, every "
        "file FORD does not register is named in a diagnostic, and when all additional files were skipped the entity table, the page name "
        "of every entity and (CLI layer) the whole output tree equal the baseline's; for accepted files with foreign names the valid "
        "files' tables equal the baseline's.",
        "FORD's own verdict decides whether a file counts as rejected (only undecodable files must be rejected). One known finding: a "
        "malformed file that the lenient default parser accepts can make correlate() raise and abort the run.",
        "runtime monitoring: differential oracle (with / without the corrupted files) over entity tables, page names and output trees; CPU-limit watchdog",
        "3/C20",
    ),
    "C16": (
        "exploration",
        "Runtime monitor over pairs of real `python -m ford` runs: generated project A (2-3 modules, default public/private, public/private/"
        "protected variables, types, procedures, generic and abstract interfaces, names shared between modules) is documented with externalize "
        "(once, or rebuilt with other options / after its files changed), then generated project B (use all/only/renamed, extends, components "
        "and variables of A's types, calls, [[name]] and [[module:name]], an own module named like one of A's, own entities named like A's) is "
        "documented against it through a relative path, an absolute path or a loop-back http URL. Every entity's doc carries a unique tracer "
        "word that identifies the page documenting it. Oracles: modules.json lists exactly A's modules and their public/protected entities per "
        "kind; every link leaving B resolves to an existing file and fragment of A's output; every modelled reference is linked from the "
        "referring entity's pages to the page documenting the intended entity; B's own names win and the clashing A pages are never linked; "
        "missing / corrupt / ill-shaped / unreachable descriptions leave the run and B's set of pages intact, also when listed before a healthy one.",
        "Bare [[name]] references to names defined more than once accept any page documenting an entity of that name (FORD looks them up "
        "project-wide); call links are only expected with graphs on; type-bound procedures and submodules of A are not modelled.",
        "runtime monitoring: reference-model oracle over modules.json and over the link graph between two generated sites (tracer words identify pages)",
        "3/C16",
    ),
    "C14": (
        "exploration",
        "Runtime monitor (metamorphic) on the real fixed-to-free converter + reader + parser: each generated program is written "
        "from one statement list as plain free form and as fixed form (random continuation breaks, every printable non-blank "
        "non-zero continuation character, labels, C/c/*/! comment lines from column 1 or indented, blank/short lines also inside "
        "continuations, trailing ! comments on continued lines, doc comments after/inline/before, sequence-field text also after "
        "comments, long lines, declarations moved into INCLUDEd files of the same form) and the canonical entity tables incl. calls and documentation "
        "words are compared, with fixed_length_limit on and off.",
        "Trusts the layout engine to keep the token sequence (breaks only at blanks outside literals); no tab form; inline docs end "
        "before column 73 when the limit is on.",
        "runtime monitoring: metamorphic oracle (fixed vs free rendering of the same statement list) over FORD's entity tree",
        "3/C14",
    ),
    "C15": (
        "exploration",
        "Runtime monitor on the real ford.initialize() (argparse + load_settings + parse_arguments): every field of ProjectSettings "
        "(introspected at run time) x representative/boundary values is written as project-file metadata, fpm.toml [extra.ford] and "
        "--config and loaded from three working directories (with decoy paths in the foreign ones); the resulting settings objects "
        "are compared across formats/cwds and with a reference semantics; CLI>file>default per argparse option; unknown keys and "
        "ill-typed values per format; icontract post-condition on convert_setting (result conforms to the declared type); a second Markdown spelling of every option "
        "set (fences, key case, repeated keys, padded fields, empty key line for tables); thorough tier: the contract also runs under the repository's own test-suite.",
        "Trusts the harness' three renderers to express the same option set; values avoid ';' and leading/trailing blanks; one "
        "known finding (--config skips __post_init__ normalisation) is suppressed only for differences confined to the fields "
        "__post_init__ normalises.",
        "runtime monitoring: metamorphic (3 formats x 3 cwds) + reference-model oracle over real settings objects, contract on convert_setting",
        "3/C15",
    ),
}

NA_REASON = "check not built yet (build in progress in this session; see DESIGN.md section 3 for the planned monitor)"


def main():
    checks = []
    for p in props:
        pid = p["id"]
        if pid not in CHECKS:
            continue
        cat, text, note, tech, ref = CHECKS[pid]
        checks.append({
            "property_id": pid,
            "quick_cmd": f"./check {pid} --tier quick",
            "thorough_cmd": f"./check {pid} --tier thorough",
            "evidence_file": f"evidence/{pid}.json",
            "replay_cmd_template": f"./check {pid} --replay {{path}}",
            "engine": "vf",
            "level_claimed": {"category": cat, "text": text, "design_ref": f"DESIGN.md section {ref}"},
            "level_note": note,
            "technique": tech,
        })
    m = {
        "version": 1,
        "setup_cmd": "./setup.sh",
        "hooks": {
            "guard": "FORD_VERIF",
            "enable": "No source hooks exist: all instrumentation is attached from the harness at import time (monkeypatch recorders, "
                      "icontract contracts, sys.monitoring, sys.addaudithook). Checks export FORD_VERIF=1 for uniformity; nothing in /repo reads it.",
            "baseline_off_cmd": "cd /repo && /venv/bin/python -m pytest -ra -q -p no:cacheprovider --timeout=900 --continue-on-collection-errors",
            "source_commits": [],
            "add_only": True,
        },
        "engines": [{
            "name": "vf", "path": "vf/", "serves_properties": sorted(CHECKS),
            "kind_free_text": "runtime monitors: generated workloads + reference-model / metamorphic oracles + contracts on real functions + "
                              "file-system audit log + fault injection, all executed against the real ford package imported from /repo's working tree",
        }],
        "checks": checks,
        "notes": "Every check imports ford from /repo's current working tree in a fresh interpreter (nothing to build). "
                 "Exit 0 held / 1 VIOLATION / 2 INCONCLUSIVE (coverage floors not met). known_findings.json lists genuine defects; "
                 "fix: commits in /repo are recorded there as fixed: entries.",
        "not_applicable": [{"property_id": p["id"], "reason": NA_REASON} for p in props if p["id"] not in CHECKS],
    }
    path = os.path.join(V, "MANIFEST.json")
    json.dump(m, open(path, "w"), indent=1)
    r = subprocess.run(["python3-vt", "-c",
                        "import json,jsonschema;jsonschema.validate(json.load(open('%s')),json.load(open('/root/.vp/MANIFEST.schema.json')));print('manifest ok')" % path])
    sys.exit(r.returncode)


if __name__ == "__main__":
    main()
