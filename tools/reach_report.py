#!/usr/bin/env python3
"""tools/reach_report.py <dir> [repo] [--list file.py] : merge the <pid>.txt files a VF_REACH run wrote and report, per file of
<repo>/ford, how many executable lines were reached; with --list print the unreached lines of one file with their source."""
import glob
import os
import sys


def exec_lines(path):
    src = open(path).read()
    try:
        code = compile(src, path, "exec")
    except SyntaxError:
        return set()
    lines = set()
    stack = [code]
    while stack:
        c = stack.pop()
        for _, _, ln in c.co_lines():
            if ln is not None and ln > 0:
                lines.add(ln)
        for k in c.co_consts:
            if hasattr(k, "co_lines"):
                stack.append(k)
    return lines


def main():
    d = sys.argv[1]
    repo = sys.argv[2] if len(sys.argv) > 2 and not sys.argv[2].startswith("--") else "/repo"
    hits = {}
    for f in glob.glob(os.path.join(d, "*.txt")):
        for l in open(f):
            fn, _, ln = l.strip().rpartition(":")
            hits.setdefault(fn, set()).add(int(ln))
    lst = sys.argv[sys.argv.index("--list") + 1] if "--list" in sys.argv else None
    root = os.path.join(repo, "ford")
    tot_e = tot_h = 0
    for dp, dn, fns in os.walk(root):
        for fn in sorted(fns):
            if not fn.endswith(".py"):
                continue
            p = os.path.join(dp, fn)
            rel = os.path.relpath(p, root)
            ex = exec_lines(p)
            h = hits.get(rel, set()) & ex
            tot_e += len(ex)
            tot_h += len(h)
            if not lst:
                print(f"{rel:28s} {len(h):5d}/{len(ex):5d}  {100 * len(h) / max(1, len(ex)):5.1f}%")
            elif lst == rel:
                src = open(p).read().split("\n")
                for ln in sorted(ex - h):
                    print(f"{ln:5d}  {src[ln - 1]}")
    if not lst:
        print(f"{'total':28s} {tot_h:5d}/{tot_e:5d}  {100 * tot_h / max(1, tot_e):5.1f}%")


if __name__ == "__main__":
    main()
