#!/bin/sh
# tools/muttest_all.sh <dir-with-Cnn-subdirs> <Cnn>... : run every m*.diff of the given properties against its check in scratch worktrees
base="$1"; shift
for id in "$@"; do
  for d in $base/$id/m*.diff; do
    k=$(basename "$d" .diff)
    res=$(MUT_LINES=3 /verif/tools/mut.sh $id "$d" 2>&1 | grep -v KNOWN-FINDING)
    echo "$id $k $(echo "$res" | grep -o 'exit=[0-9]*') $(echo "$res" | grep -E '^(VIOLATION|PATCH|INCONCLUSIVE)' | head -1 | cut -c1-230)"
  done
done
