#!/bin/sh
# tools/confirm_all.sh <Cnn> : confirm every /tmp/seedout/<Cnn>/m*.diff (or /tmp/port/<Cnn>-m*.diff if present) in parallel
id="$1"
for d in /tmp/seedout/$id/m*.diff; do
  k=$(basename "$d" .diff)
  patch="$d"; [ -f "/tmp/port/$id-$k.diff" ] && patch="/tmp/port/$id-$k.diff"
  needs=$(tr '\n' ' ' < /tmp/seedout/$id/$k.txt | cut -c1-600)
  /verif/tools/confirm_seed.sh "$id-$k" "$id" "$patch" "/tmp/seedout/$id/${k}_demo.py" "$needs" &
done
wait
