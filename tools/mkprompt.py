#!/usr/bin/env python3
"""tools/mkprompt.py <Cnn> <round> : prompt text for a mutant-writing sub-agent (property text only + the ideas used before)"""
import glob, json, sys
pid, rnd = sys.argv[1], sys.argv[2]
prop = next(json.loads(l) for l in open('/verif/properties.jsonl') if json.loads(l)['id'] == pid)
t = open('/verif/tools/seedprompts/template.txt').read()
used = []
for d in sorted(glob.glob(f'/verif/seeded/{pid}-*/meta.json')):
    m = json.load(open(d))
    used.append("   - " + m['needs_to_manifest'][:260].replace("\n", " "))
avoid = ""
if used:
    avoid = ("IMPORTANT - the following ideas have ALREADY been used by earlier changes; do NOT reuse them or close variants of them, find different "
             "code sites and different mechanisms (other modules of ford/, templates, other option combinations, other multi-step histories):\n" + "\n".join(used) + "\n\n")
if int(rnd) >= 5:
    avoid += ("Look beyond the parser core too: ford/templates/*.html (Jinja macros and pages), ford/output.py, ford/tipue_search.py, ford/graphs.py, "
              "ford/pagetree.py, ford/settings.py, ford/_markdown.py and the md_* extensions, ford/external_project.py, ford/fixed2free2.py, ford/utils.py, "
              "ford/__init__.py are all fair game when the property depends on them.\n\n")
t = t.replace("/tmp/seed2/", f"/tmp/seed{rnd}/").replace("/tmp/seedout2/", f"/tmp/seedout{rnd}/")
t = t.replace("{ID}", pid).replace("{TITLE}", prop['title']).replace("{STATEMENT}", prop['statement']).replace("{QUANT}", prop['quantifier']['text']).replace("{AVOID}", avoid)
print(t)
