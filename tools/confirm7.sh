#!/bin/sh
# tools/confirm3.sh <Cnn> <k> "<caught_by text>" : confirm round-7 mutant /verif/seeded_pending/<Cnn>/m<k>.diff as seeded/<Cnn>-r7m<k>
id="$1"; k="$2"; caught="$3"
src=/verif/seeded_pending/$id
patch="$src/m$k.diff"
needs=$(tr '\n' ' ' < $src/m$k.txt | cut -c1-600)
/verif/tools/confirm_seed.sh "$id-r7m$k" "$id" "$patch" "$src/m${k}_demo.py" "$needs" || exit $?
python3 - "$id-r7m$k" "$caught" <<'PY'
import json,sys
f=f"/verif/seeded/{sys.argv[1]}/meta.json"
m=json.load(open(f)); m["caught_by"]=sys.argv[2]; m["round"]=7; json.dump(m,open(f,"w"),indent=1)
PY
