#!/bin/sh
# tools/mut.sh <Cnn> <patch> [tier] : run a check against a scratch worktree of /repo HEAD (or $MUT_BASE) with <patch> applied
# (VERIF_REPO / VERIF_OUT point away from /repo and /verif, so this can run next to a sweep on the real tree; MUT_KEEP=1 keeps the output)
id="$1"; patch="$2"; t="${3:-quick}"
w=/tmp/mutrepo_$$; o=/tmp/mutout/$id.$$
git -C /repo worktree add -q --detach $w ${MUT_BASE:-HEAD} || exit 9
mkdir -p $o
cd $w && { git apply --3way "$patch" 2>/dev/null || git apply "$patch" || { echo "PATCH DOES NOT APPLY"; cd /; git -C /repo worktree remove --force $w; exit 8; }; }
cd /verif && VERIF_REPO=$w VERIF_OUT=$o VERIF_TIER="$t" ./check "$id" > $o/last.out 2>&1; rc=$?
grep -E "^(VIOLATION|INCONCLUSIVE|KNOWN-FINDING|C[0-9]+ tier)" $o/last.out | cut -c1-330 | head -${MUT_LINES:-6}
echo "exit=$rc"
git -C /repo worktree remove --force $w
[ -n "$MUT_KEEP" ] || rm -rf $o
exit $rc
