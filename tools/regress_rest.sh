#!/bin/sh
# tools/regress_rest.sh <done-list> [parallelism] : like regress_seeds.sh, for the seeds not named in <done-list> (first column)
done_list="$1"; P="${2:-4}"
cd /verif
for d in seeded/*/; do
  n=$(basename $d)
  grep -qx "$n" "$done_list" && continue
  id=$(python3 -c "import json,re,sys; m=json.load(open('$d/meta.json')); print(re.search(r'check (C\d+)', m.get('caught_by') or '').group(1))")
  echo "$n $id"
done | xargs -P "$P" -L 1 sh -c 'out=$(MUT_LINES=1 /verif/tools/mut.sh $1 /verif/seeded/$0/patch.diff 2>&1 | tail -1); echo "$0 $1 $out"'
