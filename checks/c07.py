"""C07 - cross-references resolve to the entity Fortran scoping designates.

Runtime monitor: programs are generated in which a small pool of names is deliberately reused across
scopes (provider module, consumer module, two sibling module procedures, an internal procedure, an
unrelated decoy module, an external decoy procedure, names differing only in case) and some referenced
names are declared nowhere; every scope contains reference slots (variable type, parent type,
procedure-pointer interface, binding target, deferred-binding interface, finaliser, generic specific,
call); after the real correlate() the object in each slot is compared with an independent implementation
of host/use association.  Separate cases cover submodule parents, separate module procedures and
structure constructors with same-named decoys.
"""
from __future__ import annotations

import json
import os
import random
import shutil
import sys

from vf import core

ford = core.setup_env()
from vf import observe  # noqa: E402

PID = "C07"
POOL = ["na", "nb", "nc", "nd"]
KINDS = ["type", "proc", "absint"]


class Scope:
    def __init__(self, name, kind, parent=None):
        self.name, self.kind, self.parent = name, kind, parent  # kind: module | procedure | internal
        self.decl = {}  # pool name -> (kind, access)
        self.imports = {}  # local name -> (entity scope, name, kind)
        self.use_stmt = None
        self.children = []
        self.slots = []  # (slot kind, name, slot id)
        if parent:
            parent.children.append(self)

    def path(self):
        p, s = [], self
        while s:
            p.append(s.name)
            s = s.parent
        return "/".join(reversed(p))


def lookup(scope, n):
    """Nearest enclosing scope that declares or imports n -> (entity id, kind) or None (F2008 16.5.1.4)."""
    s = scope
    while s is not None:
        if n in s.decl:
            return (f"{s.path()}::{n}", s.decl[n][0])
        if n in s.imports:
            es, en, ek = s.imports[n]
            return (f"{es.path()}::{en}", ek)
        s = s.parent
    return None


def build(seed):
    rng = random.Random(seed)
    sx = seed % 997
    A = Scope(f"ma{sx}", "module")
    C = Scope(f"mc{sx}", "module")
    B = Scope(f"mb{sx}", "module")
    P1 = Scope(f"pone{sx}", "procedure", B)
    I1 = Scope(f"inner{sx}", "internal", P1)
    P2 = Scope(f"ptwo{sx}", "procedure", B)
    # provider and decoy declarations
    for M in (A, C):
        for n in POOL:
            if rng.random() < 0.6:
                M.decl[n] = (rng.choice(KINDS), rng.choice(["public", "public", "private"]))
    A.late_private = rng.random() < 0.3
    exportsA = {n: kd for n, (kd, acc) in A.decl.items() if acc == "public"}
    # B uses A
    locals_ = []  # local names given by renames: referenced like the pool names

    def use_rename(S):
        # `use a, l => n` without ONLY: everything public comes in, n only under its local name (so the scope, or its host,
        # may have an `n` of its own)
        ren = rng.sample(sorted(exportsA), rng.randint(1, min(2, len(exportsA))))
        S.use_stmt = f"use {A.name}, " + ", ".join(f"l{S.kind[0]}{n} => {n}" for n in ren)
        for n, kd in exportsA.items():
            if n in ren:
                S.imports[f"l{S.kind[0]}{n}"] = (A, n, kd)
                locals_.append(f"l{S.kind[0]}{n}")
            else:
                S.imports[n] = (A, n, kd)

    def use_two(S):
        # one USE statement per imported group of names: the union is imported
        sel = rng.sample(sorted(exportsA), rng.randint(2, len(exportsA)))
        k = rng.randint(1, len(sel) - 1)
        S.use_stmt = f"use {A.name}, only: " + ", ".join(sel[:k]) + f"\nuse {A.name}, only: " + ", ".join(sel[k:])
        for n in sel:
            S.imports[n] = (A, n, exportsA[n])

    form = rng.choice(["plain", "only", "none", "rename", "two"])
    if form == "plain":
        B.use_stmt = f"use {A.name}"
        for n, kd in exportsA.items():
            B.imports[n] = (A, n, kd)
    elif form == "only" and exportsA:
        sel = rng.sample(sorted(exportsA), rng.randint(1, len(exportsA)))
        B.use_stmt = f"use {A.name}, only: " + ", ".join(sel)
        for n in sel:
            B.imports[n] = (A, n, exportsA[n])
    elif form == "rename" and exportsA:
        use_rename(B)
    elif form == "two" and len(exportsA) >= 2:
        use_two(B)
    B.use_nature = rng.random() < 0.2
    P1.use_nature = rng.random() < 0.2
    for n in POOL:
        if n not in B.imports and rng.random() < 0.5:
            B.decl[n] = (rng.choice(KINDS), "public")
    # P1 may use A itself (names not declared locally)
    r1 = rng.random()
    if exportsA and r1 < 0.4:
        sel = rng.sample(sorted(exportsA), rng.randint(1, len(exportsA)))
        P1.use_stmt = f"use {A.name}, only: " + ", ".join(sel)
        for n in sel:
            P1.imports[n] = (A, n, exportsA[n])
    elif exportsA and r1 < 0.5:
        use_rename(P1)
    elif len(exportsA) >= 2 and r1 < 0.6:
        use_two(P1)
    for S, kinds_allowed in ((P1, ["type", "proc", "absint"]), (I1, ["type", "absint"]), (P2, ["type", "absint"])):
        for n in POOL:
            if n not in S.imports and rng.random() < 0.35:
                S.decl[n] = (rng.choice(kinds_allowed), None)
    # a dummy procedure of P1 declared by an interface body, named like something of the host or of a used module: inside P1 (and
    # its internal procedure) the name is the dummy
    P1.dummy = None
    cand = [n for n in POOL if n not in P1.imports and n not in P1.decl]
    if cand and rng.random() < 0.35:
        P1.dummy = rng.choice(cand)
        P1.decl[P1.dummy] = ("dummy", None)
    # the internal procedure's own name may come from the pool only through P1.decl (kind proc); I1 itself has a unique name
    ext_decoy = rng.choice(POOL + [None])
    # reference slots
    sid = 0
    for S in (B, P1, I1, P2):
        for n in POOL + ["nz"] + locals_:
            found = lookup(S, n)
            for slot, cls in (("vartype", "type"), ("extends", "type"), ("procptr", "procish"), ("binding", "proc"), ("deferred", "procish"),
                              ("final", "proc"), ("call", "proc")):
                if rng.random() > 0.55:
                    continue
                if found is not None:
                    k = found[1]
                    ok = ((cls == "type" and k == "type") or (cls == "proc" and k == "proc") or (cls == "procish" and k in ("proc", "absint", "dummy"))
                          or (slot == "call" and k == "dummy"))
                    if not ok:
                        continue  # would be invalid Fortran: the visible entity of that name has another kind
                if slot == "call" and S.kind == "module":
                    continue
                if slot == "final" and found is None:
                    continue  # a FINAL name must be a visible module procedure
                sid += 1
                S.slots.append((slot, n, sid))
        if S is B:
            # generic interface over visible module-level procedures
            vis = [n for n in POOL if (lookup(S, n) or (None, None))[1] == "proc"]
            for n in vis[:2]:
                sid += 1
                S.slots.append(("generic_specific", n, sid))
    return {"A": A, "B": B, "C": C, "P1": P1, "I1": I1, "P2": P2, "ext_decoy": ext_decoy, "rng": rng, "seed": seed}


def cs(rng, n):
    return n.upper() if rng.random() < 0.3 else (n.capitalize() if rng.random() < 0.2 else n)


def render_decl(S, n, kd, acc, spec, contains, rng):
    a = f", {acc}" if (acc and S.kind == "module") else ""
    dn = cs(rng, n)
    if getattr(S, "late_private", False) and acc == "public" and kd != "type":
        spec.append(f"public :: {n}")
    if kd == "type":
        spec += [f"type{a} :: {dn}", "integer :: fld", f"end type {dn}"]
    elif kd == "absint":
        spec += ["abstract interface", f"subroutine {dn}(x)", "integer, intent(in) :: x", "end subroutine", "end interface"]
        if acc == "private" and S.kind == "module":
            spec.append(f"private :: {n}")
    else:
        contains += [f"subroutine {dn}(x)", "integer, intent(in) :: x", f"end subroutine {dn}"]
        if acc == "private" and S.kind == "module":
            spec.append(f"private :: {n}")


def render_slots(S, spec, body, rng):
    for slot, n, sid in S.slots:
        r = cs(rng, n)
        if slot == "vartype":
            spec.append(f"type({r}), pointer :: sv{sid}")
        elif slot == "extends":
            spec += [f"type, extends({r}) :: sx{sid}", "integer :: more", f"end type sx{sid}"]
        elif slot == "procptr":
            spec.append(f"procedure({r}), pointer :: sp{sid}")
        elif slot == "binding":
            spec += [f"type :: sb{sid}", "integer :: fld", "contains", f"procedure, nopass :: bnd{sid} => {r}", f"end type sb{sid}"]
        elif slot == "deferred":
            spec += [f"type, abstract :: sd{sid}", "contains", f"procedure({r}), deferred, nopass :: dfr{sid}", f"end type sd{sid}"]
        elif slot == "final":
            spec += [f"type :: sf{sid}", "integer :: fld", "contains", f"final :: {r}", f"end type sf{sid}"]
        elif slot == "call":
            body.append(f"call {r}(1)")
        elif slot == "generic_specific":
            spec += [f"interface sg{sid}", f"module procedure {r}", "end interface"]


def render_scope(S, rng, lines):
    spec, contains, body = [], [], []
    for n, (kd, acc) in S.decl.items():
        if kd == "proc" and S.kind != "module":
            continue  # internal procedures are rendered from the children list below
        if kd == "dummy":
            dn = cs(rng, n)
            spec += ["interface", f"subroutine {dn}(x)", "integer, intent(in) :: x", f"end subroutine {dn}", "end interface"]
            continue
        render_decl(S, n, kd, acc, spec, contains, rng)
    if getattr(S, "late_private", False):
        spec.append("private")  # after the declarations: every entity above carries an access attribute or is named in an access statement
    # types must be declared before they are referenced: declarations first, then slots
    render_slots(S, spec, body, rng)
    if S.kind != "module" and rng.random() < 0.4:
        # a BLOCK construct is a child scope: a type it defines under a reused name is invisible to the procedure's own declarations
        bn = cs(rng, rng.choice(POOL))
        body += ["block", f"type :: {bn}", "integer :: blk", f"end type {bn}", f"type({bn}) :: blv", "blv%blk = 1", "end block"]
    if S.kind == "module":
        lines.append(f"module {S.name}")
    else:
        lines.append(f"subroutine {S.name}({getattr(S, 'dummy', None) or ''})")
    if S.use_stmt:
        lines.append(S.use_stmt if not getattr(S, "use_nature", False) else S.use_stmt.replace("use ", "use, non_intrinsic :: ", 1).replace("\nuse ", "\nuse, non_intrinsic :: "))
    lines.append("implicit none")
    lines += spec + body
    kids = list(S.children)
    internal_from_pool = [(n, kd) for n, (kd, acc) in S.decl.items() if kd == "proc" and S.kind != "module"]
    if contains or kids or internal_from_pool:
        lines.append("contains")
        lines += contains
        for n, kd in internal_from_pool:
            dn = cs(rng, n)
            lines += [f"subroutine {dn}(x)", "integer, intent(in) :: x", f"end subroutine {dn}"]
        for k in kids:
            render_scope(k, rng, lines)
    lines.append(f"end {'module' if S.kind == 'module' else 'subroutine'} {S.name}")


def ent_path(obj):
    if obj is None:
        return "unresolved"
    if isinstance(obj, str):
        return "unresolved"
    names = []
    p = getattr(obj, "parent", None)
    # an abstract-interface body is wrapped: FortranModuleProcedureInterface(parent = scope)
    while p is not None:
        if type(p).__name__ in ("FortranSourceFile",):
            break
        if type(p).__name__ in ("FortranInterface", "FortranModuleProcedureInterface"):
            p = getattr(p, "parent", None)
            continue
        names.append(p.name.lower())
        p = getattr(p, "parent", None)
    return "/".join(reversed(names)) + "::" + obj.name.lower()


def observe_case(item):
    import ford.sourceform as sf

    chain_log = {}
    orig_find = sf.FortranCodeUnit._find_chain_item

    def rec_find(self, call_chain):
        item_ = orig_find(self, call_chain)
        chain_log[(self.name.lower(), call_chain[-1].lower())] = ent_path(item_)
        return item_

    sf.FortranCodeUnit._find_chain_item = rec_find
    cap = observe.Captured()
    try:
        project, cap = observe.parse_and_correlate([item["root"]], settings_kw=item.get("settings"), cap=cap)
    except Exception as e:
        import traceback

        return {"error": f"{type(e).__name__}: {e}", "tb": traceback.format_exc()[-1200:]}
    res = {}

    def visit(scope):
        rv = getattr(scope, "retvar", None)
        if rv is not None and not isinstance(rv, str) and getattr(rv, "proto", None):
            res["ret:" + scope.name.lower()] = ent_path(rv.proto[0])
        for v in getattr(scope, "variables", []):
            nm = v.name.lower()
            if nm.startswith(("sv", "sp")) and v.proto:
                res[nm] = ent_path(v.proto[0])
        for t in getattr(scope, "types", []):
            tn = t.name.lower()
            if tn.startswith("sx"):
                res[tn] = ent_path(t.extends)
            for b in getattr(t, "_vf_own_bps", t.boundprocs):
                bn = b.name.lower()
                if bn.startswith("bnd"):
                    res[bn] = ent_path(b.bindings[0])
                if bn.startswith("dfr"):
                    res[bn] = ent_path(b.proto)
            for f in t.finalprocs:
                if tn.startswith("sf"):
                    res[tn] = ent_path(f.procedure)
            if tn.startswith("ctor"):
                res[tn] = ent_path(t.constructor)
        for it in getattr(scope, "interfaces", []):
            if getattr(it, "generic", False) and it.name.lower().startswith("sg"):
                res[it.name.lower()] = ent_path(it.modprocs[0].procedure) if it.modprocs else "unresolved"
        for attr in ("functions", "subroutines", "modprocedures", "modfunctions", "modsubroutines"):
            for p in getattr(scope, attr, []):
                visit(p)

    for m in list(project.modules) + list(project.submodules):
        visit(m)
    sub = []

    def nm(x):
        return None if x is None else (x.lower() if isinstance(x, str) else x.name.lower())

    for sm in project.submodules:
        par = sm.parent_submodule
        rec = {"name": sm.name.lower(), "ancestor": nm(sm.ancestor_module), "ancestor_resolved": not isinstance(sm.ancestor_module, str),
               "parent": nm(par), "parent_resolved": par is not None and not isinstance(par, str),
               "parent_ancestor": nm(getattr(par, "ancestor_module", None)) if par is not None and not isinstance(par, str) else None, "mp": {}}
        for p in list(getattr(sm, "modprocedures", [])) + list(getattr(sm, "modfunctions", [])) + list(getattr(sm, "modsubroutines", [])):
            tgt = getattr(p, "module", None)
            rec["mp"][p.name.lower()] = ent_path(tgt) if tgt not in (True, False, None) else "unresolved"
        sub.append(rec)
    ctors = {}
    for m_ in project.modules:
        for t in m_.types:
            if t.name.lower().startswith("ctor"):
                ctors[m_.name.lower()] = ent_path(t.constructor) if t.constructor is not None else "none"
    diags = [w for w in cap.warnings if "Error parsing" in w] + [l for l in cap.stdout.splitlines() if l.startswith("ERROR in file")]
    return {"res": res, "calls": {f"{k[0]}|{k[1]}": v for k, v in chain_log.items()}, "diags": diags[:5], "sub": sub, "ctors": ctors}


def scope_relation(S, found_path, scopes):
    """Relation between the referencing scope and the scope owning the object FORD found."""
    if found_path == "unresolved":
        return "none"
    owner = found_path.split("::")[0]
    me = S.path()
    if owner == me:
        return "self"
    if me.startswith(owner + "/"):
        return "host"
    if owner.startswith(me + "/"):
        return "child"
    parent = me.rsplit("/", 1)[0] if "/" in me else None
    if parent and owner.startswith(parent + "/"):
        return "sibling_or_nephew"
    for k, sc in scopes.items():
        if isinstance(sc, Scope) and sc.path() == owner and sc.kind == "module":
            return "other_module"
    return "unrelated"


def case_scoping(seed):
    m = build(seed)
    rng = m["rng"]
    files = {}
    for key in ("A", "C", "B"):
        lines = []
        render_scope(m[key], rng, lines)
        files[m[key].name + ".f90"] = "\n".join(lines) + "\n"
    if m["ext_decoy"]:
        n = m["ext_decoy"]
        ext_text = f"subroutine {n}(x)\ninteger, intent(in) :: x\nend subroutine {n}\n"
        if rng.random() < 0.5:
            files[f"ext{seed % 997}.f90"] = ext_text
        else:  # in the consumer module's own source file: a file is not a host scope
            k = m["B"].name + ".f90"
            files[k] = (files[k] + ext_text) if rng.random() < 0.5 else (ext_text + files[k])
    base = core.mktemp("vf_c07_")
    try:
        root = os.path.join(base, "src")
        os.makedirs(root)
        for n, t in files.items():
            open(os.path.join(root, n), "w").write(t)
        # a same-named *external* module (extra_mods) must never win over the project's own module
        item = {"root": root}
        if seed % 3 == 0:
            item["settings"] = {"extra_mods": {m["A"].name: "https://example.org/elsewhere", m["A"].name.upper() + "_other": "https://example.org/o"}}
        st, r = core.run_alone(observe_case, item, timeout=120)
    finally:
        shutil.rmtree(base, ignore_errors=True)
    viol = []
    nslots = 0
    multi = 0
    if st != "ok" or "error" in (r or {}):
        return {"viol": [{"kf": {"kind": "ford_failed" if st == "ok" else "harness_" + st, "error": (r or {}).get("error", "")[:60] if st == "ok" else ""},
                          "w": {"detail": str(r)[-900:], "seed": seed, "files": files, "case": "scoping"}}], "nslots": 0, "nontrivial": False, "hash": core.h(files), "sample": None, "relations": []}
    if r["diags"]:
        viol.append({"kf": {"kind": "diagnostic_on_valid_input"}, "w": {"diags": r["diags"], "files": files, "seed": seed, "case": "scoping"}})
    declared_in = {}
    for key in ("A", "B", "C", "P1", "I1", "P2"):
        for n in m[key].decl:
            declared_in.setdefault(n, []).append(key)
    rels = set()
    for key in ("B", "P1", "I1", "P2"):
        S = m[key]
        for slot, n, sid in S.slots:
            exp = lookup(S, n)
            exp_id = exp[0] if exp else "unresolved"
            name = {"vartype": f"sv{sid}", "extends": f"sx{sid}", "procptr": f"sp{sid}", "binding": f"bnd{sid}", "deferred": f"dfr{sid}",
                    "final": f"sf{sid}", "generic_specific": f"sg{sid}"}.get(slot)
            if slot == "call":
                obs = r["calls"].get(f"{S.name.lower()}|{n}", "absent")
            else:
                obs = r["res"].get(name, "absent")
            nslots += 1
            if len(declared_in.get(n, [])) >= 2:
                multi += 1
            if obs != exp_id:
                rel = scope_relation(S, obs, m)
                rels.add(rel)
                viol.append({"kf": {"kind": "wrong_resolution", "slot": slot, "expected": "unresolved" if exp_id == "unresolved" else "entity",
                                    "found": "unresolved" if obs in ("unresolved", "absent") else "entity", "found_scope_relation": rel,
                                    "referencing_scope": S.kind},
                             "w": {"scope": S.path(), "slot": slot, "name": n, "expected": exp_id, "observed": obs, "seed": seed, "files": files, "case": "scoping"}})
    return {"viol": viol, "nslots": nslots, "nontrivial": multi >= 1 and nslots >= 1, "hash": core.h(files), "relations": sorted(rels),
            "sample": {"seed": seed, "consumer_module": files[m["B"].name + ".f90"][:1800]}}


def case_submodules(seed):
    """Submodule parents, separate module procedures and constructors with same-named decoys elsewhere."""
    rng = random.Random(seed)
    sx = seed % 997
    ma, mb = f"pa{sx}", f"pb{sx}"
    subname = f"impl{sx}"  # the same submodule name under both ancestor modules (legal)
    files = {}
    exp = {}
    order = rng.sample(["a", "b"], 2)
    for tag, mod in (("a", ma), ("b", mb)):
        L = [f"module {mod}", "implicit none", "interface", f"module subroutine work{sx}(x)", "integer, intent(in) :: x", "end subroutine",
             "end interface"]
        # a type with a user constructor only in module a; module b has a same-named type without constructor
        L += [f"type :: ctor{sx}", "integer :: fld", f"end type ctor{sx}"]
        # entities that the parent submodule also obtains, under the same names, from another module (they win there and below)
        L += [f"type :: gpoint{sx}", "integer :: of_ancestor", f"end type gpoint{sx}", "abstract interface", f"subroutine gcallback{sx}(q)", "real :: q", "end subroutine", "end interface"]
        if tag == "a":
            L += [f"interface ctor{sx}", f"module procedure make{sx}", "end interface"]
            L += ["contains", f"function make{sx}(i) result(r)", "integer, intent(in) :: i", f"type(ctor{sx}) :: r", "r%fld = i", "end function"]
        L.append(f"end module {mod}")
        files[f"{mod}.f90"] = "\n".join(L) + "\n"
        S = [f"submodule ({mod}) {subname}", f"use geo{sx}, only: gpoint{sx}, gcallback{sx}", "implicit none", f"type(gpoint{sx}) :: svp{tag}", f"procedure(gcallback{sx}), pointer :: spp{tag}", "contains"]
        if rng.random() < 0.5:
            S += [f"module procedure work{sx}", "end procedure"]
        else:
            S += [f"module subroutine work{sx}(x)", "integer, intent(in) :: x", "end subroutine"]
        S.append(f"end submodule {subname}")
        files[f"{mod}_{subname}.f90"] = "\n".join(S) + "\n"
        S2 = [f"submodule ({mod}:{subname}) deep{tag}{sx}", "implicit none", f"type(gpoint{sx}) :: svd{tag}", f"procedure(gcallback{sx}), pointer :: spd{tag}",
              f"type, extends(gpoint{sx}) :: sxd{tag}", "integer :: more", f"end type sxd{tag}", f"end submodule deep{tag}{sx}"]
        files[f"{mod}_deep.f90"] = "\n".join(S2) + "\n"
        exp[f"{mod}/deep{tag}{sx}"] = {"ancestor": f"::{mod}", "parent": f"{mod}/::{subname}"}
        exp[f"{mod}/{subname}"] = {"ancestor": f"::{mod}", "parent": None, "mp": {f"work{sx}": f"{mod}::work{sx}"}}
    files[f"geo{sx}.f90"] = "\n".join([f"module geo{sx}", "implicit none", f"type :: gpoint{sx}", "real :: x, y", f"end type gpoint{sx}", "abstract interface", f"subroutine gcallback{sx}(i)",
                                        "integer :: i", "end subroutine", "end interface", f"end module geo{sx}"]) + "\n"
    # the order in which the files are read is arbitrary (file names decide it)
    names = sorted(files)
    rng.shuffle(names)
    files = {f"f{rank}_{n}": files[n] for rank, n in enumerate(names)}
    base = core.mktemp("vf_c07_")
    try:
        root = os.path.join(base, "src")
        os.makedirs(root)
        for n, t in files.items():
            open(os.path.join(root, n), "w").write(t)
        st, r = core.run_alone(observe_case, {"root": root}, timeout=120)
    finally:
        shutil.rmtree(base, ignore_errors=True)
    viol = []
    if st != "ok" or "error" in (r or {}):
        return {"viol": [{"kf": {"kind": "ford_failed" if st == "ok" else "harness_" + st}, "w": {"detail": str(r)[-900:], "seed": seed, "files": files, "case": "submodules"}}],
                "nslots": 0, "nontrivial": False, "hash": core.h(files), "sample": None, "relations": []}
    nslots = 0
    obs_sub = r["sub"]
    for tag, mod in (("a", ma), ("b", mb)):
        for subn, parent_expected in ((subname, None), (f"deep{tag}{sx}", subname)):
            recs = [x for x in obs_sub if x["name"] == subn and x["ancestor"] == mod]
            nslots += 1
            if not recs or not recs[0]["ancestor_resolved"]:
                viol.append({"kf": {"kind": "wrong_resolution", "slot": "submodule_ancestor"}, "w": {"submodule": subn, "module": mod, "observed": obs_sub, "seed": seed, "files": files, "case": "submodules"}})
                continue
            v = recs[0]
            if parent_expected is not None:
                nslots += 1
                if not (v["parent_resolved"] and v["parent"] == parent_expected and v["parent_ancestor"] == mod):
                    viol.append({"kf": {"kind": "wrong_resolution", "slot": "submodule_parent", "found": "entity" if v["parent_resolved"] else "unresolved",
                                        "same_named_submodule_under_other_module": True},
                                 "w": {"submodule": subn, "module": mod, "expected_parent": f"{mod}:{parent_expected}", "observed": v, "seed": seed, "files": files, "case": "submodules"}})
            else:
                nslots += 1
                got = v["mp"].get(f"work{sx}")
                if got != f"{mod}::work{sx}":
                    viol.append({"kf": {"kind": "wrong_resolution", "slot": "module_procedure_interface", "found": "unresolved" if got in (None, "unresolved") else "entity"},
                                 "w": {"submodule": subn, "module": mod, "expected": f"{mod}::work{sx}", "observed": got, "seed": seed, "files": files, "case": "submodules"}})
    # what the parent submodule imports wins over the ancestor module's entities of the same names, in the parent and in its child
    for tag in ("a", "b"):
        for slot, want in ((f"svp{tag}", f"geo{sx}::gpoint{sx}"), (f"spp{tag}", f"geo{sx}::gcallback{sx}"), (f"svd{tag}", f"geo{sx}::gpoint{sx}"), (f"spd{tag}", f"geo{sx}::gcallback{sx}"),
                           (f"sxd{tag}", f"geo{sx}::gpoint{sx}")):
            nslots += 1
            got = r["res"].get(slot, "absent")
            if got != want:
                viol.append({"kf": {"kind": "wrong_resolution", "slot": "name_imported_by_parent_submodule", "found": "unresolved" if got in ("absent", "unresolved") else "entity",
                                    "referencing_scope": "child submodule" if slot[2] == "d" else "parent submodule"},
                             "w": {"slot": slot, "expected": want, "observed": got, "seed": seed, "files": files, "case": "submodules"}})
    # constructors: module a's type has a user constructor, module b's same-named type has none
    nslots += 2
    if r["ctors"].get(ma) != f"{ma}::ctor{sx}":
        viol.append({"kf": {"kind": "wrong_resolution", "slot": "constructor", "found": "other"}, "w": {"module": ma, "observed": r["ctors"].get(ma), "seed": seed, "files": files, "case": "submodules"}})
    if r["ctors"].get(mb) != "none":
        viol.append({"kf": {"kind": "wrong_resolution", "slot": "constructor", "found": "entity", "expected": "unresolved"}, "w": {"module": mb, "observed": r["ctors"].get(mb), "seed": seed, "files": files, "case": "submodules"}})
    return {"viol": viol, "nslots": nslots, "nontrivial": True, "hash": core.h(files), "relations": [],
            "sample": {"seed": seed, "files": sorted(files)}}


def case_chain(seed):
    """Type-bound calls whose first label is declared in several scopes with different types."""
    rng = random.Random(seed)
    sx = seed % 997
    mod = f"mchain{sx}"
    L = [f"module {mod}", "implicit none"]
    for t in ("alpha", "beta"):
        L += [f"type :: {t}{sx}", "integer :: fld", "contains", f"procedure :: run => run_{t}{sx}", f"end type {t}{sx}"]
    L += [f"type(alpha{sx}) :: item", "contains"]
    for t in ("alpha", "beta"):
        L += [f"subroutine run_{t}{sx}(self)", f"class({t}{sx}), intent(in) :: self", "end subroutine"]
    exp = {}
    variants = rng.sample(["dummy", "local", "host", "internal_host_dummy", "internal_local"], 4)
    for v in variants:
        pn = f"user_{v}{sx}"
        if v == "dummy":
            L += [f"subroutine {pn}(item)", f"class(beta{sx}), intent(in) :: item", "call item%run()", "end subroutine"]
            exp[pn] = f"{mod}/beta{sx}::run"
        elif v == "local":
            L += [f"subroutine {pn}()", f"type(beta{sx}) :: item", "call ITEM%run()", "end subroutine"]
            exp[pn] = f"{mod}/beta{sx}::run"
        elif v == "host":
            L += [f"subroutine {pn}()", "call item%run()", "end subroutine"]
            exp[pn] = f"{mod}/alpha{sx}::run"
        elif v == "internal_host_dummy":
            L += [f"subroutine outer_{pn}(item)", f"class(beta{sx}), intent(in) :: item", f"call {pn}()", "contains", f"subroutine {pn}()", "call item%run()",
                  "end subroutine", "end subroutine"]
            exp[pn] = f"{mod}/beta{sx}::run"
        else:
            L += [f"subroutine outer_{pn}(item)", f"class(beta{sx}), intent(in) :: item", f"call {pn}()", "contains", f"subroutine {pn}()",
                  f"type(alpha{sx}) :: item", "call item%run()", "end subroutine", "end subroutine"]
            exp[pn] = f"{mod}/alpha{sx}::run"
    L.append(f"end module {mod}")
    files = {f"{mod}.f90": "\n".join(L) + "\n"}
    base = core.mktemp("vf_c07_")
    try:
        root = os.path.join(base, "src")
        os.makedirs(root)
        for n, t in files.items():
            open(os.path.join(root, n), "w").write(t)
        st, r = core.run_alone(observe_case, {"root": root}, timeout=120)
    finally:
        shutil.rmtree(base, ignore_errors=True)
    if st != "ok" or "error" in (r or {}):
        return {"viol": [{"kf": {"kind": "ford_failed" if st == "ok" else "harness_" + st}, "w": {"detail": str(r)[-900:], "seed": seed, "files": files, "case": "chain"}}],
                "nslots": 0, "nontrivial": False, "hash": core.h(files), "sample": None, "relations": []}
    viol = []
    for pn, e in exp.items():
        obs = r["calls"].get(f"{pn}|run", "absent")
        if obs != e:
            viol.append({"kf": {"kind": "wrong_resolution", "slot": "typebound_call_chain", "variant": pn.split("_", 1)[1].rstrip("0123456789")},
                         "w": {"procedure": pn, "expected": e, "observed": obs, "seed": seed, "files": files, "case": "chain"}})
    return {"viol": viol, "nslots": len(exp), "nontrivial": True, "hash": core.h(files), "relations": [], "sample": None}


def observe_tbgeneric(item):
    cap = observe.Captured()
    try:
        project, cap = observe.parse_and_correlate([item["root"]], cap=cap)
    except BaseException as e:
        import traceback

        return {"error": f"{type(e).__name__}: {e}", "tb": traceback.format_exc()[-1500:]}
    out = {}
    for m in project.modules:
        for t in m.types:
            for bp in t.boundprocs:
                if not getattr(bp, "generic", False):
                    continue
                ids = []
                for b in bp.bindings:
                    if isinstance(b, str):
                        ids.append("text:" + b.lower())
                    elif type(b).__name__ == "FortranBoundProcedure":
                        tgt = [x if isinstance(x, str) else ent_path(x) for x in b.bindings]
                        ids.append(f"binding:{b.parent.name.lower()}%{b.name.lower()}->{','.join(tgt)}")
                    else:
                        ids.append(f"{type(b).__name__}:{ent_path(b)}")
                out[f"{m.name.lower()}/{t.name.lower()}%{bp.name.lower()}"] = ids
    return {"generics": out}


def case_tbgeneric(seed):
    """The names after `=>` of a type-bound GENERIC are bindings of the type (its own or inherited ones), never procedures: with
    same-named module procedures as decoys, private specific bindings inherited across modules, and parents outside the project."""
    rng = random.Random(seed)
    sx = seed % 997
    A, B, Cm = f"tga{sx}", f"tgb{sx}", f"tgc{sx}"
    spec1, spec2 = rng.sample(["add_int", "add_real", "put_one", "put_two"], 2)
    priv = rng.random() < 0.6
    pa = "private" if priv else "public"
    files = {}
    files[A] = "\n".join([f"module {A}", "implicit none", "private", "public :: counter", "type :: counter", "integer :: n = 0", "contains",
                          f"procedure, {pa} :: {spec1}", f"procedure, {pa} :: {spec2} => impl_{spec2}", f"generic, public :: add => {cs(rng, spec1)}, {spec2}", "end type counter", "contains",
                          f"subroutine {spec1}(self, k)", "class(counter), intent(inout) :: self", "integer, intent(in) :: k", f"end subroutine {spec1}",
                          f"subroutine impl_{spec2}(self, x)", "class(counter), intent(inout) :: self", "real, intent(in) :: x", f"end subroutine impl_{spec2}", f"end module {A}"]) + "\n"
    decoy = rng.random() < 0.8
    own_generic = rng.random() < 0.4  # the extending type adds a specific of its own to the inherited generic
    L = [f"module {B}", f"use {A}, only: counter", "implicit none", "type, extends(counter) :: tally", "integer :: total = 0"]
    if own_generic:
        L += ["contains", "procedure :: add_mine", "generic :: add => add_mine"]
    L += ["end type tally", "contains"]
    if decoy:
        for sp in (spec1, spec2):
            L += [f"subroutine {sp}(a, b)", "integer, intent(inout) :: a", "integer, intent(in) :: b", f"end subroutine {sp}"]
    if own_generic:
        L += ["subroutine add_mine(self, c)", "class(tally), intent(inout) :: self", "character(*), intent(in) :: c", "end subroutine add_mine"]
    if not decoy and not own_generic:
        L += ["subroutine unrelated()", "end subroutine unrelated"]
    L.append(f"end module {B}")
    files[B] = "\n".join(L) + "\n"
    # parent type from a module that is not part of the project: the inherited binding is unknown, a module procedure has its name
    files[Cm] = "\n".join([f"module {Cm}", f"use third_party_shapes{sx}, only: shape_base", "implicit none", "type, extends(shape_base) :: square", "real :: side", "contains",
                           "generic :: describe => print_info", "end type square", "contains", "subroutine print_info(unit)", "integer, intent(in) :: unit", "end subroutine print_info",
                           f"end module {Cm}"]) + "\n"
    names = list(files)
    rng.shuffle(names)
    base = core.mktemp("vf_c07g_")
    try:
        root = os.path.join(base, "src")
        os.makedirs(root)
        for rank, n in enumerate(names):
            open(os.path.join(root, f"f{rank}_{n}.f90"), "w").write(files[n])
        st, r = core.run_alone(observe_tbgeneric, {"root": root}, timeout=120)
    finally:
        shutil.rmtree(base, ignore_errors=True)
    if st != "ok" or "error" in (r or {}):
        return {"viol": [{"kf": {"kind": "ford_failed" if st == "ok" else "harness_" + st}, "w": {"detail": str(r)[-900:], "seed": seed, "files": files, "case": "tbgeneric"}}],
                "nslots": 0, "nontrivial": False, "hash": core.h(files), "sample": None, "relations": []}
    viol = []
    n = 0
    G = r["generics"]
    want_targets = {spec1: f"{A}::{spec1}", spec2: f"{A}::impl_{spec2}"}
    for key, ids in G.items():
        for b in ids:
            n += 1
            bad = None
            if not b.startswith(("text:", "binding:")):
                bad = "specific_of_type_bound_generic_resolved_to_procedure"
            elif b.startswith("binding:"):
                owner_name = b[len("binding:"):].split("->")[0]
                tname, _, bname = owner_name.partition("%")
                tgt = b.split("->", 1)[1]
                if key.startswith((A + "/", B + "/")) and bname in want_targets and not tgt.lower().endswith(want_targets[bname].lower()):
                    bad = "specific_binding_bound_to_other_procedure"
                if key.startswith(Cm + "/"):
                    bad = "unknown_inherited_binding_resolved"
            if bad:
                viol.append({"kf": {"kind": "wrong_resolution", "slot": "typebound_generic_specific", "variant": bad},
                             "w": {"generic": key, "specific": b, "all": G, "seed": seed, "files": files, "case": "tbgeneric"}})
    for key in (f"{A}/counter%add", f"{B}/tally%add", f"{Cm}/square%describe"):
        if key not in G:
            viol.append({"kf": {"kind": "wrong_resolution", "slot": "typebound_generic_specific", "variant": "generic_missing"},
                         "w": {"generic": key, "all": G, "seed": seed, "files": files, "case": "tbgeneric"}})
    return {"viol": viol, "nslots": n, "nontrivial": True, "hash": core.h(files), "relations": [], "sample": None}


def case_order(seed):
    """Resolution must not depend on the order in which modules are correlated: (a) a USE that appears only in a deeply nested
    procedure, of a module that merely re-exports the name, with a same-named entity in the host; (b) a generic interface named
    like an imported derived type (constructor defined outside the type's module) next to later users of that module."""
    rng = random.Random(seed)
    S = seed % 9973
    files = {}
    exp = {}
    variant = rng.choice(["deep_use_of_reexport", "local_generic_named_like_imported_type", "prefix_typed_result"])
    if variant == "deep_use_of_reexport":
        base, re1 = f"mb{S}", f"mr{S}"
        chain = [re1] + ([f"mq{S}"] if rng.random() < 0.4 else [])
        host = rng.choice([f"a{S}_host", f"z{S}_host", f"m{S}_host"])
        files[base + ".f90"] = f"module {base}\nimplicit none\ntype :: tt\ninteger :: a\nend type tt\ncontains\nsubroutine ss()\nend subroutine ss\nend module {base}\n"
        prev = base
        for c in chain:
            only = rng.choice(["", ", only: tt, ss"])
            files[c + ".f90"] = f"module {c}\nuse {prev}{only}\nimplicit none\nend module {c}\n"
            prev = c
        depth = rng.choice([1, 2, 2, 3])
        L = [f"module {host}", "implicit none"]
        host_has_own = rng.random() < 0.7
        if host_has_own:
            L += ["type :: tt", "integer :: own", "end type tt"]
        L += ["contains", "subroutine outer1()"]
        if depth == 1:
            L += [f"use {prev}", "type(tt) :: sv1", "call ss()"]
            exp["sv1"] = f"{base}::tt"
            exp["call:outer1|ss"] = f"{base}::ss"
        L += ["contains"] if depth >= 2 else []
        if depth >= 2:
            L += ["subroutine inner2()", f"use {prev}", "type(tt) :: sv2", "call ss()", "end subroutine inner2"]
            exp["sv2"] = f"{base}::tt"
            exp["call:inner2|ss"] = f"{base}::ss"
        if depth == 3:
            # an interface body inside the nested level is not possible; use a second internal procedure with ONLY
            L += ["subroutine inner3()", f"use {prev}, only: tt", "type(tt) :: sv3", "end subroutine inner3"]
            exp["sv3"] = f"{base}::tt"
        L += ["end subroutine outer1"]
        if host_has_own:
            L += ["subroutine sibling()", "type(tt) :: sv9", "end subroutine sibling"]
            exp["sv9"] = f"{host}::tt"
        L += [f"end module {host}"]
        files[host + ".f90"] = "\n".join(L) + "\n"
    elif variant == "prefix_typed_result":
        # the type named in a function prefix is looked up in the function's own scope (its USE statements and declarations) first
        m2, host = f"mp{S}", rng.choice([f"a{S}_host", f"z{S}_host"])
        files[m2 + ".f90"] = f"module {m2}\nimplicit none\ntype :: tt\ninteger :: a\nend type tt\nend module {m2}\n"
        L = [f"module {host}", "implicit none", "type :: tt", "integer :: own", "end type tt", "contains",
             "type(tt) function uses_other()", f"use {m2}", "uses_other%a = 1", "end function uses_other",
             "type(tt) function uses_host()", "uses_host%own = 1", "end function uses_host",
             "function body_typed() result(r)", f"use {m2}, only: tt", "type(tt) :: r", "r%a = 2", "end function body_typed",
             "type(tt) function with_result() result(q)", f"use {m2}", "q%a = 3", "end function with_result",
             f"end module {host}"]
        files[host + ".f90"] = "\n".join(L) + "\n"
        exp["ret:uses_other"] = f"{m2}::tt"
        exp["ret:uses_host"] = f"{host}::tt"
        exp["ret:body_typed"] = f"{m2}::tt"
        exp["ret:with_result"] = f"{m2}::tt"
    else:
        m0 = f"mv{S}"
        ext = rng.choice([f"b{S}_ext", f"y{S}_ext"])
        users = [rng.choice([f"c{S}_user", f"a{S}_user", f"z{S}_user"])]
        files[m0 + ".f90"] = f"module {m0}\nimplicit none\ntype :: vec\nreal :: x\nend type vec\nend module {m0}\n"
        files[ext + ".f90"] = "\n".join([f"module {ext}", f"use {m0}", "implicit none", "interface vec", "module procedure make_vec", "end interface", "type(vec) :: sv4",
                                          "contains", "function make_vec(i) result(v)", "integer, intent(in) :: i", "type(vec) :: sv5", "type(vec) :: v", "v%x = i", "end function make_vec",
                                          f"end module {ext}"]) + "\n"
        exp["sv4"] = f"{m0}::vec"
        exp["sv5"] = f"{m0}::vec"
        for u in users:
            dep = rng.random() < 0.5
            L = [f"module {u}", f"use {m0}"] + ([f"use {ext}, only: make_vec"] if dep else []) + ["implicit none", "type(vec) :: sv6", "contains", "subroutine pu()", "type(vec) :: sv7",
                 "end subroutine pu", f"end module {u}"]
            files[u + ".f90"] = "\n".join(L) + "\n"
            exp["sv6"] = f"{m0}::vec"
            exp["sv7"] = f"{m0}::vec"
    base_dir = core.mktemp("vf_c07o_")
    try:
        root = os.path.join(base_dir, "src")
        os.makedirs(root)
        for n, t in files.items():
            open(os.path.join(root, n), "w").write(t)
        st, r = core.run_alone(observe_case, {"root": root}, timeout=120)
    finally:
        shutil.rmtree(base_dir, ignore_errors=True)
    if st != "ok" or "error" in (r or {}):
        return {"viol": [{"kf": {"kind": "ford_failed" if st == "ok" else "harness_" + st, "case": variant}, "w": {"detail": str(r)[-900:], "seed": seed, "files": files, "case": "order"}}],
                "nslots": 0, "nontrivial": False, "hash": core.h(files), "sample": None, "relations": []}
    viol = []
    for k, e in exp.items():
        obs = r["calls"].get(k[5:], "absent") if k.startswith("call:") else r["res"].get(k, "absent")
        if obs != e:
            viol.append({"kf": {"kind": "wrong_resolution", "slot": "call" if k.startswith("call:") else "vartype", "variant": variant,
                                "found": "unresolved" if obs in ("unresolved", "absent") else "entity"},
                         "w": {"slot": k, "expected": e, "observed": obs, "seed": seed, "files": files, "case": "order"}})
    return {"viol": viol, "nslots": len(exp), "nontrivial": True, "hash": core.h(files), "relations": [], "sample": None}


def dispatch(arg):
    kind, seed = arg
    return {"scoping": case_scoping, "submodules": case_submodules, "chain": case_chain, "order": case_order, "tbgeneric": case_tbgeneric}[kind](seed)


def main():
    run = core.Run(
        PID,
        rule="scoping case = provider module A, unrelated decoy module C, consumer module B (uses A plainly / with ONLY / not at all) with "
        "sibling procedures P1, P2 and an internal procedure I1 of P1, optional external decoy procedure; each scope declares a random "
        "subset of the 4 pool names as type / procedure / abstract interface (never two kinds of one name in one scope, never a name "
        "that is also imported there); every scope holds reference slots (variable type, parent type, procedure-pointer interface, "
        "binding target, deferred-binding interface, finaliser, generic specific, call) for pool names and for a name declared "
        "nowhere, in random letter case; slots whose visible entity has another kind are not generated (would be invalid). submodule "
        "case = two modules with equally named submodules, child submodules, separate module procedures and same-named types. "
        "Non-trivial: some name is declared in >=2 scopes and >=1 slot compared; distinct by source hash.",
        assumptions=["lookup() in checks/c07.py implements host + use association (innermost declaration or import wins)",
                     "references to names with no visible declaration must stay unresolved"],
    )
    rp = core.replay_arg()
    if rp:
        w = json.load(open(rp))["witness"]
        r = dispatch((w.get("case", "scoping"), w["seed"]))
        known = core.load_known(PID)
        bad = [v for v in r["viol"] if core.match_known(known, v["kf"]) is None]
        print("replay:", "VIOLATION" if bad else "held")
        for v in bad[:8]:
            print(json.dumps({k: x for k, x in v["w"].items() if k != "files"}, default=str)[:500])
        sys.exit(1 if bad else 0)
    n = 4000 if run.tier == "thorough" else 500
    args = ([("scoping", run.seed * 100003 + i) for i in range(n)] + [("submodules", run.seed * 100003 + i) for i in range(n // 10)]
            + [("chain", run.seed * 100003 + i) for i in range(n // 10)] + [("order", run.seed * 100003 + i) for i in range(n // 5)] + [("tbgeneric", run.seed * 100003 + i) for i in range(n // 5)])
    results = core.fork_map(dispatch, args, per_case_fork=False, case_timeout=300, total_timeout=3400)
    for a, (st, r) in zip(args, results):
        if st != "ok":
            run.inconc(f"{st}: {str(r)[-300:]}")
            continue
        run.case(key=r["hash"], nontrivial=r["nontrivial"], sample=r["sample"] if (r["nontrivial"] and a[0] == "scoping") else None)
        run.count("slots_compared_" + a[0], r["nslots"])
        for v in r["viol"]:
            run.violation(v["kf"], v["w"])
    run.max_samples = 2
    run.finish(floors={"evaluations": 400, "distinct_nontrivial": 250, "slots_compared_scoping": 5000, "slots_compared_submodules": 100, "slots_compared_chain": 100, "slots_compared_order": 100, "slots_compared_tbgeneric": 300})


if __name__ == "__main__":
    main()
