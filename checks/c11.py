"""C11 - [[...]] references link to the entity the documented rules select.

Runtime monitor over complete FORD runs (forked child).  A fixed-shape project with deliberately repeated names
(two modules each with a type `shape`, a function `area`, a variable `count`, ...) carries, in the documentation of
entities of every kind, in the project file, in `summary` and in static pages at two depths, a battery of
references in every documented spelling (qualifier on/off for both parts, every kind synonym, child part), each
bracketed by unique marker words.  After the run every page on which a marker pair occurs is searched for the
<a> between the markers; its href is resolved *from that page* and the element it lands on must carry the tracer
word of an entity the documented lookup allows (own contents, parent's contents, then project-wide; several
equally named candidates at the deciding level are all accepted).  References to nothing must be plain text with
a warning; references in code spans / blocks must stay verbatim.
"""
from __future__ import annotations

import json
import os
import posixpath
import random
import re
import shutil
import sys
import urllib.parse

from vf import core

ford = core.setup_env()
from vf import site  # noqa: E402

PID = "C11"

# kinds usable as qualifier of the first part (project level) and of the item part
TOP_KINDS = {"proc": ["procedure", "proc", "function", "subroutine"], "type": ["type"], "module": ["module"], "program": ["program"], "file": ["file"],
             "absint": ["interface", "absinterface"], "namelist": ["namelist"], "submodule": ["submodule"], "blockdata": ["block"]}
ITEM_KINDS = {"variable": ["variable"], "bound": ["bound"], "function": ["function"], "subroutine": ["subroutine"], "type": ["type"], "interface": ["interface"],
              "absint": ["absinterface"], "final": ["final"]}
# item kinds that can exist within a component of the given kind
POSSIBLE_ITEMS = {"module": {"variable", "type", "interface", "absinterface", "subroutine", "function", "common"},
                  "program": {"variable", "type", "interface", "absinterface", "subroutine", "function", "common"},
                  "proc": {"variable", "type", "interface", "absinterface", "subroutine", "function", "common"},
                  "blockdata": {"variable", "type", "common"},
                  "type": {"variable", "bound", "final", "constructor"}}
CONTEXT_ABLE = {"variable", "type", "constructor", "interface", "absinterface", "subroutine", "function", "final", "bound", "modproc", "common"}


class Ent:
    def __init__(self, eid, name, kind, parent=None, sub=None):
        self.eid, self.name, self.kind, self.parent, self.sub = eid, name, kind, parent, sub  # sub: kind as a child (function/subroutine/variable/...)
        self.children = []
        self.tracer = f"zt{eid}"
        self.refs = []  # (k, ref text, expected ids or "absent", code?)
        if parent:
            parent.children.append(self)


def build_model(seed):
    rng = random.Random(seed)
    E = {}
    n = [0]

    def ent(name, kind, parent=None, sub=None):
        n[0] += 1
        e = Ent(n[0], name, kind, parent, sub)
        E[e.eid] = e
        return e

    sx = seed % 89
    fa, fb = ent((f"2d_lfa{sx}.f90" if seed % 3 == 1 else f"lfa{sx}.f90"), "file"), ent(f"lfb{sx}.f90", "file")  # a file name may start with a digit
    ma, mb = ent(f"lma{sx}", "module", fa), ent(f"lmb{sx}", "module", fb)
    for m in (ma, mb):
        t = ent("shape", "type", m, "type")
        ent("side", "variable", t, "variable")
        ent("draw", "bound", t, "bound")
        ent("paint", "bound", t, "bound")  # a generic binding
        f = ent("area", "proc", m, "function")
        ent("radius", "arg", f, None)  # dummy argument: documented with the procedure, not a link target
        ent("count", "variable", m, "variable")
        # a generic interface named like the type (user-defined constructor): children of the module that only the kind tells apart
        ent("shape", "proc", m, "interface")
        ent("make_shape", "proc", m, "function")
    ent("lone", "type", ma, "type")  # a type without constructor interface
    # a type that extends `shape` of its module without adding anything: the inherited component and bindings (a generic one among them) are its own
    sq = ent("square", "type", ma, "type")
    sq.inherits_from = [c for c in ma.children if c.name == "shape" and c.kind == "type"][0]
    setup = ent("setup", "proc", ma, "subroutine")
    ent("only_b", "proc", mb, "subroutine")
    ent("callback", "absint", ma, "absinterface")
    ent(f"lprog{sx}", "program", fb)
    # a namelist group declared in an external procedure (no module, no program around it): a project-wide target with a page of its own
    xp = ent(f"lext{sx}", "extproc", fb)
    ent(f"lnl{sx}", "namelist", xp)
    # a block data unit that defines a derived type: the type is a project-wide link target with a page of its own
    bd = ent(f"lbd{sx}", "blockdata", fb)
    bt = ent("bdt", "type", bd, "type")
    ent("bcomp", "variable", bt, "variable")
    fx = ent(f"lnotes{sx}.inc", "file") if seed % 2 else None  # a file of an extra file type is a link target like any source file
    model = {"E": E, "fa": fa, "fb": fb, "ma": ma, "mb": mb, "sx": sx, "fx": fx}
    return model, rng


def named(ents, name, kinds=None):
    return [e for e in ents if e.name.lower() == name.lower() and (kinds is None or e.kind in kinds or e.sub in kinds)]


def lookup(model, ctx, name, q, child, cq):
    """Documented lookup. Returns set of acceptable entity ids (empty = absent)."""
    E = model["E"]
    allents = list(E.values())
    top_level = [e for e in allents if e.kind in ("file", "module", "program", "type", "proc", "absint", "namelist", "blockdata")]

    def match_top(e, q):
        if q is None:
            return True
        for k, syn in TOP_KINDS.items():
            if q in syn and e.kind == k:
                return True
        return False

    def match_item(e, q):
        if q is None:
            return True
        return (e.sub == q) or (q == "absinterface" and e.kind == "absint") or (q == "type" and e.kind == "type")

    # "If multiple items with the same name exist and type is not specified then FORD's behaviour is undefined; it will link to the
    # first of those items which it finds" (user guide): an unqualified first part that names several entities (for instance a type and
    # its constructor interface) may resolve to any of them, so any equally named entity - or its so-named child, or no link when the
    # chosen one has no such child - is accepted.
    same = [e for e in allents if e.name.lower() == name.lower() and e.kind != "arg"]
    if q is None and len(same) > 1:
        out = {e.eid for e in same}
        if child is not None:
            out |= {c.eid for e in same for c in e.children if c.name.lower() == child.lower()}
        return out, "lenient"
    def kids(e):
        """(child, qualifiers under which it is reachable or None = by its own kind)"""
        if e is None:
            return []
        out_ = [(c, None) for c in e.children]
        if getattr(e, "inherits_from", None) is not None:
            out_ += [(c, None) for c in e.inherits_from.children]
        if e.kind == "type" and e.parent is not None:
            # the constructor (generic interface named like the type, in the type's module) is a child of the type, reachable
            # without qualifier or as (constructor) - not as (interface)
            out_ += [(c, ("constructor",)) for c in e.parent.children if c.sub == "interface" and c.name.lower() == e.name.lower()]
        return out_

    def km(c, via, qq):
        return (qq is None or qq in via) if via else match_item(c, qq)

    cands = []
    if ctx is not None and (q is None or q in CONTEXT_ABLE):
        for level in (kids(ctx), kids(ctx.parent)):
            c = [e for e, via in level if e.name.lower() == name.lower() and km(e, via, q)]
            if c:
                cands = c
                break
    if not cands:
        cands = [e for e in top_level if e.name.lower() == name.lower() and match_top(e, q)]
    if not cands:
        return set(), False
    if child is None:
        return {e.eid for e in cands}, False
    if cq is not None and all(cq not in POSSIBLE_ITEMS.get(e.kind, ()) for e in cands):
        # "If you specify an option that can not exist within component ... a warning message is issued and the link is not generated"
        return set(), False
    out = set()
    for e in cands:
        for c, via in kids(e):
            if c.name.lower() == child.lower() and km(c, via, cq):
                out.add(c.eid)
    if not out:
        # documented: warning, link to the page of the first part instead (which equally named first part is left open)
        return {e.eid for e in top_level if e.name.lower() == name.lower()} | {e.eid for e in cands}, True
    return out, False


def spellings(model, target, rng):
    """All documented spellings that should reach `target` from a context where it is the nearest candidate."""
    refs = []
    E = model["E"]
    if target.kind == "namelist":
        return [(target.name, None, None, None), (target.name, "namelist", None, None)]
    if target.kind in ("file", "module", "program", "absint", "blockdata") or (target.kind in ("type", "proc") and target.parent.kind in ("module", "blockdata")):
        quals = [None] + TOP_KINDS[target.kind]
        if target.kind == "proc":
            quals = [None, "procedure", "proc", target.sub]
        for q in quals:
            refs.append((target.name, q, None, None))
        if target.parent is not None and target.parent.kind in ("module", "blockdata"):
            itemq = {"proc": target.sub, "type": "type", "absint": "absinterface"}[target.kind]
            for q1 in (None, "module" if target.parent.kind == "module" else "block"):
                for q2 in (None, itemq):
                    refs.append((target.parent.name, q1, target.name, q2))
    else:
        par = target.parent
        top_q = {"module": "module", "type": "type", "proc": rng.choice(["proc", "procedure", par.sub or "proc"])}.get(par.kind)
        for q1 in (None, top_q):
            for q2 in (None, target.sub):
                refs.append((par.name, q1, target.name, q2))
    return refs


def fmt(ref):
    a, q1, b, q2 = ref
    s = a + (f"({q1})" if q1 else "")
    if b:
        s += ":" + b + (f"({q2})" if q2 else "")
    return f"[[{s}]]"


def plan_refs(model, rng, thorough):
    """Attach reference batteries to documentation sites. Returns list of sites: dict(kind, ent|None, refs)."""
    E = model["E"]
    targets = [e for e in E.values() if e.kind not in ("arg", "extproc")]
    sites = []
    k = [0]

    def battery(ctx, nrefs):
        out = []
        pool = []
        for t in targets:
            for r in spellings(model, t, rng):
                pool.append(r)
        # absent targets and children
        pool += [("shape", "type", "shape", "constructor"), ("shape", "type", "shape", "constructor"), ("shape", "type", "shape", None),
                 (model["ma"].name, None, "shape", "interface"), (model["mb"].name, "module", "shape", "type"), (model["ma"].name, None, "shape", "type")]
        pool += [(model["ma"].name, None, "count", "bound"), (model["ma"].name, "module", "area", "final"), ("shape", "type", "side", "modproc"),
                 (model["mb"].name, None, "shape", "bound"), (model["ma"].name, None, "setup", "constructor")]
        # members reached through a type that merely inherits them (a generic binding among them)
        pool += [("square", None, "paint", None), ("square", "type", "paint", "bound"), ("square", "type", "draw", "bound"), ("square", None, "side", "variable"), ("square", "type", "paint", None)]
        pool += [("lone", "type", "lone", "constructor"), ("lone", None, "lone", "constructor"), (model["ma"].name, None, "lone", "constructor")]
        pool += [("nosuchthing", None, None, None), ("nosuchthing", "module", None, None), (model["ma"].name, None, "nosuchchild", None),
                 ("area", "type", None, None), ("shape", "proc", None, None), ("nosuchthing", None, "init", None), ("nosuchthing", "module", "init", "subroutine")]
        chosen = pool if thorough and nrefs is None else rng.sample(pool, min(len(pool), nrefs or 14))
        for r in chosen:
            k[0] += 1
            exp, fallback = lookup(model, ctx, *r)
            code = rng.random() < 0.08
            out.append({"k": k[0], "ref": fmt(r), "expected": sorted(exp), "fallback_to_parent": fallback, "code": code})
            if r[0] == "square" and r[2]:
                out[-1]["through_inheriting_type"] = (r[2], "bound" if r[2] in ("paint", "draw") else "variable")
        return out

    for e in E.values():
        if e.kind in ("module", "type", "proc", "program", "file", "bound", "blockdata") or (e.kind == "variable" and e.parent.kind == "type"):
            e.refs = battery(e, 10 if not thorough else 30)
            sites.append({"kind": "doc:" + e.kind, "ent": e.eid, "refs": e.refs})
    # an explicit `summary:` in an entity's own metadata: its references are the entity's (own contents first), although the text is shown
    # on the parent's page and in the lists; bare names of own contents next to names that exist elsewhere
    for e in E.values():
        if e.kind in ("type", "proc") and e.parent.kind == "module" and rng.random() < 0.6:
            refs = []
            own = [c for c in e.children if c.kind != "arg"]
            names = [(c.name, None) for c in own] + [(c.name, c.sub) for c in own if c.sub in CONTEXT_ABLE] + [("count", None), ("area", None), ("nosuchthing", None)]
            for nm, q in rng.sample(names, min(len(names), 4)):
                k[0] += 1
                exp, fallback = lookup(model, e, nm, q, None, None)
                refs.append({"k": k[0], "ref": fmt((nm, q, None, None)), "expected": sorted(exp), "fallback_to_parent": fallback, "code": False})
            e.summary_refs = refs
            sites.append({"kind": "doc_summary:" + e.kind, "ent": None, "refs": refs})
    for sk in ("project_file", "summary", "page_top", "page_nested"):
        sites.append({"kind": sk, "ent": None, "refs": battery(None, 10 if not thorough else 30)})
    # references to dummy arguments (of a module procedure, of a procedure contained in another one, of a procedure declared in an
    # interface block): whether they become links is left open, but a link must lead to an element that exists
    model["argrefs"] = {}
    for where, texts in (("host", ["[[inner:weight]]", "[[inner:weight(variable)]]", "[[area:radius]]"]), ("inner", ["[[weight]]", "[[inner:weight]]"]),
                         ("module", ["[[host_p:inner]]", "[[extp:arg1]]", "[[area:radius]]", "[[inner:weight]]"])):
        refs = []
        for t in texts:
            k[0] += 1
            refs.append({"k": k[0], "ref": t, "expected": [], "fallback_to_parent": False, "code": False, "either": True,
                         # (host and contained procedure both have a dummy argument `weight`, shown on one page)
                         "must_tracer": "zt900002" if "inner:weight" in t or (where == "inner" and t == "[[weight]]") else None})
        model["argrefs"][where] = refs
        sites.append({"kind": "doc:argument_refs_" + where, "ent": None, "refs": refs})
    return sites


def ref_text(refs):
    parts = []
    for r in refs:
        if r["code"]:
            parts.append(f"zs{r['k']} `{r['ref']}` ze{r['k']}")
        else:
            parts.append(f"zs{r['k']} {r['ref']} ze{r['k']}")
    return " ; ".join(parts)


def render(model, sites):
    E, sx = model["E"], model["sx"]
    by_ent = {s["ent"]: s for s in sites if s["ent"]}

    def doc(e):
        lines = [f"!! {e.tracer} first paragraph"]
        if getattr(e, "summary_refs", None):
            lines.insert(0, "!! summary: " + ref_text(e.summary_refs))
        if e.eid in by_ent:
            # keep the references in the first paragraph so that summaries on parent/list pages show them too
            lines.append("!! " + ref_text(by_ent[e.eid]["refs"]))
        return lines

    files = {}
    for fobj, m in ((model["fa"], model["ma"]), (model["fb"], model["mb"])):
        L = doc(fobj) + [""]
        L += [f"module {m.name}"] + doc(m) + (["!!", "!! " + ref_text(model["argrefs"]["module"])] if (m is model["ma"] and model.get("argrefs")) else []) + ["implicit none"]
        ch = {c.name + ":" + c.kind: c for c in m.children}
        t = ch["shape:type"]
        tc = {c.name: c for c in t.children}
        L += ["type :: shape"] + doc(t) + ["real :: side"] + doc(tc["side"]) + ["contains", f"procedure :: draw => draw_impl_{m.name}"] + doc(tc["draw"]) + (["generic :: paint => draw"] + doc(tc["paint"]) if "paint" in tc else []) + ["end type shape"]
        if "square:type" in ch:
            L += ["type, extends(shape) :: square"] + doc(ch["square:type"]) + ["end type square"]
        if "lone:type" in ch:
            L += ["type :: lone"] + doc(ch["lone:type"]) + ["integer :: only_component", "end type lone"]
        L += ["integer :: count"] + doc(ch["count:variable"])
        L += ["interface shape"] + doc(ch["shape:proc"]) + ["module procedure make_shape", "end interface"]
        if "callback:absint" in ch:
            L += ["abstract interface", "subroutine callback(x)"] + doc(ch["callback:absint"]) + ["real, intent(in) :: x", "end subroutine", "end interface"]
        if m is model["ma"] and model.get("argrefs"):
            L += ["interface", "subroutine extp(arg1)", "!! extp doc", "real :: arg1", "!! arg1 doc", "end subroutine extp", "end interface"]
        L += ["contains"]
        f = ch["area:proc"]
        fc = {c.name: c for c in f.children}
        L += ["function area(radius) result(res)"] + doc(f) + ["real, intent(in) :: radius"] + doc(fc["radius"]) + ["real :: res", "res = radius", "end function area"]
        L += ["function make_shape(s) result(r)"] + doc(ch["make_shape:proc"]) + ["real, intent(in) :: s", "type(shape) :: r", "r%side = s", "end function make_shape"]
        L += [f"subroutine draw_impl_{m.name}(self)", "class(shape), intent(in) :: self", f"end subroutine draw_impl_{m.name}"]
        for nm in ("setup", "only_b"):
            if nm + ":proc" in ch:
                L += [f"subroutine {nm}()"] + doc(ch[nm + ":proc"]) + [f"end subroutine {nm}"]
        if m is model["ma"] and model.get("argrefs"):
            ar = model["argrefs"]
            L += ["subroutine host_p(weight)", "!! host doc " + ref_text(ar["host"]), "real, intent(in) :: weight", "!! zt900001 the host's weight", "contains",
                  "function inner(weight) result(w2)", "!! inner doc " + ref_text(ar["inner"]),
                  "real, intent(in) :: weight", "!! zt900002 the inner weight", "real :: w2", "w2 = weight", "end function inner", "end subroutine host_p"]
        L += [f"end module {m.name}"]
        if m is model["mb"]:
            pg = [e for e in E.values() if e.kind == "program"][0]
            L += [f"program {pg.name}"] + doc(pg) + [f"use {model['ma'].name}", "implicit none", "call setup()", f"end program {pg.name}"]
            xp = [e for e in E.values() if e.kind == "extproc"][0]
            nl_ = xp.children[0]
            L += [f"subroutine {xp.name}()", f"!! {xp.tracer} doc of an external procedure", "integer :: lnlv", f"namelist /{nl_.name}/ lnlv"] + doc(nl_) + [f"end subroutine {xp.name}"]
            bd = [e for e in E.values() if e.kind == "blockdata"][0]
            bt = bd.children[0]
            L += [f"block data {bd.name}"] + doc(bd) + ["type :: bdt", "sequence"] + doc(bt) + ["integer :: bcomp"] + doc(bt.children[0]) + ["end type bdt", "type(bdt) :: bdv", f"common /lcb{sx}/ bdv", f"end block data {bd.name}"]
        files[fobj.name] = "\n".join(L) + "\n"
    if model.get("fx") is not None:
        files[model["fx"].name] = "\n".join(doc(model["fx"]) + ["! plain comment", "some text of another file type"]) + "\n"
    # read last: a module whose variables carry the names that references without context use - nothing may resolve to them
    files[f"zz_last{sx}.f90"] = "\n".join([f"module zz_last{sx}", "!! not a target", "implicit none", "integer :: area, shape, setup, only_b, callback, nosuchthing",
                                           f"integer :: {model['ma'].name}_v, draw, side", "integer :: count", "!! the last documented entity of the project",
                                           f"end module zz_last{sx}"]) + "\n"
    return files


def run_case(item):
    return site.run_in_process(item["root"])


FRAG_RE_TMPL = r"zs{k}\b(.*?)\bze{k}\b"


def case(arg):
    seed, thorough = arg
    model, rng = build_model(seed)
    sites = plan_refs(model, rng, thorough)
    files = render(model, sites)
    E = model["E"]
    base = core.mktemp("vf_c11_")
    try:
        os.makedirs(os.path.join(base, "src"))
        for n, t in files.items():
            open(os.path.join(base, "src", n), "w").write(t)
        sbyk = {s["kind"]: s for s in sites if s["ent"] is None}
        pd = os.path.join(base, "pages")
        os.makedirs(os.path.join(pd, "deep", "deeper"))
        open(os.path.join(pd, "index.md"), "w").write("title: Top\n\n" + ref_text(sbyk["page_top"]["refs"]) + "\n")
        open(os.path.join(pd, "deep", "index.md"), "w").write("title: Deep\n\nnothing\n")
        open(os.path.join(pd, "deep", "deeper", "index.md"), "w").write("title: Deeper\n\n" + ref_text(sbyk["page_nested"]["refs"]) + "\n")
        opts = {"project": f"P{seed}", "src_dir": "./src", "output_dir": "./doc", "page_dir": "./pages", "preprocess": False, "parallel": 0, "graph": False,
                "search": False, "display": ["public", "private", "protected"], "proc_internals": True, "quiet": True,
                "summary": ref_text(sbyk["summary"]["refs"]), "extra_filetypes": "inc !"}
        if seed % 4 == 1:
            opts["project_url"] = "https://example.org/docs"  # where the site will be published: [[references]] stay links between its pages
            opts["search"] = seed % 8 == 1  # (the search index then holds absolute URLs)
        if seed % 5 == 2:
            # the output directory is reached through a symbolic link
            os.makedirs(os.path.join(base, "real_out"))
            os.symlink("real_out", os.path.join(base, "lnk"))
            opts["output_dir"] = "./lnk/doc"
        site.write_project_file(base, opts, body="Front matter. " + ref_text(sbyk["project_file"]["refs"]) + "\n")
        # run from a *different* working directory than the project (links must not depend on the cwd)
        st, r = core.run_alone(run_case, {"root": base}, timeout=300)
        if st != "ok" or r["outcome"] != "ok":
            d = r if st == "ok" else {"harness": st, "detail": str(r)[-700:]}
            return {"viol": [{"kf": {"kind": "ford_run_failed" if st == "ok" else "harness_" + st, "message": str(d.get("error") or d.get("code") or "")[:80]},
                              "w": {"seed": seed, "detail": d, "files": files}}], "nrefs": 0, "nocc": 0, "sitekinds": [], "nontrivial": False, "hash": str(seed), "sample": None}
        out = os.path.join(base, "lnk", "doc") if seed % 5 == 2 else os.path.join(base, "doc")
        raw = {}
        for dp, dn, fn in os.walk(out):
            for f in fn:
                if f.endswith(".html"):
                    rel = os.path.relpath(os.path.join(dp, f), out)
                    txt = open(os.path.join(dp, f), encoding="utf-8", errors="replace").read()
                    txt = re.sub(r'(?s)<div class="hl[^"]*">.*?</div>', "", txt)
                    txt = re.sub(r"(?s)<meta[^>]*>", "", txt)
                    raw[rel] = txt
        from bs4 import BeautifulSoup

        soups = {}

        def soup_of(rel):
            if rel not in soups:
                soups[rel] = BeautifulSoup(raw[rel], "html.parser")
            return soups[rel]

        def tracers_at(page_rel, href):
            """Tracer words of the element a link lands on (resolved from page_rel)."""
            u = href.strip()
            if re.match(r"^[a-zA-Z][a-zA-Z0-9+.-]*:", u) or u.startswith("/"):
                return None, "absolute_or_external"
            path, _, frag = u.partition("#")
            tgt = posixpath.normpath(posixpath.join(posixpath.dirname(page_rel), urllib.parse.unquote(path))) if path else page_rel
            if tgt not in raw:
                return None, "missing_target:" + tgt
            sp = soup_of(tgt)
            if frag:
                el = sp.find(id=frag) or sp.find(id=urllib.parse.unquote(frag))
                if el is None:
                    return None, "missing_fragment"
                node = el
                for _ in range(6):
                    if node.name in ("tr", "li") or (node.name == "div" and "card" in (node.get("class") or [])):
                        break
                    if node.parent is None:
                        break
                    node = node.parent
                return set(re.findall(r"zt\d+", node.get_text(" "))), None
            text = sp.find(id="text")
            head = sp.find("h1")
            # the page documents the entity whose documentation comes first; what follows are its contents (for a type also its constructor)
            words = re.findall(r"zt\d+", (text.get_text(" ") if text else sp.get_text(" ")))
            return set(words[:1]), None

        viol = []
        nocc = 0
        nrefs = 0
        seen = set()
        warnings = " ".join(r["warnings"])
        for s in sites:
            for rf in s["refs"]:
                nrefs += 1
                pat = re.compile(FRAG_RE_TMPL.format(k=rf["k"]), re.S)
                occ = [(rel, m.group(1)) for rel, txt in raw.items() for m in pat.finditer(txt)]
                occ = [(rel, frag) for rel, frag in occ if "hl" not in frag[:0]]
                if not occ:
                    continue
                exp_tr = {E[i].tracer for i in rf["expected"]}
                for rel, frag in occ:
                    if rel.startswith("sourcefile/") and "<span" in frag and "[[" in frag:
                        continue  # raw source listing
                    nocc += 1
                    am = re.search(r"<a\s[^>]*href=[\"']([^\"']*)[\"']", frag)
                    ctxk = s["kind"]
                    kfb = {"site": ctxk, "shown_on": rel.split("/")[0] if "/" in rel else rel, "ref_form": re.sub(r"\w+", "n", rf["ref"]).replace("n(n)", "n(q)")}
                    if rf.get("either"):
                        if am and am.group(1):
                            got, err = tracers_at(rel, am.group(1))
                            if err:
                                kf = {"kind": "link_does_not_resolve_from_page", "why": err.split(":")[0], **kfb}
                                if json.dumps(kf) not in seen:
                                    seen.add(json.dumps(kf))
                                    viol.append({"kf": kf, "w": {"seed": seed, "ref": rf, "page": rel, "href": am.group(1), "error": err}})
                            elif rf.get("must_tracer") and "#" in am.group(1) and rf["must_tracer"] not in got:
                                kf = {"kind": "link_points_to_other_entity", **kfb}
                                if json.dumps(kf) not in seen:
                                    seen.add(json.dumps(kf))
                                    viol.append({"kf": kf, "w": {"seed": seed, "ref": rf, "page": rel, "href": am.group(1), "found_tracers": sorted(got)[:6]}})
                        continue
                    if rf["code"]:
                        if am or "[[" not in frag:
                            kf = {"kind": "reference_in_code_span_rewritten", **kfb}
                            if json.dumps(kf) not in seen:
                                seen.add(json.dumps(kf))
                                viol.append({"kf": kf, "w": {"seed": seed, "ref": rf, "page": rel, "html": frag[:300]}})
                        continue
                    if not rf["expected"]:
                        if am and am.group(1):
                            kf = {"kind": "reference_to_nothing_is_a_link", **kfb}
                            if json.dumps(kf) not in seen:
                                seen.add(json.dumps(kf))
                                viol.append({"kf": kf, "w": {"seed": seed, "ref": rf, "page": rel, "html": frag[:300]}})
                        name = re.match(r"\[\[(\w+(?:\.\w+)?)", rf["ref"]).group(1)
                        if name not in warnings:
                            kf = {"kind": "reference_to_nothing_without_warning", "site": ctxk}
                            if json.dumps(kf) not in seen:
                                seen.add(json.dumps(kf))
                                viol.append({"kf": kf, "w": {"seed": seed, "ref": rf, "warnings": r["warnings"][:5]}})
                        continue
                    if not am and rf["fallback_to_parent"] == "lenient":
                        continue  # ambiguous unqualified name: the item FORD picked first may not have such a child
                    if not am:
                        kf = {"kind": "reference_not_linked", **kfb}
                        if json.dumps(kf) not in seen:
                            seen.add(json.dumps(kf))
                            viol.append({"kf": kf, "w": {"seed": seed, "ref": rf, "page": rel, "html": frag[:300], "expected": [E[i].name for i in rf["expected"]]}})
                        continue
                    got, err = tracers_at(rel, am.group(1))
                    if err:
                        kf = {"kind": "link_does_not_resolve_from_page", "why": err.split(":")[0], **kfb}
                        if json.dumps(kf) not in seen:
                            seen.add(json.dumps(kf))
                            viol.append({"kf": kf, "w": {"seed": seed, "ref": rf, "page": rel, "href": am.group(1), "error": err}})
                        continue
                    if rf.get("through_inheriting_type") and not err:
                        # a member reached through a type that inherits it is shown (without its text) on that type's page: the link has to
                        # land there, on the member's anchor
                        href_ = urllib.parse.unquote(am.group(1))
                        tail, _, fr = href_.partition("#")
                        want_fr = ("boundprocedure-" if rf["through_inheriting_type"][1] == "bound" else "variable-") + rf["through_inheriting_type"][0]
                        if tail.endswith("type/square.html") and re.fullmatch(re.escape(want_fr) + r"(~\d+)?", fr.lower()):
                            continue
                    if not (got & exp_tr):
                        kf = {"kind": "link_points_to_other_entity", **kfb}
                        if json.dumps(kf) not in seen:
                            seen.add(json.dumps(kf))
                            viol.append({"kf": kf, "w": {"seed": seed, "ref": rf, "page": rel, "href": am.group(1), "expected_tracers": sorted(exp_tr),
                                                         "expected_entities": [f"{E[i].parent.name if E[i].parent else ''}/{E[i].name}" for i in rf["expected"]],
                                                         "found_tracers": sorted(got)[:6], "found_entities": [f"{e.parent.name if e.parent else ''}/{e.name}" for e in E.values() if e.tracer in got][:4]}})
        return {"viol": viol, "nrefs": nrefs, "nocc": nocc, "sitekinds": sorted({s["kind"] for s in sites}), "nontrivial": nocc > 20, "hash": core.h(files),
                "sample": {"seed": seed, "example_site": sites[3]["kind"], "example_refs": [(x["ref"], x["expected"]) for x in sites[3]["refs"][:6]], "occurrences_checked": nocc}}
    finally:
        shutil.rmtree(base, ignore_errors=True)


def main():
    run = core.Run(
        PID,
        rule="case = project with two modules that both define type `shape` (component `side`, binding `draw`), function `area` (argument "
        "`radius`), variable `count`, plus unique entities (setup, only_b, abstract interface callback, program, files); reference batteries "
        "(all spellings of every target: qualifiers on/off for both parts, kind synonyms, child part; plus references to nothing and to the wrong "
        "kind; some inside code spans) are placed in the docs of modules, types, components, procedures, program, files, in the project file, in "
        "`summary` and in static pages at depth 0 and 2. Every occurrence on every generated page is checked. Non-trivial: >20 occurrences "
        "checked; distinct by source hash.",
        assumptions=["when several equally named items qualify at the deciding lookup level any of them is accepted (documented as undefined)",
                     "a first-part qualifier that is not a child kind (proc, procedure, module, ...) is only looked up project-wide (documented option lists)",
                     "the target is identified by the tracer word found at the link's destination, so page names with ~N suffixes need not be predicted"],
    )
    rp = core.replay_arg()
    if rp:
        w = json.load(open(rp))["witness"]
        r = case((w["seed"], run.tier == "thorough"))
        known = core.load_known(PID)
        bad = [v for v in r["viol"] if core.match_known(known, v["kf"]) is None]
        print("replay:", "VIOLATION" if bad else "held")
        for v in bad[:10]:
            print(json.dumps({k: x for k, x in v["w"].items() if k != "files"}, default=str)[:600])
        sys.exit(1 if bad else 0)
    thorough = run.tier == "thorough"
    n = 400 if thorough else 60
    args = [(run.seed * 100003 + i, thorough) for i in range(n)]
    results = core.fork_map(case, args, per_case_fork=False, case_timeout=600, total_timeout=3400)
    for a, (st, r) in zip(args, results):
        if st != "ok":
            run.inconc(f"{st}: {str(r)[-300:]}")
            continue
        run.case(key=r["hash"], nontrivial=r["nontrivial"], sample=r["sample"] if r["nontrivial"] else None)
        run.count("references_placed", r["nrefs"])
        run.count("reference_occurrences_checked", r["nocc"])
        for k in r["sitekinds"]:
            run.seen("documentation_sites", k)
        for v in r["viol"]:
            run.violation(v["kf"], v["w"])
    run.max_samples = 2
    run.finish(floors={"evaluations": 50, "distinct_nontrivial": 40, "references_placed": 5000, "reference_occurrences_checked": 5000, "documentation_sites": 9})


if __name__ == "__main__":
    main()
