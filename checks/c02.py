"""C02 - statement and doc extraction depends only on Fortran's lexical rules.

Runtime monitor: the real ford.reader.FortranReader is iterated over generated files (served
through a patched `open` in ford.reader); what it emits is compared with the ground truth the
file was rendered from.  icontract post-conditions on the real helper functions compare them with
an independent scanner (vf.lexer) on every call the workload provokes.
"""
from __future__ import annotations

import io
import re
import itertools
import random
import sys

from vf import core, lexer

ford = core.setup_env()
import icontract  # noqa: E402
import ford.reader  # noqa: E402
import ford.utils  # noqa: E402

PID = "C02"

# ---------------------------------------------------------------------------------------------
# alphabet

CODE = ["x = 1", "call f(a)", "b", "print *,", "if (p) q = r"]
LITS = [
    "'s'", "''", '""', "'it''s'", '"q""q"', "'a!b'", '"a!!b"', "'a;b'", "'a&b'", "'&'",
    "'a\"b'", "\"a'b\"", "'end program'", "' ! x'", "''''", "'a  b'",
    # runs of semicolons, and characters that str.splitlines() (but not line-wise reading of a file) treats as line ends
    "'\\'", '"c:\\d\\"', "'\\\\h\\'",  # a backslash is an ordinary character, also right before the closing quote
    "';;'", '"a; ;b"', "'he\x0cad'", '"u\u2028v"', "'n\x85l'", "'v\x0bt\x1cf'",
]
# literals continued across lines in the standard form (& at the end, & at the start); logical
# value is the concatenation
BROKEN = [
    ("'ab&\n      &cd'", "'abcd'"),
    ("\"a!b&\n  &c;d\"", "\"a!bc;d\""),
    ("'ab&\n! c between\n   &cd'", "'abcd'"),
    ("'a''&\n&''b'", "'a''''b'"),
    ("'ab &\n\n& cd'", "'ab  cd'"),
    # `&` followed by `!` inside the literal itself, or inside an earlier literal of the line, is text
    ("'wait & ! rea&\n&lly'", "'wait & ! really'"),
    ("'x&!y' // 'ab&\n   &cd'", "'x&!y' // 'abcd'"),
    # comment lines between the pieces that do not start in column 1, or that end in `&`
    ("'ab&\n   ! c indented\n   &cd'", "'abcd'"),
    ("'ab&\n\t! c after tab &\n&cd'", "'abcd'"),
    # the literal's own text ends in `&` exactly where it is split: only the last `&` is the continuation mark
    ("'R&&\n   &D'", "'R&D'"),
    ("\"a&&&\n&b\"", "\"a&&b\""),
    ("'ab&\n&x ! y'", "'abx ! y'"),
]

# separators that keep the statement going: (name, text, glue)
CONT = [
    ("sp", " ", " "),
    ("cont", " &\n    ", " "),
    ("cont_amp", " &\n   & ", " "),
    ("cont_exact", "&\n&", ""),
    ("cont_com", " & ! c k\n  ", " "),
    ("cont_comline", " &\n ! c line\n  ", " "),
    ("cont_blank", " &\n\n  ", " "),
    ("cont_amp_comline", " &\n  ! c line\n & ", " "),
    ("cont_onlyamp", " &\n &\n  & ", " "),
    ("cont_com_tricky", " & ! it's !! no doc ; & \n  ", " "),
    ("cont_comline_tricky", " &\n ! say \"hi !> not pre\n  ", " "),
    # an ordinary comment whose text starts with `$` and a blank, or is `$` alone (no directive sentinel: a comment like any other)
    ("cont_comline_dollar", " &\n !$ c line\n  ", " "),
    ("cont_comline_dollar_only", " &\n!$\n  ", " "),
]
# separators that end the statement: (name, text, items emitted after the logical line,
#   items emitted before next statement's logical line closes (predocs))
END = [
    ("nl", "\n", [], []),
    ("semi", " ; ", None, None),  # same logical line
    ("semi_tight", ";", None, None),
    ("nl_com", " ! c t\n", [], []),
    ("nl_doc", " !! d in\n", ["!! d in"], []),
    ("nl_blank", "\n\n", [], []),
    ("nl_comline", "\n  ! c own\n", [], []),
    ("nl_docline", "\n  !! d own\n", ["!! d own"], []),
    ("nl_docline2", "\n!! d1\n!! d2\n", ["!! d1", "!! d2"], []),
    ("nl_predoc", "\n  !> p re\n", [], ["!! p re"]),
    ("nl_doc_predoc", " !! d in\n!> p re\n", ["!! d in"], ["!! p re"]),
    ("nl_com_tricky", " ! old: !! was doc ; 'q & \n", [], []),
    ("nl_comline_tricky", "\n ! don't !> p ; \"\n", [], []),
    ("nl_doc_tricky", " !! d \"q ! z ; it's &\n", ["!! d \"q ! z ; it's &"], []),
    ("nl_doc_formfeed", " !! d\x0cf g\u2028h\n", ["!! d\x0cf g\u2028h"], []),
    # doc comments of the other three forms whose text shows the introducing character pair again (only the first is a marker)
    ("nl_predoc_pair_again", "\n  !> p `a!>b` !> c\n", [], ["!! p `a!>b` !> c"]),
    ("nl_altdoc_pair_again", "\n  !* a `q!*r` lt\n  ! m ore\n\n", ["!! a `q!*r` lt", "!! m ore"], []),
    ("nl_prealtdoc_pair_again", "\n  !| b 'x!|y' !| z\n  ! n ext\n", [], ["!! b 'x!|y' !| z", "!! n ext"]),
    # a separator with nothing behind it (end of the logical line), and logical lines that hold nothing but separators
    ("semi_then_nl", ";\n", [], []),
    ("semi_then_comment", " ; ! c t\n", [], []),
    ("semi_then_doc", "; !! d in\n", ["!! d in"], []),
    ("nl_semi_alone", "\n;\n", [], []),
    ("nl_semis_and_comment", "\n  ; ; ! c own\n", [], []),
    ("nl_semi_cont_semi", "\n ; &\n ;\n", [], []),
    ("nl_com_linesep", " ! c\u2028 zz = 9 \x0c yy = 8\n", [], []),
    ("nl_comline_dollar", "\n  !$ c own = 3\n", [], []),
    ("nl_comline_dollar_only", "\n!$\n", [], []),
]
# a continuation line with a trailing comment whose text, as a whole line, also occurs as the second line of a continued literal
# (BROKEN): what a line means depends on where it stands, never on its text alone
TAILCOM = [("b &\n&x ! y'", "b x")]
FINAL = [("", []), (" ! c fin", []), (" !! d fin", ["!! d fin"]), ("\n", []), ("\n\n! c\n", []),
         # a preceding-doc block that nothing follows documents nothing (and must not reach whatever is read next in this process)
         ("\n!> p dangling\n", []), ("\n  !| q dangling\n  ! r more\n", [])]


def render(tokens, seps, final):
    """tokens: list of (physical, logical); seps: list of separator tuples (CONT or END entries);
    returns (file text, expected list of ('s', text) / ('d', text))."""
    text = []
    expected = []
    line_frags = []  # statements of the current logical line
    cur = ""
    predocs = []  # to be emitted after current logical line
    nextpre = []
    for i, (phys, logical) in enumerate(tokens):
        text.append(phys)
        cur += logical
        if i == len(tokens) - 1:
            break
        sep = seps[i]
        text.append(sep[1])
        if len(sep) == 3:  # continuation
            cur += sep[2]
            continue
        if sep[2] is None:  # semicolon
            line_frags.append(cur)
            cur = ""
            continue
        line_frags.append(cur)
        cur = ""
        for f in line_frags:
            expected.append(("s", f))
        for d in predocs:
            expected.append(("d", d))
        for d in sep[2]:
            expected.append(("d", d))
        predocs = list(sep[3])
        line_frags = []
    text.append(final[0])
    line_frags.append(cur)
    for f in line_frags:
        expected.append(("s", f))
    for d in predocs:
        expected.append(("d", d))
    for d in final[1]:
        expected.append(("d", d))
    return "".join(text), expected


EXPLICIT_EMPTY_DOC_RE = re.compile(r"(?m)!(?:!|>|\*|\|)[ \t]*$")


def canon_expected(expected):
    out = []
    for k, t in expected:
        if k == "s":
            n = lexer.normalise(t)
            if n:
                out.append(("s", n))
        else:
            if t.strip() != "!!":
                out.append(("d", t.rstrip()))
    return out


def canon_observed(lines):
    out = []
    for t in lines:
        if t.startswith("!!"):
            if t.strip() != "!!":
                out.append(("d", t.rstrip()))
        elif lexer.normalise(t):  # (empty statements - between, before or after `;` - are nothing)
            out.append(("s", lexer.normalise(t)))
    return out


# ---------------------------------------------------------------------------------------------
# instrumentation: contracts on the real helpers + file serving

MON = {"unterminated_evals": 0, "quote_split_evals": 0, "contract_viol": []}


def _post_unterminated(string, result):
    MON["unterminated_evals"] += 1
    ref = lexer.in_literal(string)
    want = ref is not None
    if bool(result) != want or (isinstance(result, str) and result != ref):
        if len(MON["contract_viol"]) < 50:
            MON["contract_viol"].append(("_contains_unterminated_string", string, result, want))
    return True


def _post_quote_split(sep, string, result):
    MON["quote_split_evals"] += 1
    want = lexer.split_outside(string, sep)
    if list(result) != want:
        if len(MON["contract_viol"]) < 50:
            MON["contract_viol"].append(("quote_split", string, list(result), want))
    return True


class ContractBroken(Exception):
    pass


def install():
    # the reader's quote tracker (name differs before/after the fix commits; wrap what exists)
    for name in ("_contains_unterminated_string", "_unterminated_quote"):
        f = getattr(ford.reader, name, None)
        if f is not None:
            setattr(ford.reader, name, icontract.ensure(_post_unterminated, error=ContractBroken)(f))
    g = ford.utils.quote_split
    wrapped = icontract.ensure(_post_quote_split, error=ContractBroken)(g)
    ford.utils.quote_split = wrapped  # reader calls ford.utils.quote_split by attribute

    files = {}

    def fake_open(name, mode="r", *a, **k):
        if name in files:
            return io.StringIO(files[name])
        return open(name, mode, *a, **k)

    ford.reader.open = fake_open
    return files


FILES = None


def read_with_ford(text):
    FILES["/virtual/case.f90"] = text
    rd = ford.reader.FortranReader(
        "/virtual/case.f90", docmark="!", predocmark=">", docmark_alt="*", predocmark_alt="|"
    )
    return list(rd)


# ---------------------------------------------------------------------------------------------
# classification of a mismatch (mechanism keys for known findings)


def classify(text, expected, observed, err):
    """Mechanism fields, computed from the *input* (not from FORD's answer):
    - line_starts_in_literal_with_trailing: a physical line begins inside a continued literal and
      carries a `!` comment / doc after the literal closes
    - doubled_or_empty_quote_before_continuation: the accumulated statement text before some
      continuation line contains '' / "" (empty literal or doubled delimiter)
    """
    lines = text.split("\n")
    state = None
    starts_in_lit_trailing = False
    dq_before_cont = False
    acc = ""
    for ln in lines:
        stripped = ln.strip()
        if state is not None:
            # line begins inside a literal
            marks, st2 = lexer.scan(ln.lstrip()[1:] if ln.lstrip().startswith("&") else ln, state)
            cpos = -1
            for i, c, lit in marks:
                if c == "!" and not lit:
                    cpos = i
                    break
            if cpos >= 0:
                starts_in_lit_trailing = True
        if acc and ("''" in acc or '""' in acc) and stripped:
            dq_before_cont = True
        # advance
        body = ln
        cs = lexer.comment_start(body, state)
        if cs >= 0:
            body = body[:cs]
        _, state = lexer.scan(body, state)
        b = body.strip()
        if b.endswith("&"):
            acc += b[:-1]
        elif b:
            acc = ""
    return {
        "line_starts_in_literal_with_trailing_comment": starts_in_lit_trailing,
        "doubled_or_empty_quote_before_continuation": dq_before_cont,
        "error": (err or "").split(":")[0][:40] if err else "",
    }


def run_case(text, expected):
    want = canon_expected(expected)
    err = None
    try:
        got_raw = read_with_ford(text)
        got = canon_observed(got_raw)
    except Exception as e:  # the reader must accept every generated (valid) layout
        err = f"{type(e).__name__}: {e}"
        got_raw = []
        got = None
    if got == want:
        # an empty documentation line that the source does not contain is only ever produced for a blank line that follows documentation:
        # it never directly follows a statement (it would become that statement's documentation)
        if got_raw and not EXPLICIT_EMPTY_DOC_RE.search(text):
            for a, b in zip(got_raw, got_raw[1:]):
                if b.strip() == "!!" and not a.startswith("!!"):
                    kf = classify(text, want, got, None)
                    kf["error"] = "empty_doc_line_attached_to_statement"
                    return {"kf": kf, "witness": {"file": text, "expected": want, "observed": got, "observed_raw": got_raw, "error": None}}
        return None
    return {
        "kf": classify(text, want, got, err),
        "witness": {"file": text, "expected": want, "observed": got, "observed_raw": got_raw, "error": err},
    }


# ---------------------------------------------------------------------------------------------
# workloads


def token_alphabet():
    toks = [(c, c) for c in CODE] + [(l, l) for l in LITS] + list(BROKEN) + list(TAILCOM)
    return toks


def gen_exhaustive(maxlen, tok_subset, cont_subset, end_subset, finals):
    for n in range(1, maxlen + 1):
        for toks in itertools.product(tok_subset, repeat=n):
            for seps in itertools.product(cont_subset + end_subset, repeat=n - 1):
                for fin in finals:
                    yield toks, seps, fin


def valid_case(toks, seps, fin=None):
    for i, t in enumerate(toks):
        if t in TAILCOM:
            # the token ends in a comment: the line has to end there
            if i < len(seps) and not (len(seps[i]) == 4 and seps[i][1].startswith("\n")):
                return False
            if i == len(toks) - 1 and fin is not None and fin[0] not in ("", "\n", "\n\n! c\n"):
                return False
    # exact join between two tokens may create a different token sequence (e.g. 's''s' -> doubled
    # quote); only allow exact joins where at least one side is code without quotes at the joint
    for i, s in enumerate(seps):
        if s[0] == "cont_exact":
            a = toks[i][1]
            b = toks[i + 1][1]
            if a[-1] in "'\"" and b[0] in "'\"":
                return False
    # a statement must not start with something the reader treats specially
    return True


def features(toks, seps, fin):
    f = set()
    for p, l in toks:
        if "\n" in p:
            f.add("broken_literal")
        elif l[0] in "'\"":
            f.add("literal")
    for s in seps:
        if len(s) == 3 and s[0] != "sp":
            f.add("continuation")
    return f


def worker(chunk):
    """Run a chunk of cases in one process; return aggregated results."""
    global FILES
    if FILES is None:
        FILES = install()
    res = {"n": 0, "viol": [], "keys": set(), "feat": {}, "tuples": set(), "sample": None}
    for toks, seps, fin in chunk:
        text, expected = render(toks, seps, fin)
        res["n"] += 1
        feats = features(toks, seps, fin)
        if feats:
            res["keys"].add(core.h(text))
        for f in feats:
            res["feat"][f] = res["feat"].get(f, 0) + 1
        for i, s in enumerate(seps):
            kind = "code"
            t = toks[i]
            if "\n" in t[0]:
                kind = "broken_literal"
            elif t[1][0] in "'\"":
                kind = "literal:" + ("empty" if t[1] in ("''", '""') else "doubled" if (t[1][1:-1].count(t[1][0]) > 0) else "bang" if "!" in t[1] else "semi" if ";" in t[1] else "amp" if "&" in t[1] else "plain")
            res["tuples"].add((kind, s[0]))
        v = run_case(text, expected)
        if v is not None and len(res["viol"]) < 400:
            res["viol"].append(v)
        elif v is not None:
            res["viol_overflow"] = res.get("viol_overflow", 0) + 1
        if res["sample"] is None and "continuation" in feats and "literal" in feats:
            res["sample"] = {"file": text, "expected": canon_expected(expected)}
    res["mon"] = {k: (v if not isinstance(v, list) else v[:20]) for k, v in MON.items()}
    return res


def gen_random(rng, n, toks):
    for _ in range(n):
        k = rng.randint(4, 14)
        long_line = rng.random() < 0.1
        if long_line:
            k = rng.randint(16, 30)  # many statements on one physical line, far beyond column 132
        ts = [rng.choice(toks) for _ in range(k)]
        ss = []
        semis = [e for e in END if e[0] in ("semi", "semi_tight")]
        for i in range(k - 1):
            if long_line:
                ss.append(rng.choice(semis) if rng.random() < 0.8 else CONT[0])
                continue
            ss.append(rng.choice(CONT) if rng.random() < 0.55 else rng.choice(END))
        fin = rng.choice(FINAL)
        if valid_case(ts, ss, fin):
            yield tuple(ts), tuple(ss), fin


def chunks(it, size):
    buf = []
    for x in it:
        buf.append(x)
        if len(buf) >= size:
            yield buf
            buf = []
    if buf:
        yield buf


def main():
    run = core.Run(
        PID,
        rule="case = token sequence over {code fragments, 16 literal kinds, 9 literals continued across lines} "
        "x separator per gap from {9 continuation forms, 25 statement-ending forms incl. ;, trailing !/!! comments, doc comments of all four forms (also repeating their introducing character pair in the text), "
        "own-line comment/doc/pre-doc lines, blank lines} x 5 file endings; exhaustive up to the stated length, then "
        "seeded random long sequences. Non-trivial: contains a literal or a continuation; distinct by file text.",
        assumptions=[
            "ground truth is the token sequence the file was rendered from; blanks outside literals are "
            "normalised to one, empty doc lines ('!!' alone) are ignored on both sides",
            "only standard continuation forms are generated (inside a literal: & at line end and & at line start)",
            "docmark/predocmark are the project defaults (! and >); preprocessor lines and include are not generated",
        ],
    )
    rp = core.replay_arg()
    global FILES
    if rp:
        import json

        FILES = install()
        w = json.load(open(rp))["witness"]
        v = run_case(w["file"], [tuple(x) for x in w["expected"]])
        print("replay:", "VIOLATION" if v else "held")
        if v:
            print(json.dumps(v, indent=1))
        sys.exit(1 if v else 0)

    toks = token_alphabet()
    rng = random.Random(run.seed * 7919 + 11)
    thorough = run.tier == "thorough"
    # exhaustive part: length <= 2 over the full alphabet with all separators and endings,
    # length 3 over a reduced alphabet (quick) / larger alphabet (thorough)
    small_toks = [toks[0], toks[2]] + [(l, l) for l in ["'s'", "''", "'it''s'", "'a!b'", "'a;b'", "'&'", "\"a'b\""]] + BROKEN[:2]
    small_cont = [c for c in CONT if c[0] in ("sp", "cont", "cont_amp", "cont_com", "cont_comline")]
    small_end = [e for e in END if e[0] in ("nl", "semi", "nl_com", "nl_doc", "nl_predoc")]
    ex = []
    ex.append(gen_exhaustive(2, toks, CONT, END, FINAL))
    ex.append((c for c in gen_exhaustive(3, small_toks, small_cont, small_end, FINAL[:3]) if len(c[0]) == 3))
    if thorough:
        mid_toks = small_toks + [(l, l) for l in ['""', '"q""q"', "'a&b'", "''''"]] + BROKEN[2:4]
        ex.append((c for c in gen_exhaustive(3, mid_toks, CONT, END, FINAL[:3]) if len(c[0]) == 3))
        ex.append((c for c in gen_exhaustive(4, small_toks[:8], small_cont[:4], small_end[:4], FINAL[:2]) if len(c[0]) == 4))
    nrandom = 60000 if thorough else 6000
    allcases = itertools.chain(
        (c for c in itertools.chain(*ex) if valid_case(c[0], c[1], c[2])),
        gen_random(rng, nrandom, toks),
    )
    work = list(chunks(allcases, 4000))
    results = core.fork_map(worker, work, per_case_fork=False, case_timeout=600, total_timeout=3000)
    exhaustive_ok = True
    for st, r in results:
        if st != "ok":
            run.inconc(f"worker {st}: {str(r)[:200]}")
            exhaustive_ok = False
            continue
        run.evaluations += r["n"]
        run.nontrivial |= r["keys"]
        for f, n in r["feat"].items():
            run.count("cases_with_" + f, n)
        for t in r["tuples"]:
            run.seen("token_kind_x_separator", t)
        run.count("contract_evals__contains_unterminated_string", r["mon"]["unterminated_evals"])
        run.count("contract_evals_quote_split", r["mon"]["quote_split_evals"])
        for v in r["viol"]:
            run.violation(v["kf"], v["witness"])
        run.count("violations_not_kept_in_memory", r.get("viol_overflow", 0))
        for cv in r["mon"]["contract_viol"]:
            fn, s, got, want = cv
            kf = {"contract": fn,
                  "doubled_or_empty_quote_before_continuation": ("''" in s or '""' in s),
                  "line_starts_in_literal_with_trailing_comment": False, "error": ""}
            run.violation(kf, {"contract": fn, "input": s, "ford": got, "reference": want})
        if r["sample"] and len(run.samples) < 3:
            run.samples.append(r["sample"])
    run.extra["exhaustive"] = False
    run.extra["exhaustive_parts"] = (
        "all sequences of <=2 tokens over the full alphabet x all separators x all endings; all 3-token sequences over a "
        "reduced alphabet" + ("; 3-token sequences over the medium alphabet with all separators; 4-token sequences over a small alphabet" if thorough else "")
    ) if exhaustive_ok else "incomplete"
    if run.tier == "thorough":
        # one more workload for the contracts: the repository's own test-suite (hand-written inputs)
        from vf import repo_tests

        repo_tests.attach(run, PID)
    run.finish(floors={
        "evaluations": 20000,
        "distinct_nontrivial": 10000,
        "contract_evals__contains_unterminated_string": 20000,
        "contract_evals_quote_split": 20000,
        "token_kind_x_separator": 80,
    })


if __name__ == "__main__":
    main()
