"""C03 - each doc comment lands on its entity, complete, once and in order.

Runtime monitor:
 (project cases) generated programs whose every documented entity carries a comment made of globally
   unique tracer words (body grammar: paragraphs, lists, code blocks, note boxes of every kind and
   ending; optional leading metadata) are laid out with each marker style (after / inline / pre / alt /
   pre-alt / mixed), default or alternative marker characters, ordinary comments (`zn` words) and blank
   lines in between; the real FORD parses, correlates and converts the docs; per entity the tracer
   words of doc_list, of the rendered HTML and of meta are compared with the model.
 (body cases) documentation bodies go straight through the real MetaMarkdown.convert.
 An icontract post-condition on AdmonitionPreprocessor.run checks word conservation and order.
"""
from __future__ import annotations

import json
import os
import random
import re
import shutil
import sys

from vf import core

ford = core.setup_env()
import icontract  # noqa: E402
from vf import docgrammar, fgen, genmodels, layout, observe  # noqa: E402

PID = "C03"
META_KEYS = ("author", "version", "date", "since", "category", "license", "summary")

MON = {"admon_evals": 0, "admon_viol": []}


class ContractBroken(Exception):
    pass


MARKER_RE = re.compile(r"@(?:end)?(?:note|warning|todo|bug|history)\b", re.I)  # a box marker shown as text


def _snap_seq(lines):
    return docgrammar.tracer_seq(list(lines))


def _post_admon(lines, result, OLD):
    MON["admon_evals"] += 1
    got = docgrammar.tracer_seq(list(result))
    if got != OLD.seq and len(MON["admon_viol"]) < 30:
        MON["admon_viol"].append({"input_words": OLD.seq, "output_words": got, "input": OLD.raw[:30], "output": list(result)[:30]})
    return True


def _snap_raw(lines):
    return list(lines)


def install_contract():
    import ford.md_admonition as ma

    f = ma.AdmonitionPreprocessor.run
    if getattr(f, "_vf_contract", False):
        return  # already attached in this process (a worker handles several chunks)
    g = icontract.snapshot(_snap_seq, name="seq")(icontract.snapshot(_snap_raw, name="raw")(icontract.ensure(_post_admon, error=ContractBroken)(f)))
    g._vf_contract = True
    ma.AdmonitionPreprocessor.run = g


def split_expected(tokens):
    """Expected (meta dict, body tracer sequence) from the whitespace tokens of the model's doc lines."""
    meta = {}
    i = 0
    toks = list(tokens)
    while i + 1 < len(toks) and toks[i].endswith(":") and toks[i][:-1].lower() in META_KEYS and toks[i + 1].startswith("zm"):
        meta[toks[i][:-1].lower()] = toks[i + 1]
        i += 2
    body = [t for t in docgrammar.tracer_seq(" ".join(toks[i:])) if t.startswith("zq")]
    return meta, body


def note_mechanism(doc_lines):
    """Input-derived features of a documentation body (for known-finding keys)."""
    feats = set()
    for l in doc_lines:
        m = re.search(r"@(note|warning|todo|bug|history)\b", l, re.I)
        if m and not re.search(r"@end", l[: m.start() + 4], re.I) and l[: m.start()].strip():
            feats.add("text_before_note_marker_on_same_line")
    return sorted(feats)


def observe_project(item):
    install_contract()
    from ford._markdown import MetaMarkdown

    cap = observe.Captured()
    try:
        project, cap = observe.parse_and_correlate([item["root"]], settings_kw=item["settings"], cap=cap)
        md = MetaMarkdown(project.settings.md_base_dir, project=project)
        import io
        import contextlib

        with contextlib.redirect_stdout(io.StringIO()):
            project.markdown(md)
        table = observe.tree(project)
    except BaseException as e:
        import traceback

        return {"error": f"{type(e).__name__}: {str(e)[:300]}", "tb": traceback.format_exc()[-1500:], "mon": dict(MON)}
    out = {}
    for path, rec in table.items():
        d = rec.get("doc")
        ent = getattr(d, "ent", None)
        if ent is None:
            continue
        htmltext = docgrammar.html_text(getattr(ent, "doc", "") or "")
        meta = {}
        m = getattr(ent, "meta", None)
        for k in META_KEYS:
            v = getattr(m, k, None) if m is not None else None
            if v and k == "summary":
                # (rendered: compare the tracer; an entity without `summary:` gets its first paragraph here, which has no zm word)
                zm = re.findall(r"zm\w+", docgrammar.html_text(str(v)))
                if zm:
                    meta[k] = " ".join(zm)
            elif v:
                meta[k] = v if isinstance(v, str) else str(v)
        out[path] = {"list": docgrammar.tracer_seq(list(ent.doc_list)), "html": docgrammar.tracer_seq(htmltext), "meta": meta,
                     "zn_in_doc": bool(re.search(r"\bzn\d", " ".join(ent.doc_list) + " " + htmltext)), "raw": list(ent.doc_list)[:40],
                     "marker_leak": MARKER_RE.findall(htmltext)[:3], "marktoks": docgrammar.MARKTOK_RE.findall("\n".join(ent.doc_list))}
    diags = [w for w in cap.warnings if "Error parsing" in w] + [l for l in cap.stdout.splitlines() if l.startswith("ERROR in file")]
    return {"docs": out, "diags": diags[:5], "mon": dict(MON), "warnings": [w for w in cap.warnings if "metadata" in w][:5]}


def observe_members(item):
    """Second run with the default display (private entities hidden): the documentation of variables that are still shown
    as members of namelist groups must be rendered all the same."""
    from ford._markdown import MetaMarkdown
    import contextlib
    import io

    cap = observe.Captured()
    try:
        project, cap = observe.parse_and_correlate([item["root"]], settings_kw=item["settings"], cap=cap)
        md = MetaMarkdown(project.settings.md_base_dir, project=project)
        with contextlib.redirect_stdout(io.StringIO()):
            project.markdown(md)
    except BaseException as e:  # noqa: BLE001
        return {"error": f"{type(e).__name__}: {str(e)[:300]}"}
    out = {}
    for nl in getattr(project, "namelists", []):
        for v in nl.variables:
            if isinstance(v, str):
                continue
            out[v.name.lower()] = {"has_doc": hasattr(v, "doc"), "html": docgrammar.tracer_seq(docgrammar.html_text(getattr(v, "doc", "") or "")),
                                   "permission": getattr(v, "permission", None), "namelist": nl.name}
    return {"members": out}


def case_project(arg):
    seed, docstyle, marks = arg
    ctxs = []
    files = genmodels.gen_project(seed, docs=True, nfiles=random.Random(seed).randint(1, 2), rich_docs=True, ctx_out=ctxs)
    expected = {}
    for f in files:
        expected.update(fgen.expect_file(f, f"{f.name}.f90"))
    base = core.mktemp("vf_c03_")
    texts = {}
    try:
        root = os.path.join(base, "src")
        os.makedirs(root)
        lay = layout.Layout(seed, plain=False, docstyle=docstyle, cont_p=0.1, comment_p=0.25, semi_p=0.0, **marks)
        for f in files:
            stmts = fgen.render_file(f, fgen.Style(seed + 1))
            # sometimes a run of declarations lives in an INCLUDEd file (same marker style there)
            irng = random.Random(seed * 3 + len(texts))
            runs = [i for i in range(1, len(stmts) - 1) if all(x.kind == "code" and not x.label for x in stmts[i:i + 2])]
            inc = None
            if runs and irng.random() < 0.3:
                i = irng.choice(runs)
                j = i + 2
                while j < len(stmts) and j - i < 4 and stmts[j].kind == "code" and not stmts[j].label and irng.random() < 0.5:
                    j += 1
                inc = (f"inc_{f.name}.inc", stmts[i:j], f"vfincmark{seed % 1000}=0")
                stmts = stmts[:i] + [fgen.Stmt(inc[2])] + stmts[j:]
            text = lay.free(stmts)
            if inc:
                text = text.replace(inc[2], f"include '{inc[0]}'")
                inc_text = lay.free(inc[1])
                open(os.path.join(root, inc[0]), "w").write(inc_text)
                texts[inc[0]] = inc_text
            texts[f.name] = text
            open(os.path.join(root, f.name + ".f90"), "w").write(text)
        settings = {k: v for k, v in marks.items()}
        st, r = core.run_alone(observe_project, {"root": root, "settings": settings}, timeout=180)
        st2, r2 = core.run_alone(observe_members, {"root": root, "settings": {**settings, "display": ["public", "protected"]}}, timeout=180) if seed % 2 == 0 else ("skip", None)
    finally:
        shutil.rmtree(base, ignore_errors=True)
    kfb = {"docstyle": docstyle, "default_markers": marks == {}, "include_file": any(k.endswith(".inc") for k in texts)}
    if st != "ok" or "error" in (r or {}):
        msg = (r or {}).get("error", str(r)) if st == "ok" else str(r)
        return {"viol": [{"kf": {"kind": "ford_failed" if st == "ok" else "harness_" + st, "error": msg[:50], **kfb}, "w": {"detail": str(r)[-1500:], "seed": seed, "files": texts, "arg": list(arg[:2]) + [marks]}}],
                "n": 0, "feats": [], "mon": {}, "nontrivial": False, "hash": core.h(texts), "sample": None}
    viol = []
    if r["diags"]:
        viol.append({"kf": {"kind": "diagnostic_on_valid_input", **kfb}, "w": {"diags": r["diags"], "files": texts, "seed": seed, "arg": list(arg[:2]) + [marks]}})
    n = 0
    owner = {}
    for path, rec in expected.items():
        if "doc" not in rec:
            continue
        emeta, ebody = split_expected(rec["doc"])
        for wd in ebody:
            owner.setdefault(wd, path)
        got = r["docs"].get(path)
        if got is None:
            if ebody:
                viol.append({"kf": {"kind": "documented_entity_missing", **kfb}, "w": {"path": path, "seed": seed, "files": texts, "arg": list(arg[:2]) + [marks]}})
            continue
        n += 1
        olist = [w for w in got["list"] if w.startswith("zq")]
        ohtml = [w for w in got["html"] if w.startswith("zq")]
        kind = path.rsplit("/", 1)[-1].split(":")[0]
        if olist != ebody:
            foreign = [w for w in olist if w not in ebody]
            how = "foreign_words" if foreign else ("missing_words" if len(olist) < len(ebody) else "order_or_duplicates")
            viol.append({"kf": {"kind": "doc_list_mismatch", "how": how, "entity": kind, **kfb},
                         "w": {"path": path, "expected": ebody, "observed": olist, "foreign_from": sorted({owner.get(w, "?") for w in foreign})[:3],
                               "seed": seed, "files": texts, "arg": list(arg[:2]) + [marks]}})
        elif ohtml != ebody:
            foreign = [w for w in ohtml if w not in ebody]
            how = "foreign_words" if foreign else ("missing_words" if len(ohtml) < len(ebody) else "order_or_duplicates")
            viol.append({"kf": {"kind": "rendered_doc_mismatch", "how": how, "body_features": note_mechanism(got["raw"]), **kfb},
                         "w": {"path": path, "expected": ebody, "observed": ohtml, "doc_list": got["raw"], "seed": seed, "arg": list(arg[:2]) + [marks]}})
        if got["meta"] != emeta or any(w.startswith("zm") for w in got["html"]):
            viol.append({"kf": {"kind": "metadata_mismatch", "entity": kind, **kfb},
                         "w": {"path": path, "expected": emeta, "observed": got["meta"], "shown_in_body": [w for w in got["html"] if w.startswith("zm")], "doc_list": got["raw"], "seed": seed, "files": texts, "arg": list(arg[:2]) + [marks]}})
        emarks = docgrammar.MARKTOK_RE.findall(" ".join(rec["doc"]))
        if sorted(got.get("marktoks", [])) != sorted(emarks):
            viol.append({"kf": {"kind": "doc_text_not_verbatim", "what": "text that looks like a marker pair", **kfb},
                         "w": {"path": path, "expected": emarks, "observed": got.get("marktoks"), "doc_list": got["raw"], "seed": seed, "arg": list(arg[:2]) + [marks]}})
        if got.get("marker_leak"):
            viol.append({"kf": {"kind": "note_marker_shown_as_text", "body_features": note_mechanism(got["raw"]), **kfb},
                         "w": {"path": path, "markers": got["marker_leak"], "doc_list": got["raw"], "seed": seed, "arg": list(arg[:2]) + [marks]}})
        if got["zn_in_doc"]:
            viol.append({"kf": {"kind": "ordinary_comment_in_doc", "entity": kind, **kfb}, "w": {"path": path, "doc_list": got["raw"], "seed": seed, "files": texts, "arg": list(arg[:2]) + [marks]}})
    # documentation attached to entities that have none in the model
    for path, got in r["docs"].items():
        if path not in expected and [w for w in got["list"] if w.startswith("zq")]:
            viol.append({"kf": {"kind": "doc_on_unexpected_entity", **kfb}, "w": {"path": path, "observed": got["list"], "seed": seed, "files": texts, "arg": list(arg[:2]) + [marks]}})
    for cv in r["mon"].get("admon_viol", [])[:5]:
        viol.append({"kf": {"kind": "admonition_preprocessor_word_conservation", "body_features": note_mechanism(cv["input"])},
                     "w": {**cv, "seed": seed, "arg": list(arg[:2]) + [marks]}})
    nmem = 0
    if st2 == "ok" and "members" in (r2 or {}):
        byname = {}
        for path, rec in expected.items():
            if "doc" in rec and path.rsplit("/", 1)[-1].split(":")[0] in ("variable", "arg"):
                byname.setdefault(path.rsplit(":", 1)[-1], split_expected(rec["doc"])[1])
        for name, got in r2["members"].items():
            ebody = byname.get(name)
            if ebody is None:
                continue
            nmem += 1
            ohtml = [w for w in got["html"] if w.startswith("zq")]
            if ohtml != ebody:
                viol.append({"kf": {"kind": "namelist_member_doc_not_rendered", "member_hidden_by_display": got["permission"] == "private", "has_doc_attribute": got["has_doc"], **kfb},
                             "w": {"member": name, "namelist": got["namelist"], "expected": ebody, "observed": ohtml, "seed": seed, "files": texts, "arg": list(arg[:2]) + [marks]}})
    elif st2 not in ("skip", "ok") or (r2 or {}).get("error"):
        viol.append({"kf": {"kind": "ford_failed_with_default_display", **kfb}, "w": {"detail": str(r2)[-600:], "seed": seed, "files": texts}})
    feats = sorted(ctxs[0].doc_features | {"layout:" + f for f in lay.features})
    return {"viol": viol, "n": n, "nmem": nmem, "feats": feats, "mon": {"admon_evals": r["mon"].get("admon_evals", 0)}, "nontrivial": n >= 2, "hash": core.h(texts),
            "sample": {"seed": seed, "docstyle": docstyle, "markers": marks, "source_head": next(iter(texts.values()))[:1500]}}


def run_site(item):
    from vf import site

    return site.run_in_process(item["root"])


def is_subseq(need, have):
    it = iter(have)
    return all(any(x == w for x in it) for w in need)


def case_site(seed):
    """The generated pages: every word of an entity's comment is shown, in order, where the entity is documented - also for entities
    without a page of their own (components, arguments, local variables and types, internal procedures, bindings), whose text is
    placed by the templates (summary or full text)."""
    from vf import site

    rng = random.Random(seed)
    files = genmodels.gen_project(seed, docs=True, nfiles=rng.randint(1, 2), rich_docs=True)
    expected = {}
    for f in files:
        expected.update(fgen.expect_file(f, f"{f.name}.f90"))
    base = core.mktemp("vf_c03s_")
    texts = {}
    display = rng.choice([["public", "private", "protected"], ["public", "private", "protected"], ["public", "protected"]])
    try:
        src = os.path.join(base, "src")
        os.makedirs(src)
        lay = layout.Layout(seed, plain=True)
        for f in files:
            texts[f.name] = lay.free(fgen.render_file(f, fgen.Style(seed + 1)))
            open(os.path.join(src, f.name + ".f90"), "w").write(texts[f.name])
        opts = {"project": f"S{seed}", "src_dir": "./src", "output_dir": "./doc", "preprocess": False, "parallel": 0, "graph": False, "search": False, "incl_src": False,
                "display": display, "proc_internals": True, "quiet": True, "source": False}
        site.write_project_file(base, opts)
        st, r = core.run_alone(run_site, {"root": base}, timeout=300)
        if st != "ok" or r["outcome"] != "ok":
            return {"viol": [{"kf": {"kind": "ford_failed" if st == "ok" else "harness_" + st, "error": str((r or {}).get("error", r))[:50] if st == "ok" else st}, "w": {"detail": str(r)[-1200:], "seed": seed, "files": texts, "case": "site"}}], "n": 0, "kinds": []}
        pages = {}
        out = os.path.join(base, "doc")
        for dp, dn, fns in os.walk(out):
            for fn_ in fns:
                if fn_.endswith(".html"):
                    # (no source listings in this configuration: highlighted blocks are code blocks of the comments themselves)
                    pages[os.path.relpath(os.path.join(dp, fn_), out)] = docgrammar.tracer_seq(docgrammar.html_text(open(os.path.join(dp, fn_), encoding="utf-8", errors="replace").read()))
    finally:
        shutil.rmtree(base, ignore_errors=True)
    where = {}
    for rel, seq in pages.items():
        for w in set(seq):
            where.setdefault(w, []).append(rel)
    viol, n, kinds = [], 0, set()
    all_shown = len(display) == 3
    for path, rec in expected.items():
        if "doc" not in rec:
            continue
        emeta, ebody = split_expected(rec["doc"])
        if len(ebody) < 2:
            continue
        on = sorted({p for w in ebody for p in where.get(w, ())})
        kind = path.rsplit("/", 1)[-1].split(":")[0]
        segs = [x.split(":")[0] for x in path.split("/")]
        nproc = sum(1 for x in segs if x in PROC_SEGS)
        own_page = kind in PAGE_KINDS and nproc <= (1 if kind in PROC_SEGS else 0)
        if kind == "file" or nproc >= 2 or (kind not in PROC_SEGS and nproc >= 1 and segs[-2] not in PROC_SEGS and segs[-2] != "type"):
            continue  # internal procedures are summarised on their host's page, and what they contain is not shown; no file pages in this configuration
        if nproc >= 2 or (nproc == 1 and kind not in PROC_SEGS and "type" in segs[:-1] and segs.index("type") < len(segs) - 2):
            continue
        if "summary" in {k.lower() for k in emeta} and not own_page:
            continue  # an explicit summary is what is shown for an entity without a page of its own
        if not all_shown:
            # default display: what belongs to a private (not displayed) entity may still be summarised elsewhere (inherited bindings and
            # components shown with a public extension) while the page that would hold the full text is not generated
            parts = path.split("/")
            if any(expected.get("/".join(parts[:k]), {}).get("permission") == "private" for k in range(2, len(parts))):
                continue
        if not on:
            if all_shown and kind not in SITE_MAY_BE_ABSENT:
                viol.append({"kf": {"kind": "documentation_rendered_nowhere", "entity": kind, "display_all": all_shown}, "w": {"path": path, "expected": ebody, "seed": seed, "files": texts, "case": "site"}})
            continue
        n += 1
        kinds.add(kind)
        if not any(is_subseq(ebody, pages[p]) for p in on):
            best = max(on, key=lambda p: sum(1 for w in ebody if w in pages[p]))
            viol.append({"kf": {"kind": "documentation_rendered_incompletely", "entity": kind, "display_all": all_shown},
                         "w": {"path": path, "expected": ebody, "pages": on[:5], "best_page": best, "shown_there": [w for w in pages[best] if w in ebody], "seed": seed, "files": texts, "case": "site"}})
    return {"viol": viol, "n": n, "kinds": sorted(kinds)}


SITE_MAY_BE_ABSENT = set()
PROC_SEGS = {"function", "subroutine", "mpimpl", "ifacebody", "absinterface", "mpiface"}
PAGE_KINDS = {"module", "submodule", "program", "blockdata", "type", "function", "subroutine", "mpimpl", "interface", "absinterface", "ifacebody", "namelist"}


def observe_extra(item):
    cap = observe.Captured()
    project, cap = observe.parse_and_correlate([item["root"]], settings_kw={"extra_filetypes": {"c": fs_ExtraFileType("c", "//")}, **item["settings"]}, cap=cap)
    return {f.name: list(f.doc_list) for f in project.extra_files}


def fs_ExtraFileType(ext, com):
    from ford.settings import ExtraFileType

    return ExtraFileType(ext, com)


def case_extra_filetype(seed):
    """Documentation comments in a file of an extra file type (comment characters `//`): every documentation line - inline, on its own
    (indented) line, block form with plain-comment continuation lines - belongs to the file's documentation, in order; ordinary comments
    and text inside string literals do not."""
    rng = random.Random(seed)
    w = [0]

    def words(n=None):
        out = []
        for _ in range(n or rng.randint(1, 3)):
            w[0] += 1
            out.append(f"zq7w{w[0]}")
        return " ".join(out)

    marks = rng.choice(MARKSETS)
    dm, pm, am, pam = marks.get("docmark", "!"), marks.get("predocmark", ">"), marks.get("docmark_alt", "*"), marks.get("predocmark_alt", "|")
    L, exp = [], []
    ind = lambda: " " * rng.choice([0, 0, 2, 4, 8])  # noqa: E731
    for _ in range(rng.randint(6, 16)):
        r = rng.random()
        if r < 0.2:
            L.append(ind() + rng.choice(["int x = 1;", "x++;", "return x;", "}", "void f(void) {"]))
        elif r < 0.35:
            t = words()
            L.append(ind() + rng.choice(["int y = 2;", "y--;", 'puts("a //' + dm + ' not doc");']) + " //" + rng.choice([dm, pm]) + " " + t)
            exp += t.split()
        elif r < 0.55:
            t = words()
            L.append(ind() + "//" + rng.choice([dm, pm]) + " " + t)
            exp += t.split()
        elif r < 0.8 and am and pam:
            t = words()
            i0 = ind()
            L.append(i0 + "//" + rng.choice([am, pam]) + " " + t)
            exp += t.split()
            for _k in range(rng.randint(0, 3)):
                t = words()
                L.append(rng.choice([i0, ind()]) + "// " + t)
                exp += t.split()
            L.append(ind() + rng.choice(["", "int z;", "z = 3; // zn1 trailing ordinary comment"]))
        else:
            L.append(ind() + "// zn" + str(rng.randint(1, 9)) + " ordinary comment " + rng.choice(["", "'it''s", 'say "hi']))
            L.append(ind() + "int after_ordinary;")
    text = "\n".join(L) + "\n"
    base = core.mktemp("vf_c03x_")
    try:
        open(os.path.join(base, "main.c"), "w").write(text)
        open(os.path.join(base, "m.f90"), "w").write("module xm\nend module xm\n")
        st, r = core.run_alone(observe_extra, {"root": base, "settings": {k: v for k, v in marks.items()}}, timeout=120)
    finally:
        shutil.rmtree(base, ignore_errors=True)
    kfb = {"docstyle": "extra_filetype", "default_markers": marks == {}, "include_file": False}
    if st != "ok":
        return {"viol": [{"kf": {"kind": "ford_failed" if st == "raise" else "harness_" + st, "error": str(r)[:50], **kfb}, "w": {"detail": str(r)[-800:], "file": text, "seed": seed, "case": "extra"}}], "n": 0}
    got = docgrammar.tracer_seq(r.get("main.c", []))
    viol = []
    if got != exp:
        foreign = [x for x in got if x not in exp]
        how = "foreign_words" if foreign else ("missing_words" if len(got) < len(exp) else "order_or_duplicates")
        viol.append({"kf": {"kind": "doc_list_mismatch", "how": how, "entity": "extra_file", **kfb}, "w": {"expected": exp, "observed": got, "file": text, "markers": marks, "seed": seed, "case": "extra"}})
    if any(re.search(r"\bzn\d", x) for x in r.get("main.c", [])):
        viol.append({"kf": {"kind": "ordinary_comment_in_doc", "entity": "extra_file", **kfb}, "w": {"doc_list": r.get("main.c"), "file": text, "seed": seed, "case": "extra"}})
    return {"viol": viol, "n": 1}


def convert_bodies(chunk):
    """Bodies straight through the real MetaMarkdown.convert (one process, many bodies)."""
    install_contract()
    from ford._markdown import MetaMarkdown

    md = MetaMarkdown()
    res = []
    for ident, lines in chunk:
        before = len(MON["admon_viol"])
        try:
            h = md.reset().convert("\n".join(lines))
            err = None
        except Exception as e:
            h, err = "", f"{type(e).__name__}: {str(e)[:200]}"
        res.append({"ident": ident, "html_words": docgrammar.tracer_seq(docgrammar.html_text(h)), "marker_leak": MARKER_RE.findall(docgrammar.html_text(h))[:3], "error": err, "contract": MON["admon_viol"][before:][:2]})
    return {"res": res, "evals": MON["admon_evals"]}


MARKSETS = [{}, {"docmark": "@", "predocmark": "^", "docmark_alt": "%", "predocmark_alt": "~"}, {"docmark": "!", "predocmark": "<", "docmark_alt": "#", "predocmark_alt": ">"}]


def main():
    run = core.Run(
        PID,
        rule="project case = generated program (vf.genmodels, rich docs: every documentable entity may carry a body from the doc grammar "
        "- paragraphs, bullet/numbered lists, fenced/indented code, note boxes of the 5 kinds in 9 start/end forms - optionally "
        "preceded by metadata lines) x marker style {after, inline, pre, alt, prealt, mixed} x 3 marker-character sets, laid out with "
        "ordinary comments / blank lines / continuations; body case = a grammar body through MetaMarkdown.convert. Non-trivial: >=2 "
        "documented entities compared (project) or a body with a box/list/code block; distinct by source hash.",
        assumptions=[
            "tracer words are globally unique; only their sequence is compared (HTML structure of boxes is not)",
            "doc comments are placed only where the user guide defines their meaning; a doc after a multi-entity declaration belongs to each entity",
            "the first body line never looks like `key: value` unless it is intended metadata",
        ],
    )
    rp = core.replay_arg()
    if rp:
        w = json.load(open(rp))["witness"]
        a = w.get("arg")
        if w.get("case") == "extra":
            r = case_extra_filetype(w["seed"])
            print("replay:", "VIOLATION" if r["viol"] else "held")
            sys.exit(1 if r["viol"] else 0)
        if w.get("case") == "site":
            r = case_site(w["seed"])
            bad = [v for v in r["viol"] if core.match_known(core.load_known(PID), v["kf"]) is None]
            print("replay:", "VIOLATION" if bad else "held")
            sys.exit(1 if bad else 0)
        if a is None:
            print("replay: body-level witness; input is in the file")
            sys.exit(1)
        r = case_project((w["seed"], a[0] if isinstance(a[0], str) else a[1], a[-1]) if False else (a[0], a[1], a[2]))
        known = core.load_known(PID)
        bad = [v for v in r["viol"] if core.match_known(known, v["kf"]) is None]
        print("replay:", "VIOLATION" if bad else "held")
        for v in bad[:8]:
            print(json.dumps({k: x for k, x in v["w"].items() if k != "files"}, default=str)[:600])
        sys.exit(1 if bad else 0)
    thorough = run.tier == "thorough"
    rng = random.Random(run.seed * 17 + 3)
    styles = ["after", "inline", "pre", "alt", "prealt", "mixed"]
    nproj = 1500 if thorough else 180
    pargs = []
    for i in range(nproj):
        pargs.append((run.seed * 100003 + i, styles[i % len(styles)], MARKSETS[(i // len(styles)) % len(MARKSETS)]))
    results = core.fork_map(case_project, pargs, per_case_fork=False, case_timeout=400, total_timeout=3400)
    for a, (st, r) in zip(pargs, results):
        if st != "ok":
            run.inconc(f"{st}: {str(r)[-300:]}")
            continue
        run.case(key=r["hash"], nontrivial=r["nontrivial"], sample=r["sample"] if r["nontrivial"] else None)
        run.count("entities_docs_compared", r["n"])
        run.count("namelist_member_docs_compared_with_default_display", r.get("nmem", 0))
        run.count("contract_evals_admonition_run", r["mon"].get("admon_evals", 0))
        run.seen("marker_style_x_markset", f"{a[1]}|{MARKSETS.index(a[2])}")
        for f in r["feats"]:
            run.seen("doc_features_generated", f)
        for v in r["viol"]:
            run.violation(v["kf"], v["w"])
    # the generated pages
    sseeds = [run.seed * 100003 + 500000 + i for i in range(500 if thorough else 60)]
    for sd, (st, r) in zip(sseeds, core.fork_map(case_site, sseeds, per_case_fork=False, case_timeout=400, total_timeout=3400)):
        if st != "ok":
            run.inconc(f"site {st}: {str(r)[-300:]}")
            continue
        run.count("entity_comments_looked_up_in_generated_pages", r["n"])
        for k in r["kinds"]:
            run.seen("entity_kinds_looked_up_in_generated_pages", k)
        for v in r["viol"]:
            run.violation(v["kf"], v["w"])
    # files of an extra file type
    xseeds = [run.seed * 100003 + 900000 + i for i in range(2000 if thorough else 300)]
    for sd, (st, r) in zip(xseeds, core.fork_map(case_extra_filetype, xseeds, per_case_fork=False, case_timeout=200)):
        if st != "ok":
            run.inconc(f"extra file {st}: {str(r)[-300:]}")
            continue
        run.count("extra_file_type_docs_compared", r["n"])
        for v in r["viol"]:
            run.violation(v["kf"], v["w"])
    # body-level
    nbody = 12000 if thorough else 2500
    bodies = []
    for i in range(nbody):
        lines, feats = docgrammar.gen_body(rng, i + 1, max_blocks=5)
        bodies.append((i + 1, lines, feats))
    chunks = [[(b[0], b[1]) for b in bodies[k:k + 250]] for k in range(0, len(bodies), 250)]
    bres = core.fork_map(convert_bodies, chunks, per_case_fork=False, case_timeout=600)
    byid = {b[0]: b for b in bodies}
    for st, r in bres:
        if st != "ok":
            run.inconc(f"body chunk {st}: {str(r)[-200:]}")
            continue
        run.count("contract_evals_admonition_run", r["evals"])
        for x in r["res"]:
            ident, lines, feats = byid[x["ident"]]
            exp = docgrammar.tracer_seq(lines)
            nontriv = any(f in feats for f in ("bullets", "numbered", "fenced", "indented", "note"))
            run.case(key="body" + core.h(lines), nontrivial=nontriv)
            run.count("bodies_converted")
            for f in feats:
                run.seen("doc_features_generated", f)
            mech = note_mechanism(lines)
            if x["error"]:
                run.violation({"kind": "markdown_convert_failed", "error": x["error"].split(":")[0], "body_features": mech}, {"body": lines, "error": x["error"]})
            elif x["html_words"] != exp:
                got = x["html_words"]
                how = "missing_words" if len(got) < len(exp) else ("order_or_duplicates" if sorted(got) == sorted(exp) or len(got) > len(exp) else "other")
                run.violation({"kind": "rendered_body_mismatch", "how": how, "body_features": mech}, {"body": lines, "expected": exp, "observed": got})
            if x.get("marker_leak") and not x["error"]:
                run.violation({"kind": "note_marker_shown_as_text", "body_features": mech}, {"body": lines, "markers": x["marker_leak"]})
            for cv in x["contract"]:
                run.violation({"kind": "admonition_preprocessor_word_conservation", "body_features": note_mechanism(cv["input"])}, cv)
    run.max_samples = 2
    if run.tier == "thorough":
        # one more workload for the contracts: the repository's own test-suite (hand-written inputs)
        from vf import repo_tests

        repo_tests.attach(run, PID)
    run.finish(floors={"evaluations": 1500, "distinct_nontrivial": 1000, "entities_docs_compared": 3000, "contract_evals_admonition_run": 3000, "namelist_member_docs_compared_with_default_display": 20,
                       "marker_style_x_markset": 18, "doc_features_generated": 20, "entity_comments_looked_up_in_generated_pages": 600, "extra_file_type_docs_compared": 200, "entity_kinds_looked_up_in_generated_pages": 10})


if __name__ == "__main__":
    main()
