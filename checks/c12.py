"""C12 - output is a deterministic function of the inputs.

Runtime monitor over repeated real `python -m ford` runs of the same generated project.  One reference run
(PYTHONHASHSEED=0, sorted directory enumeration, parallel 0, output directory absent) is compared byte for byte
(and URL for URL: the set of output paths) with runs that differ only in a factor the output must not depend on:
  * PYTHONHASHSEED (several values),
  * the order in which the file system enumerates directory entries (os.scandir/os.listdir permuted by an
    injected sitecustomize; exhaustive over the permutations for flat projects with <= 4 files at the thorough tier),
  * the memory layout of the process (heap noise allocated before FORD starts, PYTHONMALLOC=malloc: identity hashes and the
    iteration order of sets of objects change),
  * the number of worker processes (parallel 0 / 2 / 8; graphs embedded or in graph_dir),
  * the previous content of the output directory (absent / stale from another project / from the same project).
Projects contain equally named entities in several files and modules, equal file basenames, generic interfaces
with several procedures, type extension, cross-file calls and uses, markdown reference definitions in
docstrings, static pages, search index, graphs.
"""
from __future__ import annotations

import hashlib
import itertools
import json
import os
import random
import re
import shutil
import sys

from vf import core

ford = core.setup_env()
from vf import site  # noqa: E402
from checks import c10 as _c10  # noqa: E402  (project generator with colliding names)

PID = "C12"
AUDIT_DIR = os.path.join(core.VERIF, "vf", "audit_site")


def build_project(seed, flat=False, nfiles=None):
    rng = random.Random(seed)
    sx = seed % 997
    files, tags = _c10.build(seed)
    if flat:
        files = {k.replace(os.sep, "_"): v for k, v in files.items()}
    tr = [0]

    def doc(extra=""):
        tr[0] += 1
        return f"!! zd{sx}x{tr[0]} {extra}".rstrip()

    # generic interfaces with several module procedures, calls across files, type extension, markdown definitions
    n_extra = rng.randint(2, 3)
    for i in range(n_extra):
        m = f"dm{sx}_{i}"
        L = [f"module {m}", doc("see [zlabel] and [zother][] here" if i else "definition here\n!!\n!! [zlabel]: http://example.org/zlabel\n!! [zother]: http://example.org/zother\n!!\n!! *[ZABBR]: an abbreviation"), ]
        if i:
            L.append(f"use dm{sx}_{i - 1}")
            L += [f"use dm{sx}_{j}, only: base_{j}" for j in range(i - 1)]
            L += [f"use zz_unknown_lib_{i}", "use iso_c_binding", "use aa_unknown_lib", "use, intrinsic :: iso_fortran_env, only: int32"]
        L += ["implicit none", f"type{', extends(base_' + str(i - 1) + ')' if i else ''} :: base_{i}", doc("ZABBR text"), f"integer :: f{i}", doc(), f"end type base_{i}"]
        specs = [f"spec_{i}_{j}" for j in range(rng.randint(2, 4))]
        rng.shuffle(specs)
        L += [f"interface gen_{i}", doc("generic [zlabel]")] + [f"module procedure {s}" for s in specs] + ["end interface"]
        L += ["interface gen_shared", doc()] + [f"module procedure {specs[0]}"] + ["end interface"] if rng.random() < 0.5 else []
        L.append("contains")
        for j, s in enumerate(sorted(specs)):
            ty = ["integer", "real", "logical", "complex"][j]
            L += [f"subroutine {s}(a)", doc("text with footnote[^1]\n!!\n!! [^1]: note zfn" if j == 0 else ""), f"{ty}, intent(in) :: a"]
            if i:
                L += [f"call gen_{i - 1}(1)", f"call spec_{i - 1}_0(1)"]
            L += [f"call helper_{sx}(a)" if j == 0 else "continue", f"end subroutine {s}"]
        if i:
            # equally named procedures of several modules that use the same module themselves: equal labels in its used-by graph / table
            L += ["subroutine shared_init()", doc(), f"use dm{sx}_0, only: base_0", "type(base_0) :: z", "end subroutine shared_init"]
        L.append(f"end module {m}")
        d = "" if flat else rng.choice(["", "a", "b", "c/d"])
        files[os.path.join(d, f"dmod{i}.f90")] = "\n".join(L) + "\n"
    files["shared_user.f90"] = f"module su{sx}\n{doc()}\nimplicit none\ncontains\nsubroutine shared_init()\n{doc()}\nuse dm{sx}_0, only: base_0\ntype(base_0) :: z\nend subroutine shared_init\nend module su{sx}\n"
    # two files that define a module of the same name (alternative implementations), both used
    if rng.random() < 0.6:
        tags = list(tags) + ["same_module_name_in_two_files"]
        for k, d in enumerate(["impl_a", "impl_b"]):
            files[os.path.join("" if flat else d, f"dupmod{k}.f90")] = "\n".join(
                [f"module dup{sx}", doc(f"variant {k}"), "implicit none", f"integer :: v{k}", doc(), "contains", f"subroutine only_in_{k}()", doc(), f"end subroutine only_in_{k}",
                 "subroutine in_both()", doc(), "end subroutine in_both", f"end module dup{sx}"]) + "\n"
        files["dupuser.f90"] = f"module dupuser{sx}\n{doc()}\nuse dup{sx}\nimplicit none\ncontains\nsubroutine du()\n{doc()}\nuse dm{sx}_0, only: base_0\ncall in_both()\nend subroutine du\nend module dupuser{sx}\n"
    files["helper.f90" if "helper.f90" not in files else "helper2.f90"] = f"subroutine helper_{sx}(q)\n{doc()}\ninteger :: q\nend subroutine helper_{sx}\nfunction dup(x)\n{doc()}\ninteger :: x, dup\ndup = x\nend function dup\n"
    # several free-form extensions in one project
    if rng.random() < 0.6:
        tags = list(tags) + ["mixed_extensions"]
        ren = {}
        for k in sorted(files):
            ren[k] = k[:-4] + rng.choice([".f90", ".f90", ".f95", ".f03", ".F90", ".f08"]) if k.endswith(".f90") else k
        if len({os.path.splitext(v)[0] for v in ren.values()}) == len(ren):
            files = {ren[k]: v for k, v in files.items()}
    if nfiles is not None:
        keep = sorted(files)[:nfiles]
        # keep a parseable subset: drop files whose modules are used by dropped ones is harmless for FORD
        files = {k: files[k] for k in keep}
    return files, tags


_LIB_JSON = {}


def lib_json(nm):
    """modules.json of a small library documented by the real FORD with `externalize` (made once per process): a module whose derived
    type and constructor interface share one name, so that an unqualified [[vec]] has several candidates among the external entities"""
    if nm not in _LIB_JSON:
        d = core.mktemp("vf_c12lib_")
        try:
            os.makedirs(os.path.join(d, "src"))
            open(os.path.join(d, "src", "lib.f90"), "w").write("\n".join([
                f"module only_{nm}", "!! doc", "implicit none", "type :: vec", "!! doc", "real :: x", "end type vec", "interface vec", "!! doc", "module procedure mk_vec", "end interface",
                "interface norm", "!! doc", "module procedure norm_v", "end interface", "integer :: norm_count = 0", "!! doc", "contains",
                "function mk_vec(x) result(v)", "!! doc", "real, intent(in) :: x", "type(vec) :: v", "v%x = x", "end function mk_vec",
                "function norm_v(v) result(r)", "!! doc", "type(vec), intent(in) :: v", "real :: r", "r = v%x", "end function norm_v", f"end module only_{nm}",
                "module zz_unknown_lib_1", "!! doc", "end module zz_unknown_lib_1", "module aa_unknown_lib", "!! doc", "end module aa_unknown_lib"]) + "\n")
            site.write_project_file(d, {"project": nm, "src_dir": "./src", "output_dir": "./doc", "preprocess": False, "externalize": True, "search": False, "graph": False, "parallel": 0, "quiet": True})
            r = site.run_cli(d, env={"PYTHONHASHSEED": "0"})
            _LIB_JSON[nm] = open(os.path.join(d, "doc", "modules.json")).read() if r["rc"] == 0 else None
        finally:
            shutil.rmtree(d, ignore_errors=True)
    return _LIB_JSON[nm]


def write_project(root, files, seed, opts_extra, name="Determinism", pages=True):
    proj = os.path.join(root, "proj")
    os.makedirs(proj, exist_ok=True)
    for rel, text in files.items():
        p = os.path.join(proj, "src", rel)
        os.makedirs(os.path.dirname(p), exist_ok=True)
        open(p, "w").write(text)
    opts = {"project": name, "src_dir": "./src", "output_dir": "./doc", "preprocess": False, "display": ["public", "private", "protected"],
            "proc_internals": True, "search": True, "graph": True, "incl_src": True, "sort": "alpha", "parallel": 0,
            "summary": "Summary text", "extra_filetypes": "inc !"}
    opts.update(opts_extra)
    if pages:
        pd = os.path.join(proj, "pages")
        os.makedirs(os.path.join(pd, "sub"), exist_ok=True)
        open(os.path.join(pd, "index.md"), "w").write("title: Top page\nordered_subpage: gamma.md\n\nText. [[gen_0]] and [[dup]]\n")
        for n in ("alpha", "beta", "gamma"):
            open(os.path.join(pd, n + ".md"), "w").write(f"title: Page {n}\n\nText of {n}\n")
        open(os.path.join(pd, "sub", "index.md"), "w").write("title: Sub\n\nText\n")
        open(os.path.join(pd, "sub", "leaf.md"), "w").write("title: Leaf\n\nText\n")
        opts["page_dir"] = "./pages"
    open(os.path.join(proj, "src", "data.inc"), "w").write("! extra file\n! another line\n")
    # a source file with a very long (valid) file name, and declarations of user-defined type names (`extra_vartypes`) of which one
    # is a prefix of the other
    long_name = "long_" + "abcdefghij" * 17 + f"_{seed % 1000}.f90"
    open(os.path.join(proj, "src", long_name), "w").write(f"module zlong{seed % 1000}\n!! doc of the module in the long file\nimplicit none\nFLOAT_PTR :: cursor\n!! doc of cursor\nFLOAT :: plainf\n"
                                                           f"!! doc of plainf\nFLOAT_PTR_ARR :: cursors(3)\n!! doc of cursors\n"
                                                           # several attribute statements naming one variable: they apply in the order they are written
                                                           + "".join(f"integer :: hsv{k} = {k}\n!! doc of hsv{k}\npublic :: hsv{k}\nprotected :: hsv{k}\n" for k in range(6))
                                                           + f"end module zlong{seed % 1000}\n")
    opts["extra_vartypes"] = ["FLOAT", "FLOAT_PTR_ARR", "FLOAT_PTR"] if seed % 2 else ["FLOAT_PTR", "FLOAT", "FLOAT_PTR_ARR"]
    # INCLUDE: two include directories hold a file of one name (the first one listed wins), and an include line whose spelling
    # matches no file exactly while two files differ from it in letter case only (FORD reports it and goes on)
    for k, dn in enumerate(("inc_generic", "inc_platform")):
        os.makedirs(os.path.join(proj, dn), exist_ok=True)
        open(os.path.join(proj, dn, "defs.inc"), "w").write(f"integer :: from_{dn} = {k}\n!! doc of the variable from {dn}\n")
    opts["include"] = ["./inc_platform", "./inc_generic"]
    open(os.path.join(proj, "src", "params.h"), "w").write("integer :: lower_params = 1\n")
    open(os.path.join(proj, "src", "PARAMS.H"), "w").write("integer :: upper_params = 2\n")
    open(os.path.join(proj, "src", "zz_includes.f90"), "w").write(f"module zz_inc{seed % 1000}\n!! doc\nimplicit none\ninclude 'defs.inc'\ninclude 'Params.h'\nend module zz_inc{seed % 1000}\n")
    # a media directory with a sub-directory: links to directories below the output tree, written without trailing slash
    os.makedirs(os.path.join(proj, "media", "gallery"), exist_ok=True)
    open(os.path.join(proj, "media", "gallery", "g.png"), "wb").write(b"PNG")
    opts["media_dir"] = "./media"
    if opts.get("external"):
        for nm in ("liba", "libb", "libc"):
            d = os.path.join(proj, "ext", nm)
            os.makedirs(d, exist_ok=True)
            mods = [{"name": m, "external_url": f"./module/{m}.html", "obj": "module", "pub_procs": {}, "pub_absints": {}, "pub_types": {}, "pub_vars": {}, "functions": [],
                     "subroutines": [], "interfaces": [], "absinterfaces": [], "types": [], "variables": [], "permission": "public"} for m in ("zz_unknown_lib_1", "aa_unknown_lib", "only_" + nm)]
            real = lib_json(nm) if seed % 2 else None
            if real:
                open(os.path.join(d, "modules.json"), "w").write(real)
            else:
                json.dump({"ford-metadata": {"version": "0"}, "modules": mods}, open(os.path.join(d, "modules.json"), "w"))
    # the user's own aliases, some defined through others (whether or not those are expanded, the result is the same on every run)
    opts["alias"] = {"vfdocs": "|page|/sub", "vfguide": "|vfdocs|/leaf.html", "vfintro": "|vfguide|#top", "vfword": "plain words", "vfdeep": "|vfintro| and |vfword|"}
    if seed % 3 == 1 and pages:
        # a second source directory that is the project directory itself, written with `..`: it holds the output directory (excluded from the
        # search whatever the spelling) and the first source directory (every file once)
        opts["src_dir"] = ["./src", "./pages/.."]
    site.write_project_file(proj, opts, body="Front page with [[gen_0]]. [gallery](|media|/gallery) [pages](|page|/sub) [top](|url|/module) [guide](|vfguide|) [intro](|vfintro|) |vfdeep| |vfword|." + (" External: [[vec]], [[norm]], [[mk_vec]], [[only_libb]]." if opts.get("external") else "") + "\n")
    return proj


def tree_hash(out, root=None):
    """relative path -> sha256; the absolute location of the project (an input: it shows in links to external projects given as
    local paths) is replaced by a placeholder"""
    res = {}
    rb = os.path.realpath(root).encode() if root else None
    for dp, dn, fn in os.walk(out):
        dn.sort()
        for f in fn:
            p = os.path.join(dp, f)
            rel = os.path.relpath(p, out)
            if os.path.islink(p):
                res[rel] = "link:" + os.readlink(p)
            else:
                data = open(p, "rb").read()
                if rb and rb in data:
                    data = data.replace(rb, b"<PROJECT_DIR>")
                res[rel] = hashlib.sha256(data).hexdigest()
        for d in dn:
            if not os.listdir(os.path.join(dp, d)):
                res[os.path.relpath(os.path.join(dp, d), out) + "/"] = "emptydir"
    return res


def run(proj, hashseed="0", scan=None, timeout=600, noise=0, malloc=None):
    env = {"PYTHONHASHSEED": str(hashseed), "PYTHONPATH": AUDIT_DIR + ":" + core.REPO}
    if noise:
        env["VF_HEAP_NOISE"] = str(noise)
    if malloc:
        env["PYTHONMALLOC"] = malloc
    if scan is not None:
        env["VF_SCAN_ORDER"] = str(scan)
        env["VF_SCAN_ROOT"] = proj  # sources, page directory, media
    return site.run_cli(proj, env=env, timeout=timeout)


def first_diff(a: bytes, b: bytes):
    n = min(len(a), len(b))
    i = next((k for k in range(n) if a[k] != b[k]), n)
    lo = max(0, i - 100)
    return {"offset": i, "reference": a[lo:i + 140].decode("utf-8", "replace"), "variant": b[lo:i + 140].decode("utf-8", "replace")}


def classify_file(rel):
    top = rel.split(os.sep)[0]
    if rel.endswith("/"):
        return "empty directory"
    if top == "search" or "tipuesearch" in rel:
        return "search index"
    if re.search(r"~\d+\.html$", rel):
        return "page with ~N suffix"
    if top in ("proc", "type", "module", "program", "interface", "blockdata", "namelist", "sourcefile", "lists", "page", "src"):
        return top + " pages"
    if rel.endswith((".gv", ".svg")):
        return "graph files"
    return "top-level " + os.path.splitext(rel)[1]


def project_setup(seed, kind, root):
    rng = random.Random(seed * 7 + 1)
    flat = kind == "perm"
    files, tags = build_project(seed, flat=flat, nfiles=(rng.choice([3, 4]) if core.tier() == "thorough" else 3) if flat else None)
    graph_dir = rng.random() < 0.5
    opts_extra = {}
    if graph_dir:
        opts_extra["graph_dir"] = "./doc/graphs" if rng.random() < 0.5 else "./graphs"
    if rng.random() < 0.4:
        opts_extra["externalize"] = True
    if rng.random() < 0.3:
        opts_extra["sort"] = rng.choice(["src", "permission", "permission-alpha", "type", "type-alpha"])
    if rng.random() < 0.5:
        opts_extra["graph_maxnodes"] = rng.choice([1, 2, 3])  # small limit: graphs are rendered as tables
    if rng.random() < 0.3:
        # a format for the creation date without switching the date on: nothing of the run time may show
        opts_extra["creation_date"] = "%Y-%m-%d %H:%M:%S.%f"
    if rng.random() < 0.35:
        # several external projects that document equally named modules (which the project uses)
        opts_extra["external"] = {"liba": "./ext/liba", "libb": "./ext/libb", "libc": "./ext/libc"}
    proj = write_project(root, files, seed, opts_extra)
    return proj, files, tags, opts_extra


def snapshot(proj):
    out = os.path.join(proj, "doc")
    gdir = os.path.join(proj, "graphs")
    t = tree_hash(out, proj) if os.path.isdir(out) else {}
    if os.path.isdir(gdir):
        t.update({"<graph_dir>/" + k: v for k, v in tree_hash(gdir, proj).items()})
    return t


def out_path(proj, k):
    if k.startswith("<graph_dir>/"):
        return os.path.join(proj, "graphs", k[len("<graph_dir>/"):])
    return os.path.join(proj, "doc", k)


def reference(arg):
    """phase 1: reference run, kept on disk under refroot until the end of the check"""
    seed, kind, refroot = arg
    proj, files, tags, opts_extra = project_setup(seed, kind, refroot)
    r0 = run(proj, hashseed="0", scan=0)
    if r0["rc"] != 0:
        return {"ok": False, "why": "reference run failed: " + (r0["stderr"] or r0["stdout"])[-400:].replace("\n", " | ")}
    return {"ok": True, "ref": snapshot(proj), "proj": proj, "tags": tags, "opts": opts_extra, "files": sorted(files), "key": core.h(files),
            "n_src_entries": len(os.listdir(os.path.join(proj, "src")))}


def stale_other(root, proj, seed, opts_extra):
    out = os.path.join(proj, "doc")
    other = os.path.join(root, "other")
    ofiles, _ = build_project(seed + 5000)
    oproj = write_project(other, ofiles, seed + 5000, {"graph_dir": "./doc/graphs", "externalize": True, "media_dir": "./media"}, name="Other")
    os.makedirs(os.path.join(oproj, "media"), exist_ok=True)
    open(os.path.join(oproj, "media", "pic.png"), "wb").write(b"PNG")
    open(os.path.join(oproj, "pages", "only_other.md"), "w").write("title: Only other\n\nText\n")
    ro = run(oproj)
    if ro["rc"] == 0 and os.path.isdir(os.path.join(oproj, "doc")):
        shutil.copytree(os.path.join(oproj, "doc"), out, symlinks=True)
    else:
        os.makedirs(os.path.join(out, "page", "old"))
        open(os.path.join(out, "page", "old", "x.html"), "w").write("stale")
    open(os.path.join(out, "stray.txt"), "w").write("stray\n")
    os.makedirs(os.path.join(out, "emptydir_left"), exist_ok=True)
    shutil.rmtree(other, ignore_errors=True)


def variant(arg):
    """phase 2: one run differing from the reference in one factor; own copy of the project (regenerated from the seed)"""
    seed, kind, refinfo, factor, detail = arg
    root = core.mktemp("vf_c12v_")
    try:
        proj, files, tags, opts_extra = project_setup(seed, kind, root)
        ref = refinfo["ref"]
        graph_dir = "graph_dir" in opts_extra
        if factor == "stale_output_same_project":
            r = run(proj, hashseed="0", scan=0)
            if r["rc"] != 0:
                return {"inconclusive": "first run of the same project failed", "viol": []}
        elif factor == "stale_output_other_project":
            stale_other(root, proj, seed, opts_extra)
        if "parallel" in detail:
            set_option(proj, "parallel", detail["parallel"])
        r = run(proj, hashseed=str(detail.get("hashseed", "0")), scan=detail.get("scan", 0), noise=detail.get("heap_noise", 0), malloc=detail.get("malloc"))
        label = factor + " " + json.dumps(detail, sort_keys=True)
        if r["rc"] != 0:
            txt = (r["stderr"] or r["stdout"]).strip()
            return {"inconclusive": None, "viol": [{"kf": {"kind": "run_fails_only_in_variant", "factor": factor, "graph_dir": graph_dir,
                                                            "error": re.sub(r"0x[0-9a-f]+|/tmp/\S+", "_", txt.splitlines()[-1] if txt else "")[:160]},
                                                     "w": {"seed": seed, "variant": label, "rc": r["rc"], "stderr_tail": r["stderr"][-1500:], "options": opts_extra}}]}
        cur = snapshot(proj)
        if cur == ref:
            return {"inconclusive": None, "viol": [], "nfiles": len(cur)}
        diff = sorted(k for k in set(ref) | set(cur) if ref.get(k) != cur.get(k))
        only_ref = [k for k in diff if k not in cur]
        only_var = [k for k in diff if k not in ref]
        changed = [k for k in diff if k in ref and k in cur]
        classes = sorted({classify_file(k) for k in diff})
        ex = None
        if changed:
            k = changed[0]
            try:
                ex = {"file": k, **first_diff(open(out_path(refinfo["proj"], k), "rb").read(), open(out_path(proj, k), "rb").read())}
            except OSError as e:
                ex = {"file": k, "error": str(e)}
        return {"inconclusive": None, "nfiles": len(cur),
                "viol": [{"kf": {"kind": "output_depends_on", "factor": factor, "file_classes": classes, "paths_differ": bool(only_ref or only_var), "graph_dir": graph_dir},
                          "w": {"seed": seed, "kind": kind, "variant": label, "n_differing": len(diff), "only_in_reference": only_ref[:8], "only_in_variant": only_var[:8],
                                "content_differs": changed[:8], "first_difference": ex, "options": opts_extra, "tags": tags}}]}
    finally:
        shutil.rmtree(root, ignore_errors=True)


def variants_for(kind, n_src_entries):
    import math

    v = []
    if kind == "perm":
        for k in range(1, math.factorial(min(n_src_entries, 5))):
            v.append(("directory_enumeration_order", {"scan": k}))
        return v
    hs = [1, 2, 3] if kind == "quick" else [1, 2, 3, 4, 5, 7, 11, 12345]
    v += [("hash_seed", {"hashseed": s}) for s in hs]
    v += [("directory_enumeration_order", {"scan": k}) for k in ([1, 5] if kind == "quick" else [1, 2, 3, 5, 23, 119, 719])]
    v.append(("hash_seed_and_enumeration_order", {"hashseed": 9, "scan": 4}))
    v += [("worker_processes", {"parallel": p}) for p in (2, 8)]
    v += [("memory_layout", {"heap_noise": 1}), ("memory_layout", {"heap_noise": 2, "malloc": "malloc"})]
    if kind != "quick":
        v += [("memory_layout", {"heap_noise": k}) for k in (3, 4, 5)]
    v.append(("stale_output_same_project", {}))
    v.append(("stale_output_other_project", {}))
    v.append(("control_identical_rerun", {}))
    return v


def set_option(proj, key, value):
    p = os.path.join(proj, "proj.md")
    s = open(p).read()
    s = re.sub(rf"(?m)^{key}: .*$", f"{key}: {value}", s, count=1)
    open(p, "w").write(s)


def main():
    run_ = core.Run(
        PID, level="exploration",
        rule="case = generated multi-file project (colliding entity/module/file names, generics, extension, cross-file calls, markdown "
        "definitions in docs, pages, search, graphs embedded or in graph_dir, externalize, sort modes); every case = 1 reference run + "
        "variants differing in exactly one of {PYTHONHASHSEED, directory enumeration order, parallel, prior content of the output dir}; "
        "each variant's output tree is compared byte for byte with the reference. Non-trivial: every case (>= 9 variant runs).",
        assumptions=["directory enumeration order is injected by permuting os.scandir/os.listdir results inside the FORD process (below src_dir)",
                     "creation_date is left off; graphviz `dot` is assumed deterministic for identical input",
                     "runs go through the real CLI in a fresh interpreter each"],
    )
    run_.max_samples = 3
    rp = core.replay_arg()
    if rp:
        w = json.load(open(rp))
        print("witness: project seed %s, variant %s; re-run ./check C12 with VERIF_SEED=%s" % (w["witness"]["seed"], w["witness"]["variant"], w["seed"]))
        sys.exit(1)
    thorough = run_.tier == "thorough"
    base = run_.seed * 1009
    projects = [(base + i, "thorough" if thorough else "quick") for i in range(40 if thorough else 8)]
    projects += [(base + 500 + i, "perm") for i in range(8 if thorough else 1)]
    refbase = core.mktemp("vf_c12ref_")
    try:
        refs = core.fork_map(reference, [(sd, kind, os.path.join(refbase, f"r{i}")) for i, (sd, kind) in enumerate(projects)], per_case_fork=False, case_timeout=900)
        tasks = []
        for (sd, kind), (st, r) in zip(projects, refs):
            if st != "ok" or not r.get("ok"):
                run_.inconc(f"{st}: {str(r)[-300:]}")
                continue
            run_.count("output_files_per_reference_total", len(r["ref"]))
            for t in r["tags"]:
                run_.seen("project_features", t)
            run_.seen("graph_dir_used", r["opts"].get("graph_dir", "embedded"))
            vs = variants_for(kind, r["n_src_entries"])
            run_.case(key=r["key"], nontrivial=len(vs) >= 5, sample={"seed": sd, "kind": kind, "source_files": r["files"], "options": r["opts"],
                                                                     "output_files_compared": len(r["ref"]), "variants_run": [f for f, _ in vs][:14], "tags": r["tags"]})
            for factor, detail in vs:
                tasks.append((sd, kind, r, factor, detail))
        results = core.fork_map(variant, tasks, per_case_fork=False, case_timeout=900, total_timeout=3400)
        for t, (st, r) in zip(tasks, results):
            if st != "ok":
                run_.inconc(f"{st}: {str(r)[-300:]}")
                continue
            if r["inconclusive"]:
                run_.inconc(r["inconclusive"])
                continue
            run_.count("variant_runs_compared")
            run_.count("variants_" + t[3])
            for v in r["viol"]:
                if t[3] == "control_identical_rerun":
                    run_.inconc("control run (identical settings, other directory) differs: harness cannot attribute differences: " + json.dumps(v["w"].get("first_difference"))[:300])
                else:
                    run_.violation(v["kf"], v["w"])
    finally:
        shutil.rmtree(refbase, ignore_errors=True)
    run_.finish(floors={"evaluations": 8, "distinct_nontrivial": 8, "variant_runs_compared": 100, "variants_hash_seed": 20, "variants_directory_enumeration_order": 30, "variants_control_identical_rerun": 5, "variants_memory_layout": 10,
                        "variants_worker_processes": 10, "variants_stale_output_other_project": 5, "variants_stale_output_same_project": 5})


if __name__ == "__main__":
    main()
