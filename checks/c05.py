"""C05 - the site documents exactly the entities selected by the display options.

Runtime monitor over complete FORD runs (forked child): generated programs whose every entity carries unique
tracer words; `display` at project level and overridden in file / module / type / procedure metadata,
`proc_internals`, `hide_undoc`; an independent selection model says for every entity must-show / must-hide /
either; the checker looks for the tracer words on every generated page (source listings excluded) and in every
search record, checks that must-show entities are described on the page of their nearest page-owning ancestor
and have their own page, and that no internal link points at a page that was not generated.
"""
from __future__ import annotations

import json
import os
import random
import re
import shutil
import sys

from vf import core

ford = core.setup_env()
from vf import fgen, genmodels, layout, site  # noqa: E402
from vf.fgen import Unit, Proc  # noqa: E402

PID = "C05"
DISPLAYS = [["public"], ["public", "protected"], ["public", "private"], ["public", "protected", "private"], ["none"], ["private"], ["protected", "private"], ["public"]]
WORD_RE = re.compile(r"zq\d+w\d+x\d+")


def words_of(doc):
    return WORD_RE.findall(" ".join(doc))


def add_override(rng, doc, what):
    """Prepend a metadata override to a documentation body (keeps body words)."""
    if not doc:
        return None
    if what == "display":
        val = rng.choice(["public", "public private", "public protected private", "none", "private public"])
        vals = val.split()
        # multi-valued metadata: one value per (continuation) line
        sp = lambda v: rng.choice([v, v, v.capitalize(), v.upper()])  # noqa: E731  (the values are not case sensitive)
        lines = [f"display: {sp(vals[0])}"] + [f"    {sp(v)}" for v in vals[1:]]
        if rng.random() < 0.5:
            lines.append("")
        doc[0:0] = lines
        return vals
    val = rng.choice(["true", "false"])
    doc.insert(0, f"proc_internals: {val}")
    return val == "true"


class Sel:
    """Selection model."""

    def __init__(self, project_display, proc_internals, hide_undoc):
        self.D0 = project_display
        self.pi = proc_internals
        self.hu = hide_undoc
        self.ents = []  # dict(path, words, verdict, page, parent_page, kind)

    @staticmethod
    def eff(display):
        return [] if "none" in display else display

    def shown(self, access, container_display, doc):
        if self.hu and not words_of(doc):
            return False
        return access in self.eff(container_display)


def plan(files, rng, project_display, proc_internals, hide_undoc, pulled):
    """Walk the model, insert metadata overrides, and compute verdicts."""
    sel = Sel(project_display, proc_internals, hide_undoc)
    E = sel.ents

    cur = {"file_override": False}

    tinfo = {}  # type name -> visibility, effective display, parent type

    def ent(path, doc, verdict, kind, page=None, parent_page=None, **extra):
        E.append({"path": path, "words": words_of(doc), "verdict": verdict, "kind": kind, "page": page, "parent_page": parent_page,
                  "file_override": cur["file_override"], **extra})

    def do_type(t, path, access_default, cont_display, parent_visible, parent_page, module_level, stmt_access):
        acc = t.access or stmt_access.get(t.name.lower()) or access_default
        vis = parent_visible and sel.shown(acc, cont_display, t.doc)
        tdisp = cont_display
        ov = None
        if rng.random() < 0.15 and t.doc:
            ov = add_override(rng, t.doc, "display")
            if ov and set(ov) & {"public", "private", "protected", "none"}:
                tdisp = ov
        page = f"type/{t.name.lower()}.html" if module_level else None
        verdict = "show" if vis else "hide"
        if t.name.lower() in pulled["extended_types"] and not vis:
            verdict = "either"
        ent(path + "/type:" + t.name, t.doc, verdict, "type", page if vis else None, parent_page)
        tinfo[t.name.lower()] = {"vis": vis, "tdisp": tdisp, "extends": (t.extends or "").lower()}
        cdef = "private" if t.private_components else "public"
        for c in t.components:
            cacc = c.access or cdef
            cv = vis and sel.shown(cacc, tdisp, c.doc)
            v = "show" if cv else "hide"
            if t.name.lower() in pulled["extended_types"] and not cv:
                v = "either"  # inherited public components are rendered with the extending type: refined after the walk
            ent(path + f"/type:{t.name}/component:{c.name}", c.doc, v, "component", None, page if (vis and page) else parent_page,
                inherit=(t.name.lower(), cacc, bool(words_of(c.doc))))
        bdef = "private" if t.private_bindings else "public"
        for b in t.bindings:
            bacc = b.access or bdef
            bv = vis and sel.shown(bacc, tdisp, b.doc)
            v = "show" if bv else "hide"
            if t.name.lower() in pulled["extended_types"] and not bv:
                v = "either"
            ent(path + f"/type:{t.name}/binding:{b.name}", b.doc, v, "binding", None, page if (vis and page) else parent_page)

    def do_proc(p, path, access, cont_display, parent_visible, parent_page, has_page, kind="proc"):
        vis = parent_visible and (access is None or sel.shown(access, cont_display, p.doc))
        pdisp = cont_display
        pi = sel.pi
        if p.doc and rng.random() < 0.12:
            ov = add_override(rng, p.doc, "display")
            if ov:
                pdisp = ov
        elif p.doc and rng.random() < 0.12:
            pi = add_override(rng, p.doc, "proc_internals")
        page = f"proc/{p.name.lower()}.html" if has_page else None
        if kind in ("ifacebody", "absinterface"):
            page = f"interface/{p.name.lower()}.html" if has_page else None
        verdict = "show" if vis else "hide"
        if p.name.lower() in pulled["procs"]:
            verdict = "either" if not vis else "show"
        ent(path + f"/{kind}:{p.name}", p.doc, verdict, kind, page if vis else None, parent_page)
        mypage = page if (vis and page) else parent_page
        # dummy arguments / result are part of the procedure
        for a in p.args:
            ent(path + f"/{kind}:{p.name}/arg:{a.name}", a.doc, "show" if vis else ("either" if p.name.lower() in pulled["procs"] else "hide"), "arg", None, mypage)
        if p.result is not None and not p.ret_on_prefix:
            ent(path + f"/{kind}:{p.name}/result", p.result.doc, "show" if vis else ("either" if p.name.lower() in pulled["procs"] else "hide"), "result", None, mypage)
        if p.is_interface_body or kind in ("ifacebody", "absinterface"):
            return
        inner_vis = vis and pi
        for v in p.locals:
            lv = inner_vis and sel.shown("public", pdisp, v.doc)
            verdict = "show" if lv else ("hide" if not (p.name.lower() in pulled["procs"] and not vis) else "either")
            if verdict == "show" and not has_page:
                verdict = "either"  # internal procedures are summarised on their host's page without their locals
            ent(path + f"/{kind}:{p.name}/variable:{v.name}", v.doc, verdict, "variable", None, mypage)
        for t in p.types:
            do_type(t, path + f"/{kind}:{p.name}", "public", pdisp, inner_vis, mypage, False, {})
        for c in p.contains:
            do_proc(c, path + f"/{kind}:{p.name}", "public", pdisp, inner_vis, mypage, False)

    for f in files:
        fdisp = project_display
        fpage = None
        cur["file_override"] = False
        # file-level override
        if f.doc and rng.random() < 0.35:
            ov = add_override(rng, f.doc, "display")
            if ov:
                ov2 = [x for x in ov if x != "none"]
                if ov2:
                    fdisp = ov2
                    cur["file_override"] = sorted(Sel.eff(ov2)) != sorted(Sel.eff(project_display))
        ent("file:" + f.name, f.doc, "show", "file", None, None)
        for u in f.units:
            if isinstance(u, Proc):
                do_proc(u, "file:" + f.name, None, fdisp, True, None, True)
                continue
            udisp = fdisp
            if u.doc and rng.random() < 0.25:
                ov = add_override(rng, u.doc, "display")
                if ov:
                    udisp = ov
            upage = {"module": "module", "submodule": "module", "program": "program", "blockdata": "blockdata"}[u.kind] + f"/{(u.name or '__unnamed__').lower()}.html"
            upath = f"file:{f.name}/{u.kind}:{u.name}"
            ent(upath, u.doc, "show", u.kind, upage, None)
            is_mod = u.kind == "module"
            dperm = "public"
            stmt_access = {}
            for acc, names in u.access_stmts:
                for n in names:
                    stmt_access[n.lower()] = acc
            for v in u.vars:
                acc = (v.access or stmt_access.get(v.name.lower()) or dperm) if is_mod else "public"
                ent(upath + f"/variable:{v.name}", v.doc, "show" if sel.shown(acc, udisp, v.doc) else "hide", "variable", None, upage)
            for t in u.types:
                do_type(t, upath, dperm, udisp, True, upage, True, stmt_access)
            for it in u.interfaces:
                if it.kind == "generic":
                    acc = it.access or stmt_access.get(it.name.lower()) or dperm
                    vis = sel.shown(acc, udisp, it.doc)
                    nm = it.name.lower()
                    page = f"interface/{nm}.html" if re.match(r"^\w+$", nm) else None
                    if nm in {t.name.lower() for t in u.types}:
                        # a constructor is rendered with its type and takes the type's accessibility: not judged here
                        ent(upath + f"/interface:{it.name}", it.doc, "either", "interface", None, upage)
                        continue
                    ent(upath + f"/interface:{it.name}", it.doc, "show" if vis else "hide", "interface", page if vis else None, upage)
                else:
                    k = "absinterface" if it.kind == "abstract" else "ifacebody"
                    for b in it.bodies:
                        acc = b.access or it.access or stmt_access.get(b.name.lower()) or dperm
                        if b.name.lower() in pulled["absints"]:
                            ent(upath + f"/{k}:{b.name}", b.doc, "either", k, None, upage)
                            continue
                        do_proc(b, upath, acc, udisp, True, upage, True, kind=k)
            for p in u.procs:
                acc = (stmt_access.get(p.name.lower()) or dperm) if is_mod else "public"
                do_proc(p, upath, acc, udisp, True, upage, is_mod or u.kind == "program" and False or is_mod)
    # inherited components: a public component of P is listed with every type that extends P (transitively) and is then filtered by
    # *that* type's display; if neither P nor any visible descendant selects it, it must be documented nowhere
    def descendants(name):
        out, todo = [], [name]
        while todo:
            n = todo.pop()
            for k, i in tinfo.items():
                if i["extends"] == n and k not in out:
                    out.append(k)
                    todo.append(k)
        return out

    for e in E:
        inh = e.get("inherit")
        if not inh or e["verdict"] != "either":
            continue
        tname, cacc, has_doc = inh
        shown_below = cacc == "public" and any(tinfo[d]["vis"] and sel.shown("public", tinfo[d]["tdisp"], ["zq0w0x0"] if has_doc else []) for d in descendants(tname))
        if not shown_below:
            e["verdict"] = "hide"
            e["inherited_case"] = True
    return sel


def _strip(p):
    p.namelists, p.commons = [], []
    for c in p.contains:
        _strip(c)


def neutralise(files):
    """Restrict the generated model to what the selection model covers."""
    pulled = {"procs": set(), "absints": set(), "extended_types": set()}
    for f in files:
        for u in f.units:
            if not isinstance(u, Unit):
                _strip(u)
                continue
            for p in u.procs:
                _strip(p)
            u.default_access = None
            u.enums, u.commons, u.namelists = [], [], []
            for p in u.procs:
                p.namelists, p.commons = [], []
                for c in p.contains:
                    c.namelists, c.commons = [], []
            for t in u.types:
                for b in t.bindings:
                    pulled["procs"].add((b.target or b.name).lower())
                    if b.deferred_iface:
                        pulled["absints"].add(b.deferred_iface.lower())
                for fn in t.finals:
                    pulled["procs"].add(fn.lower())
                if t.extends:
                    pulled["extended_types"].add(t.extends.lower())
            for it in u.interfaces:
                for m in it.modprocs:
                    pulled["procs"].add(m.lower())
            for v in u.vars:
                if v.ts.base == "procedure" and v.ts.proto:
                    pulled["absints"].add(v.ts.proto.lower())
    return pulled


def separate_procs(sel, seed, project_display, proc_internals, hide_undoc):
    """A hand-shaped extra file: module with separate-module-procedure interfaces, private entities that its documentation names in
    [[...]] references, and a submodule with the three implementation spellings, each with documented internals."""
    S = seed % 100000
    k = [0]

    def W():
        k[0] += 1
        return f"zq9{S:05d}w{k[0]}x0"

    D = Sel.eff(project_display)
    mod, sub = f"spm{S}", f"spi{S}"
    E = sel.ents

    def ent(path, words, verdict, kind, page=None, parent_page=None):
        E.append({"path": path, "words": words, "verdict": verdict, "kind": kind, "page": page, "parent_page": parent_page, "file_override": False, "extra_unit": True})

    L = [f"module {mod}"]
    w = W()
    L.append(f"!! {w} see [[spriv{S}]] and [[sptyp{S}]] and [[sppub{S}]]")
    ent(f"file:sp/module:{mod}", [w], "show", "module", f"module/{mod}.html", None)
    L += ["implicit none", f"private :: spriv{S}, sptyp{S}, spriv_impl{S}"]
    w = W()
    L += [f"type :: sptyp{S}", f"!! {w}", "integer :: c", f"end type sptyp{S}"]
    ent(f"file:sp/module:{mod}/type:sptyp{S}", [w], "show" if "private" in D else "hide", "type", f"type/sptyp{S}.html" if "private" in D else None, f"module/{mod}.html")
    w, wc = W(), W()
    wb = W()
    # (a binding whose comment names its private implementation: a link only if that procedure has a page)
    L += [f"type :: spct{S}", f"!! {w}", "integer :: v", "contains", f"procedure :: sprun => spriv_impl{S}", f"!! {wb} see [[spriv_impl{S}]] and [[spct{S}:sprun]]", f"end type spct{S}", f"interface spct{S}", f"!! {wc}", f"module procedure spnew{S}", "end interface", f"private :: spnew{S}"]
    ent(f"file:sp/module:{mod}/type:spct{S}", [w], "show" if "public" in D else "hide", "type", f"type/spct{S}.html" if "public" in D else None, f"module/{mod}.html")
    ent(f"file:sp/module:{mod}/interface:spct{S}", [wc], "either", "interface", None, f"module/{mod}.html")
    L.append("interface")
    impl = []
    for nm, form in ((f"spa{S}", "subroutine"), (f"spb{S}", "procedure"), (f"spf{S}", "function")):
        w = W()
        if form == "function":
            L += [f"module function {nm}(x) result(r)", f"!! {w}", "integer, intent(in) :: x", "integer :: r", "end function"]
        else:
            L += [f"module subroutine {nm}({'x' if form == 'subroutine' else ''})", f"!! {w}"] + (["integer, intent(in) :: x"] if form == "subroutine" else []) + ["end subroutine"]
        ent(f"file:sp/module:{mod}/mpiface:{nm}", [w], "either", "mpiface")
        wi, wl, wn = W(), W(), W()
        head = {"subroutine": f"module subroutine {nm}(x)", "procedure": f"module procedure {nm}", "function": f"module function {nm}(x) result(r)"}[form]
        impl += [head, f"!! {wi}"] + (["integer, intent(in) :: x"] if form != "procedure" else []) + (["integer :: r"] if form == "function" else [])
        impl += [f"integer :: loc_{nm}", f"!! {wl}"] + (["r = x"] if form == "function" else []) + [f"call inner_{nm}()", "contains", f"subroutine inner_{nm}()", f"!! {wn}", f"end subroutine inner_{nm}"]
        impl += [{"subroutine": f"end subroutine {nm}", "procedure": f"end procedure {nm}", "function": f"end function {nm}"}[form]]
        # the body is an entity of the submodule, private like everything in a submodule: its own text is selected only with `private`
        ent(f"file:sp/submodule:{sub}/mpimpl:{nm}", [wi], "either" if "private" in D else "hide", "mpimpl")
        internals_may_show = proc_internals and "private" in D  # (entities inside a submodule inherit its private default)
        ent(f"file:sp/submodule:{sub}/mpimpl:{nm}/variable:loc_{nm}", [wl], "either" if internals_may_show else "hide", "variable")
        ent(f"file:sp/submodule:{sub}/mpimpl:{nm}/proc:inner_{nm}", [wn], "either" if internals_may_show else "hide", "proc_internal")
    L.append("end interface")
    L.append("contains")
    w = W()
    L += [f"subroutine spriv_impl{S}(self)", f"!! {w}", f"class(spct{S}), intent(in) :: self", f"end subroutine spriv_impl{S}"]
    ent(f"file:sp/module:{mod}/proc:spriv_impl{S}", [w], "show" if "private" in D else "either", "proc", f"proc/spriv_impl{S}.html" if "private" in D else None, f"module/{mod}.html")
    ent(f"file:sp/module:{mod}/type:spct{S}/binding:sprun", [wb], "show" if "public" in D else "hide", "binding", None, f"type/spct{S}.html" if "public" in D else f"module/{mod}.html")
    w = W()
    L += [f"subroutine spriv{S}()", f"!! {w}", f"end subroutine spriv{S}"]
    ent(f"file:sp/module:{mod}/proc:spriv{S}", [w], "show" if "private" in D else "hide", "proc", f"proc/spriv{S}.html" if "private" in D else None, f"module/{mod}.html")
    w = W()
    L += [f"subroutine sppub{S}()", f"!! {w}", f"end subroutine sppub{S}"]
    ent(f"file:sp/module:{mod}/proc:sppub{S}", [w], "show" if "public" in D else "hide", "proc", f"proc/sppub{S}.html" if "public" in D else None, f"module/{mod}.html")
    # a public type whose constructor (generic interface of the same name) has a private specific function with a two-paragraph comment:
    # rendered with the type; a link to the specific's own page only if that page exists (checked by the link monitor)
    w1, w2 = W(), W()
    L += [f"function spnew{S}(v) result(r)", f"!! {w1}", "!!", f"!! {w2}", "integer, intent(in) :: v", f"type(spct{S}) :: r", "r%v = v", f"end function spnew{S}"]
    ent(f"file:sp/module:{mod}/proc:spnew{S}", [w1, w2], "show" if "private" in D else "either", "proc", f"proc/spnew{S}.html" if "private" in D else None, f"module/{mod}.html")
    L.append(f"end module {mod}")
    # another module with a generic interface named like the public procedure above (two pages of one name in two directories)
    w, w2 = W(), W()
    L += [f"module spo{S}", f"!! {W()}", "implicit none", f"interface sppub{S}", f"!! {w}", f"module procedure spspec{S}", "end interface", "contains",
          f"subroutine spspec{S}(x)", f"!! {w2}", "integer, intent(in) :: x", f"end subroutine spspec{S}", f"end module spo{S}"]
    ent(f"file:sp/module:spo{S}/interface:sppub{S}", [w], "show" if "public" in D else "hide", "interface", f"interface/sppub{S}.html" if "public" in D else None, f"module/spo{S}.html")
    ent(f"file:sp/module:spo{S}/proc:spspec{S}", [w2], "show" if "public" in D else "hide", "proc", f"proc/spspec{S}.html" if "public" in D else None, f"module/spo{S}.html")
    w = W()
    L += [f"submodule ({mod}) {sub}", f"!! {w}", "implicit none", "contains"] + impl + [f"end submodule {sub}"]
    ent(f"file:sp/submodule:{sub}", [w], "either", "submodule")
    return "\n".join(L) + "\n"


def run_case(item):
    return site.run_in_process(item["root"])


def case(seed):
    rng = random.Random(seed)
    files = genmodels.gen_project(seed, docs=True, nfiles=rng.randint(1, 3), features={"submodules": False, "blockdata": False})
    # drop programs' commons etc. and make every module default-public
    pulled = neutralise(files)
    project_display = rng.choice(DISPLAYS)
    proc_internals = rng.random() < 0.5
    hide_undoc = rng.random() < 0.4
    incl_src = rng.random() < 0.4
    sel = plan(files, rng, project_display, proc_internals, hide_undoc, pulled)
    base = core.mktemp("vf_c05_")
    try:
        src = os.path.join(base, "src")
        os.makedirs(src)
        texts = {}
        st_ = fgen.Style(seed + 4)
        fnk = 0
        for f in files:
            stmts = fgen.render_file(f, st_)
            # some comments keep their last line in a Markdown footnote (the words stay the entity's own, wherever the note is rendered)
            for sm in stmts:
                if len(sm.docs) >= 2 and sm.kind != "filedoc" and not any(":" in d or not d.strip() for d in sm.docs) and rng.random() < 0.3:
                    fnk += 1
                    sm.docs = [sm.docs[0] + f"[^fn{fnk}]"] + list(sm.docs[1:-1]) + ["", f"[^fn{fnk}]: " + sm.docs[-1]]
            t = layout.Layout(seed, plain=True).free(stmts)
            texts[f.name] = t
            open(os.path.join(src, f.name + ".f90"), "w").write(t)
        if seed % 3 != 0:
            texts["zz_separate"] = separate_procs(sel, seed, project_display, proc_internals, hide_undoc)
            open(os.path.join(src, "zz_separate.f90"), "w").write(texts["zz_separate"])
        if seed % 2:
            # a public type between private types (parent, component types): its graphs name them, with or without pages to link to
            texts["zz_shapes"] = "\n".join([
                f"module zsh{seed}", "!! doc", "implicit none", "private", f"public :: zcircle{seed}, zpoint{seed}, zstyle{seed}",
                f"type :: zbase{seed}", "!! doc", "integer :: ident = 0", f"end type zbase{seed}", f"type :: zcolour{seed}", "!! doc", "integer :: rgb = 0", f"end type zcolour{seed}",
                f"type :: zpoint{seed}", "!! doc", "real :: x = 0.0", f"end type zpoint{seed}", f"type :: zstyle{seed}", "!! doc", "integer :: width = 1", f"end type zstyle{seed}",
                f"type, extends(zbase{seed}) :: zcircle{seed}", "!! doc", f"type(zpoint{seed}) :: centre", f"type(zstyle{seed}) :: style", f"type(zcolour{seed}) :: colour", f"end type zcircle{seed}",
                f"end module zsh{seed}"]) + "\n"
            open(os.path.join(src, "zz_shapes.f90"), "w").write(texts["zz_shapes"])
        opts = {"project": f"P{seed}", "src_dir": "./src", "output_dir": "./doc", "preprocess": False, "parallel": 0, "graph": rng.random() < 0.4,
                "search": True, "display": project_display, "proc_internals": proc_internals, "hide_undoc": hide_undoc, "incl_src": incl_src, "quiet": True}
        if opts["graph"] and rng.random() < 0.7:
            opts["graph_maxnodes"] = rng.choice([1, 2, 3])  # small: graphs are rendered as tables of links
        site.write_project_file(base, opts)
        st, r = core.run_alone(run_case, {"root": base}, timeout=300)
        cfg = {"display": ",".join(project_display), "proc_internals": proc_internals, "hide_undoc": hide_undoc, "incl_src": incl_src}
        if st != "ok" or r["outcome"] != "ok":
            d = r if st == "ok" else {"harness": st, "detail": str(r)[-600:]}
            return {"viol": [{"kf": {"kind": "ford_run_failed" if st == "ok" else "harness_" + st, "message": str(d.get("error") or d.get("code") or "")[:80]},
                              "w": {"seed": seed, "config": cfg, "detail": d, "files": texts}}], "n": {}, "cfg": cfg, "nontrivial": False, "hash": core.h(texts), "sample": None}
        out = os.path.join(base, "doc")
        s = site.parse_site(out)
    finally:
        shutil.rmtree(base, ignore_errors=True)
    viol = []
    # where does each tracer word occur?
    where = {}
    for rel, info in s["pages"].items():
        if rel.startswith("sourcefile/"):
            continue  # raw listing + file docs
        for w in set(WORD_RE.findall(info["text"])):
            where.setdefault(w, set()).add(rel)
    for rec in s["search"]:
        if str(rec.get("url", "")).startswith("sourcefile/"):
            continue
        for w in set(WORD_RE.findall(rec.get("text", ""))):
            where.setdefault(w, set()).add("search:" + str(rec.get("url")))
    # group shared words (multi-entity declarations share a doc comment)
    byword = {}
    for e in sel.ents:
        for w in e["words"]:
            byword.setdefault(w, []).append(e)
    counts = {"show": 0, "hide": 0, "either": 0}
    seen_kf = set()
    for e in sel.ents:
        counts[e["verdict"]] += 1
        if not e["words"]:
            continue
        sharers = [x for w in e["words"] for x in byword[w]]
        if e["verdict"] == "hide":
            if any(x["verdict"] != "hide" for x in sharers):
                continue
            leaked = sorted({p for w in e["words"] for p in where.get(w, ())})
            if leaked:
                kf = {"kind": "unselected_entity_documented", "file_level_display_override": e["file_override"], "entity": e["kind"], "where": "search_index" if all(p.startswith("search:") for p in leaked) else leaked[0].split("/")[0], **cfg}
                k = json.dumps(kf, sort_keys=True)
                if k not in seen_kf:
                    seen_kf.add(k)
                    viol.append({"kf": kf, "w": {"seed": seed, "entity": e["path"], "words": e["words"][:3], "found_on": leaked[:6], "config": cfg, "files": texts}})
        elif e["verdict"] == "show":
            pp = e["page"] or e["parent_page"]
            ok_parent = True
            if e["parent_page"] and e["parent_page"] in s["pages"]:
                ok_parent = all(e["parent_page"] in where.get(w, ()) for w in e["words"][:1]) or e["kind"] in ("file",)
            ok_own = True
            if e["page"]:
                ok_own = e["page"] in s["pages"] and all(e["page"] in where.get(w, ()) for w in e["words"][:1])
            if not (ok_parent and ok_own):
                kf = {"kind": "selected_entity_not_documented", "file_level_display_override": e["file_override"], "entity": e["kind"], "missing": "own_page" if not ok_own else "on_parent_page", **cfg}
                k = json.dumps(kf, sort_keys=True)
                if k not in seen_kf:
                    seen_kf.add(k)
                    viol.append({"kf": kf, "w": {"seed": seed, "entity": e["path"], "page": e["page"], "parent_page": e["parent_page"], "words": e["words"][:3],
                                                 "found_on": sorted({p for w in e["words"] for p in where.get(w, ())})[:6], "config": cfg, "files": texts}})
    # anchors: every displayed entity has an element id on the page of its parent, hidden ones must not
    allids = {}
    for rel, info in s["pages"].items():
        for i in info["ids"]:
            allids.setdefault(i.lower(), set()).add(rel)
    prefix = {"variable": "variable", "component": "variable", "binding": "boundprocedure", "type": "type", "proc": "proc", "interface": "interface",
              "absinterface": "interface", "ifacebody": "interface"}
    for e in sel.ents:
        pf = prefix.get(e["kind"])
        if not pf or e["verdict"] == "either":
            continue
        name = e["path"].rsplit(":", 1)[-1].lower()
        if not re.match(r"^\w+$", name):
            continue
        present = sorted(allids.get(f"{pf}-{name}", ()))
        if e["verdict"] == "hide" and present:
            kf = {"kind": "unselected_entity_has_anchor", "file_level_display_override": e["file_override"], "entity": e["kind"], "documented": bool(e["words"]), **cfg}
            k = json.dumps(kf, sort_keys=True)
            if k not in seen_kf:
                seen_kf.add(k)
                viol.append({"kf": kf, "w": {"seed": seed, "entity": e["path"], "anchor": f"{pf}-{name}", "pages": present[:5], "config": cfg, "files": texts}})
        if e["verdict"] == "show" and not present and e["kind"] in ("variable", "component", "binding", "type"):
            kf = {"kind": "selected_entity_has_no_anchor", "file_level_display_override": e["file_override"], "entity": e["kind"], "documented": bool(e["words"]), **cfg}
            k = json.dumps(kf, sort_keys=True)
            if k not in seen_kf:
                seen_kf.add(k)
                viol.append({"kf": kf, "w": {"seed": seed, "entity": e["path"], "anchor": f"{pf}-{name}", "config": cfg, "files": texts}})
    problems, nlinks = site.check_links(s, "doc")
    for p in problems:
        if p["why"] == "missing_target":
            kf = {"kind": "link_to_page_not_generated", "target_dir": p["url"].replace("../", "").split("/")[0], **cfg}
            k = json.dumps(kf, sort_keys=True)
            if k not in seen_kf:
                seen_kf.add(k)
                viol.append({"kf": kf, "w": {"seed": seed, "problem": p, "config": cfg, "files": texts}})
    nontrivial = counts["show"] >= 1 and counts["hide"] >= 1
    return {"viol": viol, "n": counts, "cfg": cfg, "nontrivial": nontrivial, "hash": core.h([texts, cfg]),
            "sample": {"seed": seed, "config": cfg, "verdicts": counts, "pages": len(s["pages"]), "example_hidden": [e["path"] for e in sel.ents if e["verdict"] == "hide" and e["words"]][:4]}}


def main():
    run = core.Run(
        PID,
        rule="case = generated program (default-public modules; types with components/bindings; generic/abstract/explicit interfaces; "
        "procedures with locals, local types and internal procedures; programs; external procedures; documented/undocumented mix) x project "
        "display in {public; public,protected; public,private; all; none; private; protected,private} x proc_internals x hide_undoc x incl_src, with display / "
        "proc_internals overrides placed in the metadata of files, modules, types and procedures. Each entity's unique tracer words are "
        "searched on every page (source listings excluded) and in every search record. Non-trivial: >=1 must-show and >=1 must-hide entity; "
        "distinct by sources + configuration.",
        assumptions=[
            "three-valued selection model: entities rendered as part of another selected entity (binding targets, generic specifics, finalisers, "
            "deferred prototypes, procedure-pointer interfaces, components/bindings of extended types) are 'either' and not judged",
            "enums, common blocks and namelists are not generated here; submodules only as the hand-shaped separate-module-procedure unit added to two of three cases",
            "source listings (sourcefile/* pages, div.hl) reproduce the raw source by design and are excluded",
        ],
    )
    rp = core.replay_arg()
    if rp:
        w = json.load(open(rp))["witness"]
        r = case(w["seed"])
        known = core.load_known(PID)
        bad = [v for v in r["viol"] if core.match_known(known, v["kf"]) is None]
        print("replay:", "VIOLATION" if bad else "held")
        for v in bad[:10]:
            print(json.dumps({k: x for k, x in v["w"].items() if k != "files"}, default=str)[:500])
        sys.exit(1 if bad else 0)
    n = 2000 if run.tier == "thorough" else 150
    seeds = [run.seed * 100003 + i for i in range(n)]
    results = core.fork_map(case, seeds, per_case_fork=False, case_timeout=400, total_timeout=3400)
    for sd, (st, r) in zip(seeds, results):
        if st != "ok":
            run.inconc(f"{st}: {str(r)[-300:]}")
            continue
        run.case(key=r["hash"], nontrivial=r["nontrivial"], sample=r["sample"] if r["nontrivial"] else None)
        for k, v in r["n"].items():
            run.count("entities_" + k, v)
        run.seen("configurations", json.dumps(r["cfg"], sort_keys=True))
        for v in r["viol"]:
            run.violation(v["kf"], v["w"])
    run.max_samples = 2
    run.finish(floors={"evaluations": 120, "distinct_nontrivial": 80, "entities_show": 2000, "entities_hide": 1000, "configurations": 25})


if __name__ == "__main__":
    main()
