"""C08 - recorded calls are exactly the user procedures a unit invokes.

Runtime monitor: executable parts are generated from a grammar that knows, for every statement it
emits, which user procedures it invokes; the units are parsed and correlated by the real FORD
(forked child) and `unit.calls` is compared with that ground truth (set equality + no duplicates).
A recorder on FortranContainer._add_procedure_calls keeps the statement that introduced each
recorded chain so that a witness names the offending statement form.
"""
from __future__ import annotations

import json
import os
import random
import shutil
import sys

from vf import core

ford = core.setup_env()
from vf import fgen, layout, observe  # noqa: E402

PID = "C08"

INTRINSIC_FUNCS = ["abs", "max", "min", "mod", "int", "size", "sum", "maxval", "len_trim", "iand", "merge", "huge", "sign", "product"]


class G:
    """Statement/expression grammar over a fixed environment; tracks the user procedures invoked."""

    def __init__(self, rng, env):
        self.rng = rng
        self.env = env
        self.forms = set()

    # ---- expressions (integer valued) ----
    def iexpr(self, depth=0):
        rng, e = self.rng, self.env
        r = rng.random()
        calls = set()
        if depth > 3 or r < 0.22:
            return rng.choice(["1", "2", "42", "n", "i", "k", "x", "obj%cnt", "objs(1)%cnt"]), calls
        if r < 0.38:
            a, c = self.iexpr(depth + 1)
            self.forms.add("array_element")
            return f"{rng.choice(e['arrays1'] + e.get('arrays_ro', []))}({a})", c
        if r < 0.44:
            a, c1 = self.iexpr(depth + 1)
            b, c2 = self.iexpr(depth + 1)
            self.forms.add("array_element2")
            return f"mat({a}, {b})", c1 | c2
        if r < 0.66:
            f = rng.choice(e["funcs"])
            a, c = self.iexpr(depth + 1)
            self.forms.add("function_ref" + ("_nested" if depth > 0 else ""))
            sp = rng.choice(["", "", " "])
            return f"{f}{sp}({a})", c | {f.lower()}
        if r < 0.76:
            f = rng.choice(INTRINSIC_FUNCS)
            a, c = self.iexpr(depth + 1)
            self.forms.add("intrinsic_ref")
            if f in ("max", "min", "mod", "iand", "sign"):
                b, c2 = self.iexpr(depth + 1)
                return f"{f}({a}, {b})", c | c2
            if f in ("size", "sum", "maxval", "product"):
                return f"{f}({rng.choice(e['arrays1'])})", set()
            if f == "len_trim":
                return "len_trim(msg)", set()
            if f == "merge":
                b, c2 = self.iexpr(depth + 1)
                return f"merge({a}, {b}, flag)", c | c2
            if f == "huge":
                return "huge(x)", set()
            return f"{f}({a})", c
        if r < 0.84:
            a, c1 = self.iexpr(depth + 1)
            b, c2 = self.iexpr(depth + 1)
            op = rng.choice(["+", "-", "*", "/", "**"])
            return f"({a} {op} {b})", c1 | c2
        if r < 0.90:
            a, c = self.iexpr(depth + 1)
            self.forms.add("typebound_function")
            v = rng.choice(["obj", "objs(2)", "obj%inner"])
            if v == "obj%inner":
                return f"obj%inner%{e['ufn']}({a})", c | {e["ufn"].lower()}
            return f"{v}%{e['tfn']}({a})", c | {e["tfn"].lower()}
        if r < 0.94:
            self.forms.add("component_array_element")
            a, c = self.iexpr(depth + 1)
            return f"obj%vals({a})", c
        self.forms.add("array_constructor_implied_do")
        f = rng.choice(e["funcs"])
        return f"sum([({f}(k), k = 1, 3)])", {f.lower()}

    def lexpr(self):
        a, c1 = self.iexpr(1)
        b, c2 = self.iexpr(1)
        op = self.rng.choice([">", "<", "==", "/=", ".gt.", ".le."])
        t = f"{a} {op} {b}"
        if self.rng.random() < 0.3:
            t = f"({t}) .and. flag"
        return t, c1 | c2

    def literal(self):
        f = self.rng.choice(self.env["funcs"] + self.env["subs"])
        return self.rng.choice([f"'call {f}(x) done'", f"\"{f}(1) + {f}(2)\"", f"'it''s {f}(k)'", f"'! {f}(3) ; call {f}()'"])

    # ---- statements: returns list of lines, calls ----
    def simple(self):
        rng, e = self.rng, self.env
        r = rng.random()
        if r < 0.2:
            a, c = self.iexpr()
            self.forms.add("assignment")
            return [f"x = {a}"], c
        if r < 0.3:
            i, c1 = self.iexpr(2)
            a, c2 = self.iexpr()
            self.forms.add("assignment_to_element")
            return [f"{rng.choice(e['arrays1'])}({i}) = {a}"], c1 | c2
        if r < 0.45:
            s = rng.choice(e["subs_args"])
            a, c = self.iexpr()
            self.forms.add("call_with_args")
            kw = rng.choice(["call", "CALL", "Call"])
            return [f"{kw} {s}({a})"], c | {s.lower()}
        if r < 0.52:
            s = rng.choice(e["subs_noargs"])
            self.forms.add("call_without_arglist")
            return [f"call {s}" + rng.choice(["", "()", " ()"])], {s.lower()}
        if r < 0.58:
            self.forms.add("typebound_call")
            v = rng.choice(["obj", "objs(1)", "obj%inner"])
            if v == "obj%inner":
                return [f"call obj%inner%{e['usub']}()"], {e["usub"].lower()}
            a, c = self.iexpr(1)
            return [f"call {v}%{e['tsub']}({a})"], c | {e["tsub"].lower()}
        if r < 0.66:
            a, c = self.iexpr()
            self.forms.add("print")
            return [rng.choice([f"print *, {a}, {self.literal()}", f"write(*,*) {a}", f"write(unit=6, fmt='(a,i0)') {self.literal()}, {a}",
                                f"write (msg, '(i0)') {a}"])], c
        if r < 0.70:
            self.forms.add("read")
            return [rng.choice(["read(*,*) x", "read (5, *) arr(k)"])], set()
        if r < 0.75:
            a, c = self.iexpr(1)
            self.forms.add("allocate")
            return [f"allocate(dyn({a}), stat=ierr)", "if (allocated(dyn)) deallocate(dyn)"], c
        if r < 0.80:
            self.forms.add("literal_with_call_text")
            return [f"msg = {self.literal()}"], set()
        if r < 0.84:
            self.forms.add("computed_goto")
            lab = e["nextlabel"]()
            return [rng.choice(["go to (10, 20), k", "goto (10,20) k", "GO TO (10, 20, 10) x", "if (k > 0) go to (10, 20), k",
                                f"{lab} go to (10, 20) k", "if (flag) goto (20, 10), x"])], set()
        if r < 0.86:
            self.forms.add("labelled_statement")
            lab = e["nextlabel"]()
            a, c = self.iexpr(1)
            s_ = rng.choice(e["subs_args"])
            if rng.random() < 0.5:
                return [f"{lab} x = {a}"], c
            return [f"{lab} call {s_}({a})"], c | {s_.lower()}
        if r < 0.88:
            self.forms.add("format")
            lab = e["nextlabel"]()
            return [rng.choice([f"{lab} format (a, i0, 3(i4, 1x))", f"{lab} format ('f1(x)', i4)", f"{lab} FORMAT (2(a), f8.3)"])], set()
        if r < 0.92:
            self.forms.add("logical_if_call")
            l, c = self.lexpr()
            s = rng.choice(e["subs_args"])
            a, c2 = self.iexpr(1)
            return [f"if ({l}) call {s}({a})"], c | c2 | {s.lower()}
        if r < 0.96:
            self.forms.add("logical_if_assignment")
            l, c = self.lexpr()
            a, c2 = self.iexpr(1)
            return [f"if ({l}) x = {a}"], c | c2
        if r < 0.975:
            self.forms.add("where_statement")
            a, c = self.iexpr(1)
            return [f"where (arr > {a}) arr = arr + 1"], c
        return self.extra()

    def extra(self):
        """Rarer statement forms."""
        rng, e = self.rng, self.env
        k = rng.choice(["format_tight", "block_decl", "select_type", "labelled_call_noparen", "keyword_args", "arith_if", "io_stmts",
                        "named_do", "implied_do_io", "component_assign", "stop", "concat", "two_calls_in_args", "blank_in_chain",
                        "semicolon_and_other_quote", "semicolon_inside_literal", "associate_selector_starts_with_own_name",
                        "associate_name_means_function_after_block", "several_literals_then_call_text"])
        self.forms.add("extra_" + k)
        if k == "semicolon_and_other_quote":
            s_ = rng.choice(e["subs_noargs"])
            q = rng.choice(['"it\'s done"', "'say \"hi'", '"a\'b\'c\'"'])
            return [f"print *, {q}; call {s_}"], {s_.lower()}
        if k == "semicolon_inside_literal":
            f = rng.choice(e["funcs"])
            return [f"msg = 'say \"'; print *, \"then; call {f}(1)\""], set()
        if k == "associate_name_means_function_after_block":
            # inside the block the name is an array (no call); after END ASSOCIATE it is the host's function again
            f = rng.choice(e["funcs"])
            arr = rng.choice(e["arrays1"])
            return [f"associate ({f} => {arr})", f"x = {f}(1)", "end associate", f"x = {f}(2)"], {f.lower()}
        if k == "several_literals_then_call_text":
            f, g = rng.choice(e["funcs"]), rng.choice(e["funcs"])
            return [f"print *, 'a long literal comes first', '{g}(1)', {f}(2)", f"print *, 'abcd', 'a', {f}(1), 'b'"], {f.lower()}
        if k == "associate_selector_starts_with_own_name":
            return [f"associate (obj => obj%{e['tfn']}(k))", "x = x + 1", "end associate"], {e["tfn"].lower()}
        if k == "format_tight":
            lab = e["nextlabel"]()
            return [f"{lab} format(3(i4, 1x), 2(a))"], set()
        if k == "block_decl":
            a, c = self.iexpr(1)
            return ["block", "integer :: tmpb(3)", "integer :: scal", f"tmpb(1) = {a}", "scal = tmpb(2)", "end block"], c
        if k == "select_type":
            f = rng.choice(e["funcs"])
            return ["select type (po => poly)", "type is (obj_t)", f"x = {f}(po%cnt)", "class is (inner_t)", "x = 2", "class default", "x = 3", "end select"], {f.lower()}
        if k == "labelled_call_noparen":
            lab = e["nextlabel"]()
            s_ = rng.choice(e["subs_noargs"])
            return [f"{lab} call {s_}"], {s_.lower()}
        if k == "keyword_args":
            s_ = rng.choice(e["subs_args"][:-1] or e["subs_args"])
            f = rng.choice(e["funcs"])
            return [f"call {s_}(a={f}(a=k))"], {s_.lower(), f.lower()}
        if k == "arith_if":
            return ["if (x - 1) 10, 20, 10"], set()
        if k == "io_stmts":
            f = rng.choice(e["funcs"])
            return [f"open(unit=11, file='data.txt', iostat=ierr)", f"write(11, '(i0)', iostat=ierr) {f}(k)", "inquire(unit=11, opened=flag)", "rewind(11)", "close(11)"], {f.lower()}
        if k == "named_do":
            f = rng.choice(e["funcs"])
            return [f"outer: do i = 1, {f}(n)", "if (i > 2) exit outer", "cycle outer", "end do outer"], {f.lower()}
        if k == "implied_do_io":
            f = rng.choice(e["funcs"])
            return [f"write(*,*) ({f}(k), arr(k), k = 1, 3)"], {f.lower()}
        if k == "component_assign":
            f = rng.choice(e["funcs"])
            return [f"obj%vals(k) = {f}(obj%vals(1))", f"objs(2)%inner%q = {f}(2)"], {f.lower()}
        if k == "stop":
            return ["if (x < -99999) stop 'bad call f1(x)'", "if (x < -99998) error stop"], set()
        if k == "concat":
            return ["msg = 'res(' // trim(msg) // ')' // \"f(\" // adjustl(msg)"], set()
        if k == "two_calls_in_args":
            s_ = rng.choice(e["subs_args"])
            f, g = rng.choice(e["funcs"]), rng.choice(e["funcs"])
            return [f"call {s_}({f}(1) + {g}({f}(2)))"], {s_.lower(), f.lower(), g.lower()}
        s_ = e["usub"]
        return [f"call obj % inner % {s_} ()", f"x = obj % {e['tfn']} (k)"], {s_.lower(), e["tfn"].lower()}

    def block(self, depth=0):
        rng, e = self.rng, self.env
        lines, calls = [], set()
        for _ in range(rng.randint(1, 4 if depth else 8)):
            r = rng.random()
            if depth < 2 and r < 0.30:
                kind = rng.choice(["if", "dowhile", "do", "select", "associate", "block", "where", "forall", "doconc"])
                self.forms.add("construct_" + kind)
                if kind == "if":
                    l, c = self.lexpr()
                    calls |= c
                    lines.append(f"if ({l}) then")
                    b, c = self.block(depth + 1)
                    lines += b
                    calls |= c
                    if rng.random() < 0.6:
                        l, c = self.lexpr()
                        calls |= c
                        lines.append(rng.choice(["else if", "elseif", "ELSE IF"]) + f" ({l}) then")
                        b, c = self.block(depth + 1)
                        lines += b
                        calls |= c
                    if rng.random() < 0.5:
                        lines.append("else")
                        b, c = self.block(depth + 1)
                        lines += b
                        calls |= c
                    lines.append(rng.choice(["end if", "endif"]))
                elif kind == "dowhile":
                    l, c = self.lexpr()
                    calls |= c
                    lines.append(f"do while ({l})")
                    b, c = self.block(depth + 1)
                    lines += b + ["exit", rng.choice(["end do", "enddo"])]
                    calls |= c
                elif kind == "do":
                    a, c = self.iexpr(1)
                    calls |= c
                    lines.append(f"do i = 1, {a}")
                    b, c = self.block(depth + 1)
                    lines += b + ["end do"]
                    calls |= c
                elif kind == "select":
                    a, c = self.iexpr(1)
                    calls |= c
                    lines.append(f"select case ({a})")
                    lines.append("case (1)")
                    b, c = self.block(depth + 1)
                    lines += b
                    calls |= c
                    lines.append("case (2:5)")
                    b, c = self.block(depth + 1)
                    lines += b
                    calls |= c
                    lines.append("case default")
                    lines.append("continue")
                    lines.append("end select")
                elif kind == "associate":
                    a, c = self.iexpr(1)
                    calls |= c
                    nm = e["nextassoc"]()
                    lines.append(f"associate ({nm} => {a}, o{nm} => obj)")
                    lines.append(f"x = {nm} + 1")
                    if rng.random() < 0.7:
                        lines.append(f"call o{nm}%{e['tsub']}(x)")
                        calls.add(e["tsub"].lower())
                        self.forms.add("typebound_call_via_association")
                    b, c = self.block(depth + 1)
                    lines += b + ["end associate"]
                    calls |= c
                elif kind == "block":
                    lines.append(rng.choice(["block", "blk: block"]) if False else "block")
                    b, c = self.block(depth + 1)
                    lines += b + ["end block"]
                    calls |= c
                elif kind == "where":
                    a, c = self.iexpr(1)
                    calls |= c
                    lines += [f"where (arr > {a})", "arr = arr - 1", "elsewhere", "arr = 0", "end where"]
                elif kind == "forall":
                    f = rng.choice(e["funcs"])
                    calls.add(f.lower())
                    lines += [f"forall (k = 1:10) arr(k) = {f}(k)"]
                else:
                    f = rng.choice(e["funcs"])
                    calls.add(f.lower())
                    lines += ["do concurrent (k = 1:10)", f"arr(k) = {f}(arr(k))", "end do"]
            else:
                l, c = self.simple()
                lines += l
                calls |= c
        return lines, calls


NAME_POOLS = {
    "funcs": ["fq{}", "sum{}", "my_sum{}", "isize{}", "maxi{}", "abs_val{}", "iff{}", "func_{}", "get{}", "realpart{}"],
    "subs": ["sq{}", "printx{}", "callme{}", "do_it{}", "format{}x", "setup{}", "writeit{}"],
}


def build_project(seed):
    rng = random.Random(seed)
    n = [0]

    def nm(pool):
        n[0] += 1
        s = rng.choice(NAME_POOLS[pool]).format(n[0])
        return rng.choice([s, s.capitalize(), s.upper()]) if rng.random() < 0.3 else s

    funcs = [nm("funcs") for _ in range(rng.randint(2, 5))]
    subs_args = [nm("subs") for _ in range(rng.randint(1, 3))]
    subs_noargs = [nm("subs") for _ in range(rng.randint(1, 2))]
    ext_sub = nm("subs")  # a procedure defined outside the project: kept by name
    ext_fn = nm("funcs")
    tfn, tsub, ufn, usub = f"tfn{seed % 97}", f"tsub{seed % 97}", f"ufn{seed % 97}", f"usub{seed % 97}"
    labels = [100]
    assoc = [0]

    def nextlabel():
        labels[0] += 10
        return labels[0]

    def nextassoc():
        assoc[0] += 1
        return f"az{assoc[0]}"

    env = {"funcs": funcs, "subs": subs_args + subs_noargs, "subs_args": subs_args + [ext_sub], "subs_noargs": subs_noargs,
           "arrays1": ["arr", "dyn", "arr_arg"], "tfn": tfn, "tsub": tsub, "ufn": ufn, "usub": usub,
           "nextlabel": nextlabel, "nextassoc": nextassoc}
    mod = f"cmod{seed % 1000}"
    L = []
    L.append(f"module {mod}")
    L.append("implicit none")
    L += ["type :: inner_t", "integer :: q = 0", "contains", f"procedure :: {ufn} => impl_{ufn}", f"procedure :: {usub} => impl_{usub}", "end type inner_t"]
    # PROTECTED module arrays (attribute / separate statement): elements of them are referenced wherever the module is used
    L += ["integer, protected :: hist(10) = 0", "integer :: counts(10) = 0", "protected :: counts"]
    env["arrays_ro"] = ["hist", "counts"]
    L += ["type :: obj_t", "integer :: cnt = 0", "integer :: vals(5) = 0", "type(inner_t) :: inner", "contains",
          f"procedure :: {tfn} => impl_{tfn}", f"procedure :: {tsub} => impl_{tsub}", "end type obj_t"]
    L.append("contains")
    # two early siblings without local variables: one holds an internal function named like a module array, the other imports a variable
    # named like a module function - what they do to their own name tables must stay theirs
    if rng.random() < 0.6:
        forms_extra = True
        L += [f"subroutine aa_first{seed % 1000}()", "contains", "integer function hist(i)", "integer, intent(in) :: i", "hist = i", "end function hist", f"end subroutine aa_first{seed % 1000}",
              f"subroutine aa_second{seed % 1000}()", f"use cvars{seed % 1000}, only: {funcs[0]}", f"end subroutine aa_second{seed % 1000}"]
        extra_files = {f"cvars{seed % 1000}.f90": [f"module cvars{seed % 1000}", "implicit none", f"integer :: {funcs[0]}(5) = 0", f"end module cvars{seed % 1000}"]}
    else:
        forms_extra, extra_files = False, {}
    for f in funcs:
        L += [f"integer function {f}(a)", "integer, intent(in) :: a", f"{f} = a + 1", f"end function {f}"]
    for s in subs_args:
        L += [f"subroutine {s}(a)", "integer, intent(in) :: a", f"end subroutine {s}"]
    for s in subs_noargs:
        L += [f"subroutine {s}()", f"end subroutine {s}"]
    L += [f"integer function impl_{ufn}(self, a)", "class(inner_t), intent(in) :: self", "integer, intent(in) :: a", f"impl_{ufn} = a", "end function"]
    L += [f"subroutine impl_{usub}(self)", "class(inner_t), intent(inout) :: self", "end subroutine"]
    L += [f"integer function impl_{tfn}(self, a)", "class(obj_t), intent(in) :: self", "integer, intent(in) :: a", f"impl_{tfn} = a", "end function"]
    L += [f"subroutine impl_{tsub}(self, a)", "class(obj_t), intent(inout) :: self", "integer, intent(in) :: a", "end subroutine"]
    # the units under test
    units = {}
    decls = ["integer :: i, k, x, ierr", "integer :: arr(10), mat(3,3)", "integer, allocatable :: dyn(:)", "type(obj_t) :: obj, objs(2)",
             "character(len=40) :: msg", "logical :: flag", "real :: r", "class(obj_t), allocatable :: poly"]
    forms = set()
    kinds = rng.sample(["modsub", "modfunc", "internal", "program", "external"], rng.randint(2, 4))
    prog_lines, ext_lines = [], []
    for kd in kinds:
        uenv = dict(env)
        udecls = []
        if kd in ("modsub", "internal") and len(funcs) > 2 and rng.random() < 0.5:
            # a local array with the name of a host-associated module function: references are array elements
            shadow = rng.choice(funcs)
            uenv["funcs"] = [f for f in funcs if f != shadow]
            uenv["arrays1"] = env["arrays1"] + [shadow]
            udecls = [f"integer :: {shadow}(10)"]
            forms.add("local_array_shadows_module_function")
        # a local array named like an attribute keyword: `value(i) = f(x)` is an assignment
        kwarr = rng.choice(["value", "target", "save", "pointer", "volatile", "optional", "allocatable", "contiguous"])
        uenv["arrays1"] = list(uenv["arrays1"]) + [kwarr]
        udecls = udecls + [f"integer :: {kwarr}(10)"]
        # an external function: typed by a declaration, EXTERNAL by attribute or by a separate statement
        if kd != "internal":
            uenv["funcs"] = list(uenv["funcs"]) + [ext_fn]
            udecls = udecls + rng.choice([[f"integer, external :: {ext_fn}"], [f"integer :: {ext_fn}", f"external {ext_fn}"], [f"integer :: {ext_fn}", f"external :: {ext_fn}"]])
            forms.add("external_function_declared_in_unit")
        g = G(rng, uenv)
        body, calls = g.block()
        body += ["10 continue", "20 continue"]
        forms |= g.forms
        uname = f"unit_{kd}{seed % 1000}"
        if kd == "modsub":
            L += [f"subroutine {uname}(n, arr_arg)", "integer, intent(in) :: n", "integer, intent(inout) :: arr_arg(:)"] + decls + udecls + body + [f"end subroutine {uname}"]
        elif kd == "modfunc" and rng.random() < 0.5:
            L += [f"function {uname}(n, arr_arg) result(res)", "integer, intent(in) :: n", "integer, intent(inout) :: arr_arg(:)", "integer :: res(3)"] + decls + udecls + body + ["res(1) = x", f"end function {uname}"]
        elif kd == "modfunc":
            # array-valued function without RESULT clause: uname(i) = ... assigns to the result variable
            forms.add("array_result_without_result_clause")
            L += [f"function {uname}(n, arr_arg)", "integer, intent(in) :: n", "integer, intent(inout) :: arr_arg(:)", f"integer :: {uname}(3)"] + decls + udecls + body + [f"{uname}(1) = x", f"{uname}(2) = {uname}(1) + 1", f"end function {uname}"]
        elif kd == "internal":
            g2 = G(rng, env)
            b2, c2 = g2.block()
            forms |= g2.forms
            host = f"host_{seed % 1000}"
            L += [f"subroutine {host}(n, arr_arg)", "integer, intent(in) :: n", "integer, intent(inout) :: arr_arg(:)"] + decls + udecls + [f"call {uname}()", "contains",
                  f"subroutine {uname}()"] + body + [f"end subroutine {uname}", f"end subroutine {host}"]
            units[host.lower()] = {uname.lower()}
        elif kd == "program":
            prog_lines = [f"program {uname}", f"use {mod}", "implicit none", "integer :: n", "integer :: arr_arg(4)"] + decls + udecls + ["n = 3"] + body + [f"end program {uname}"]
        else:
            ext_lines = [f"subroutine {uname}(n, arr_arg)", f"use {mod}", "implicit none", "integer, intent(in) :: n", "integer, intent(inout) :: arr_arg(:)"] + decls + udecls + body + [f"end subroutine {uname}"]
        units[uname.lower()] = calls
    L.append(f"end module {mod}")
    files = {f"{mod}.f90": L}
    files.update(extra_files)
    if forms_extra:
        forms.add("sibling_without_locals_hides_or_imports_a_host_name")
        units[f"aa_first{seed % 1000}"] = set()
        units[f"aa_second{seed % 1000}"] = set()
    if rng.random() < 0.5:
        # an array that reaches an internal procedure through a module that only re-exports it, USEd nowhere but in that internal
        # procedure; the using module is read (and sorts) before the re-exporting one
        S = seed % 1000
        forms.add("array_via_reexporting_module_used_only_in_internal_procedure")
        files[f"aa_user{S}.f90"] = [f"module aa_user{S}", "implicit none", "contains", f"subroutine outer_fac{S}()", f"call inner_fac{S}()", "contains",
                                    f"subroutine inner_fac{S}()", f"use zz_facade{S}", "integer :: k", "k = ftable(3) + ftable(k)", f"end subroutine inner_fac{S}",
                                    f"end subroutine outer_fac{S}", f"end module aa_user{S}"]
        files[f"zz_facade{S}.f90"] = [f"module zz_facade{S}", f"use zz_tables{S}", "implicit none", f"end module zz_facade{S}"]
        files[f"zz_tables{S}.f90"] = [f"module zz_tables{S}", "implicit none", "integer :: ftable(10) = 0", f"end module zz_tables{S}"]
        units[f"outer_fac{S}"] = {f"inner_fac{S}"}
        units[f"inner_fac{S}"] = set()
    if rng.random() < 0.6:
        # type-bound references through the parent component of a parent component (three modules; the grandparent type's name is not
        # accessible where the leaf type is defined), through a function result whose type the caller cannot name, and a recursive function
        # whose statement puts BIND(C) before RESULT(...)
        S = seed % 1000
        forms.add("grandparent_component_chain_and_function_result_chain")
        files[f"zg_base{S}.f90"] = [f"module zg_base{S}", "implicit none", "type :: zgbase_t", "integer :: gvals(5) = 0", "contains", f"procedure :: greset => impl_greset{S}",
                                    f"procedure :: gtotal => impl_gtotal{S}", "end type zgbase_t", "contains", f"subroutine impl_greset{S}(self)", "class(zgbase_t), intent(inout) :: self",
                                    "self%gvals = 0", f"end subroutine impl_greset{S}", f"integer function impl_gtotal{S}(self)", "class(zgbase_t), intent(in) :: self",
                                    f"impl_gtotal{S} = 1", f"end function impl_gtotal{S}", f"function zgmake{S}() result(w)", "type(zgbase_t) :: w", "w%gvals = 1", f"end function zgmake{S}",
                                    f"end module zg_base{S}"]
        files[f"zg_mid{S}.f90"] = [f"module zg_mid{S}", f"use zg_base{S}", "implicit none", "type, extends(zgbase_t) :: zgmid_t", "integer :: m = 0", "end type zgmid_t", f"end module zg_mid{S}"]
        files[f"zg_leaf{S}.f90"] = [f"module zg_leaf{S}", f"use zg_mid{S}, only: zgmid_t", f"use zg_base{S}, only: zgmake{S}", "implicit none", "type, extends(zgmid_t) :: zgleaf_t", "integer :: l = 0",
                                    "end type zgleaf_t", "contains", f"subroutine zgwork{S}(this)", "class(zgleaf_t), intent(inout) :: this", "integer :: k", "call this%zgbase_t%greset()",
                                    "k = this%zgbase_t%gtotal()", "this%zgbase_t%gvals(2) = k", f"end subroutine zgwork{S}",
                                    f"recursive function cfact{S}(n) bind(c) result(r)", "integer, value :: n", "integer :: r", "if (n <= 1) then", "r = 1", "else", f"r = n * cfact{S}(n - 1)",
                                    "end if", f"end function cfact{S}",
                                    f"subroutine zguser{S}()", f"associate (w => zgmake{S}())", "call w%greset()", "end associate", f"end subroutine zguser{S}", f"end module zg_leaf{S}"]
        units[f"zgwork{S}"] = {"greset", "gtotal"}
        units[f"cfact{S}"] = {f"cfact{S}"}
        units[f"zguser{S}"] = {f"zgmake{S}", "greset"}
    if prog_lines:
        files[f"prog{seed % 1000}.f90"] = prog_lines
    if ext_lines:
        files[f"ext{seed % 1000}.f90"] = ext_lines
    return files, units, sorted(forms)


RECORDED = []


def observe_case(item):
    import ford.sourceform as sf

    orig = sf.FortranContainer._add_procedure_calls

    def rec(self, line, associations=None):
        before = len(self.calls) if hasattr(self, "calls") else 0
        r = orig(self, line, associations) if associations is not None else orig(self, line)
        if hasattr(self, "calls"):
            for ch in self.calls[before:]:
                RECORDED.append((getattr(self, "name", "?"), "%".join(ch) if isinstance(ch, list) else str(ch), line))
        return r

    sf.FortranContainer._add_procedure_calls = rec
    cap = observe.Captured()
    project, cap = observe.parse_and_correlate([item["root"]], cap=cap)
    out = {}

    unresolved = {}
    defined = set()

    def visit(u):
        if hasattr(u, "calls"):
            out[u.name.lower()] = [observe._call_name(c) for c in u.calls]
            unresolved[u.name.lower()] = [observe._call_name(c).split("%")[-1] for c in u.calls if isinstance(c, (str, list, tuple))]
        if type(u).__name__ in ("FortranSubroutine", "FortranFunction"):
            defined.add(u.name.lower())
        for t in getattr(u, "types", []):
            for b in getattr(t, "boundprocs", []):
                defined.add(b.name.lower())
        for attr in ("functions", "subroutines", "modprocedures", "modfunctions", "modsubroutines"):
            for p in getattr(u, attr, []):
                visit(p)

    for f in project.files:
        for attr in ("modules", "submodules", "programs", "functions", "subroutines"):
            for u in getattr(f, attr):
                visit(u)
    diags = [w for w in cap.warnings if "Error parsing" in w] + [l for l in cap.stdout.splitlines() if l.startswith("ERROR in file")]
    return {"calls": out, "unresolved": unresolved, "defined": sorted(defined), "diags": diags[:5], "recorded": [r for r in RECORDED][:4000], "n_add_calls": len(RECORDED)}


def stmt_form(line: str) -> str:
    """Coarse form of the statement that produced a spurious/missing call (for known-finding keys)."""
    l = line.strip().lower()
    import re

    l = re.sub(r"^\d+\s+", "LABEL ", l)
    for kw in ("label format", "format", "associate", "allocate", "if", "else if", "elseif", "do while", "do concurrent", "do", "select case", "where", "forall",
               "print", "write", "read", "call", "go to", "goto", "integer", "real", "type", "label call", "label"):
        if l.startswith(kw.replace("label", "LABEL".lower()) if False else kw) or l.startswith(kw.upper()):
            return kw
    if l.startswith("label"):
        return "labelled:" + l.split()[1] if len(l.split()) > 1 else "labelled"
    return "assignment" if "=" in l else "other"


def case(seed):
    files, units, forms = build_project(seed)
    base = core.mktemp("vf_c08_")
    viol = []
    try:
        root = os.path.join(base, "src")
        os.makedirs(root)
        lay = layout.Layout(seed, plain=(seed % 3 == 0), cont_p=0.35, comment_p=0.1, semi_p=0.15, lit_break_p=0.4)
        texts = {}
        for name, lines in files.items():
            stmts = []
            for ln in lines:
                low = ln.lower()
                kind = "code"
                if low.startswith(("module ", "program ", "subroutine ", "function ", "integer function", "type ::")) and not low.startswith("module procedure"):
                    kind = "open"
                elif low.startswith("end ") or low in ("end", "endif", "enddo"):
                    kind = "end" if low.split()[1:2] and low.split()[1] in ("module", "program", "subroutine", "function", "type") or low == "end function" or low == "end subroutine" else "code"
                stmts.append(fgen.Stmt(ln, kind=kind))
            # labelled statements and FORMAT must keep their label at the start of a line: no `;` joining for them
            text = lay.free(stmts)
            texts[name] = text
            open(os.path.join(root, name), "w").write(text)
        st, r = core.run_alone(observe_case, {"root": root}, timeout=120)
    finally:
        shutil.rmtree(base, ignore_errors=True)
    if st != "ok":
        return {"viol": [{"kf": {"kind": "harness_" + st}, "w": {"detail": str(r)[-800:], "seed": seed}}], "forms": forms, "nunits": 0, "nrec": 0, "hash": str(seed), "sample": None, "nontrivial": False}
    if r["diags"]:
        viol.append({"kf": {"kind": "diagnostic_on_valid_input", "diag": r["diags"][0][:60]}, "w": {"diags": r["diags"], "files": texts, "seed": seed}})
    rec_by_unit = {}
    for uname, chain, line in r["recorded"]:
        rec_by_unit.setdefault(uname.lower(), []).append((chain, line))
    for uname, exp in units.items():
        got = r["calls"].get(uname)
        if got is None:
            viol.append({"kf": {"kind": "unit_missing"}, "w": {"unit": uname, "files": texts, "seed": seed}})
            continue
        gs = set(got)
        if len(got) != len(gs):
            dup = sorted(x for x in gs if got.count(x) > 1)
            viol.append({"kf": {"kind": "duplicate_call"}, "w": {"unit": uname, "duplicates": dup, "seed": seed, "files": texts}})
        for extra in sorted(gs - exp):
            src = [ln for ch, ln in rec_by_unit.get(uname, []) if ch.split("%")[-1] == extra]
            form = stmt_form(src[0]) if src else "unknown"
            viol.append({"kf": {"kind": "spurious_call", "statement_form": form, "what": "digit" if extra.isdigit() else "name",
                                "name_declared_in_block_construct": extra in ("tmpb", "scal")},
                         "w": {"unit": uname, "recorded": extra, "statement": src[:2], "expected": sorted(exp), "seed": seed, "files": texts}})
        # a recorded call of a procedure (or binding) that the project defines must have been resolved to it
        for nm_ in sorted(set(r["unresolved"].get(uname, [])) & exp & set(r["defined"])):
            src = [ln for ch, ln in rec_by_unit.get(uname, []) if ch.split("%")[-1] == nm_]
            viol.append({"kf": {"kind": "call_recorded_but_not_resolved", "statement_form": stmt_form(src[0]) if src else "unknown"},
                         "w": {"unit": uname, "name": nm_, "statement": src[:2], "seed": seed, "files": texts}})
        for miss in sorted(exp - gs):
            src = []
            for t in texts.values():
                for ln in t.split("\n"):
                    if miss in ln.lower():
                        src.append(ln.strip())
            form = stmt_form(src[-1]) if src else "unknown"
            viol.append({"kf": {"kind": "missing_call", "statement_form_hint": form}, "w": {"unit": uname, "missing": miss, "lines_mentioning": src[:6], "observed": sorted(gs), "seed": seed, "files": texts}})
    nontrivial = any(f.endswith("_nested") for f in forms) and any(f in forms for f in ("array_element", "intrinsic_ref", "literal_with_call_text", "computed_goto", "format"))
    return {"viol": viol, "forms": forms, "nunits": len(units), "nrec": r["n_add_calls"], "hash": core.h(texts), "nontrivial": nontrivial,
            "sample": {"seed": seed, "source_excerpt": "\n".join(list(texts.values())[0].split("\n")[-45:]), "expected_calls": {k: sorted(v) for k, v in units.items()}}}


def main():
    run = core.Run(
        PID,
        rule="case = generated module + 2-4 units under test (module subroutine/function, internal procedure, main program, external "
        "procedure) whose executable parts come from a grammar over: assignments with nested function and array references, logical "
        "IF, block IF/ELSE IF, WHERE, DO, DO WHILE, DO CONCURRENT, FORALL, SELECT CASE, ASSOCIATE (nested, type-bound through the "
        "associate name), BLOCK, PRINT/WRITE/READ, ALLOCATE with stat=, CALL with/without argument list, type-bound calls/functions "
        "through components and array elements, computed GOTO, FORMAT, literals containing call-like text; user procedures with "
        "names overlapping intrinsics/keywords (sum2, isize3, printx4, format5x, iff6); laid out with continuations and ';'. "
        "Non-trivial: >=1 nested reference and >=1 non-call look-alike; distinct by source hash.",
        assumptions=[
            "ground truth is what the generator emitted; procedure names are unique within a project",
            "user procedures named exactly like an intrinsic, undeclared arrays and procedure-pointer targets are not generated",
        ],
    )
    rp = core.replay_arg()
    if rp:
        w = json.load(open(rp))["witness"]
        r = case(w["seed"])
        print("replay:", "VIOLATION" if r["viol"] else "held")
        for v in r["viol"][:8]:
            print(json.dumps({k: x for k, x in v["w"].items() if k != "files"}, default=str)[:500])
        sys.exit(1 if r["viol"] else 0)
    n = 4000 if run.tier == "thorough" else 400
    seeds = [run.seed * 100003 + i for i in range(n)]
    results = core.fork_map(case, seeds, per_case_fork=False, case_timeout=300, total_timeout=3400)
    for sd, (st, r) in zip(seeds, results):
        if st != "ok":
            run.inconc(f"{st}: {str(r)[-300:]}")
            continue
        run.case(key=r["hash"], nontrivial=r["nontrivial"], sample=r["sample"] if r["nontrivial"] else None)
        run.count("units_compared", r["nunits"])
        run.count("recorder_events_add_procedure_calls", r["nrec"])
        for f in r["forms"]:
            run.seen("statement_forms_generated", f)
        for v in r["viol"]:
            run.violation(v["kf"], v["w"])
    run.max_samples = 2
    run.finish(floors={"evaluations": 300, "distinct_nontrivial": 150, "statement_forms_generated": 30, "units_compared": 800,
                       "recorder_events_add_procedure_calls": 3000})


if __name__ == "__main__":
    main()
