"""C17 - static pages mirror the page directory, in the documented order.

Runtime monitor over complete FORD runs (forked child): generated page directories (nested to depth 3,
directories with and without index.md, titled and title-less Markdown files, non-Markdown files, hidden and
backup files, ordered_subpage lists - complete or partial, repeated-key or continuation-line spelling -,
copy_subdir at project and index level, pages linking to each other relatively and through |page| |media|
|url|, links to source entities).  Oracle: an independent walk of the model directory gives the expected page
set, the pre-order of the navigation, the files and directories to be copied; observed are the files under
<output>/page, the order of the nav links inside every page, byte equality of copied files, the warnings, and
(with the C09 checker) that every link of every static page resolves from its depth.
"""
from __future__ import annotations

import json
import os
import random
import re
import shutil
import sys

from vf import core

ford = core.setup_env()
from vf import site  # noqa: E402

PID = "C17"


class D:
    def __init__(self, name, depth):
        self.name, self.depth = name, depth
        self.has_index, self.index_title = True, None
        self.pages = []  # (filename, title or None)
        self.page_copy_up = {}  # page file -> (name, files) of a plain directory of the PARENT directory, named `../name` in the page's copy_subdir
        self.files = []  # non-markdown files
        self.hidden = []
        self.dirs = []
        self.ordered = []  # names in ordered_subpage
        self.ordered_style = "repeat"
        self.copy_subdir = []  # names of plain directories to copy (declared in index.md)
        self.plain_dirs = []  # directories without index.md: (name, [files])
        self.page_copy = {}  # non-index page file name -> plain directory named in its own copy_subdir metadata


def gen_dir(rng, name, depth, counter, maxdepth):
    d = D(name, depth)
    counter[0] += 1
    d.index_title = f"Title{counter[0]}i"
    if depth > 0 and rng.random() < 0.12:
        d.has_index = False
    elif depth > 0 and rng.random() < 0.06:
        d.index_title = None  # index.md without title: directory is skipped with a report
    for _ in range(rng.randint(0, 3)):
        counter[0] += 1
        fn = f"{rng.choice(['page', 'zeta', 'alpha', 'Beta', 'm_', 'v1.', 'notes.draft', 'rel-2.0.'])}{counter[0]}.md"  # dots belong to the name
        d.pages.append((fn, None if rng.random() < 0.12 else f"Title{counter[0]}p"))
    for _ in range(rng.randint(0, 2)):
        counter[0] += 1
        d.files.append(rng.choice([f"img{counter[0]}.png", f"data{counter[0]}.txt", f"note{counter[0]}.MD5", f"script{counter[0]}.js"]))
    if rng.random() < 0.3:
        d.hidden = rng.sample([".hidden.md", "backup.md~", ".DS_Store", "draft.txt~"], rng.randint(1, 2))
    if depth < maxdepth:
        for _ in range(rng.randint(0, 2)):
            counter[0] += 1
            r = rng.random()
            if d.dirs and r < 0.35:
                dn = d.dirs[0].name + rng.choice(["2", "_ref", "0"])  # a sibling whose name starts with the whole name of another one
            elif r < 0.5:
                dn = f"{rng.choice(['README', 'v1', 'notes'])}{counter[0]}.md"  # a directory may be named like a page file
            else:
                dn = f"{rng.choice(['sub', 'aaa', 'zzz'])}{counter[0]}"
            d.dirs.append(gen_dir(rng, dn, depth + 1, counter, maxdepth))
    for _ in range(rng.randint(0, 1)):
        counter[0] += 1
        # copied verbatim: also hidden and backup files and nested directories
        extra = rng.sample([".htaccess", "home~", "deep/.nojekyll", "deep/x.bin"], rng.randint(0, 2))
        d.plain_dirs.append((f"assets{counter[0]}", [f"a{counter[0]}.css", f"b{counter[0]}.dat"] + extra))
    if rng.random() < 0.35:
        counter[0] += 1
        d.plain_dirs.append(("shared_assets", [f"s{counter[0]}.css"]))  # the name the project-level copy_subdir uses, in several directories
    own = [p[0] for p in d.plain_dirs if p[0] != "shared_assets"]
    d.copy_off = False
    if rng.random() < 0.15:
        d.copy_off = True  # an empty `copy_subdir:` entry: nothing is copied for this section (not even what the project-level option names)
    elif own and rng.random() < 0.6:
        d.copy_subdir = own if rng.random() < 0.7 else [p[0] for p in d.plain_dirs]
        if rng.random() < 0.35:
            # an entry that does not exist in this directory costs a warning, not the entries after it
            d.copy_subdir = list(d.copy_subdir)
            d.copy_subdir.insert(rng.randint(0, len(d.copy_subdir) - 1), "no_such_directory")
    elif own and rng.random() < 0.5:
        titled = [p[0] for p in d.pages if p[1]]
        if titled:
            d.page_copy[rng.choice(titled)] = own[0]
    # at the top level: a directory with an index.md that is also named in copy_subdir - it is copied and it is a sub-tree
    d.both = None
    if depth == 0 and rng.random() < 0.3:
        withidx = [x.name for x in d.dirs if x.has_index and x.index_title]
        if withidx:
            d.both = rng.choice(withidx)
            d.copy_subdir = list(d.copy_subdir) + [d.both]
            d.copy_off = False
    # a page one level down names a directory of this one as `../name`: still inside the page tree, copied next to this directory's pages
    for sd in d.dirs:
        mine = [p for p in d.plain_dirs if p[0] != "shared_assets"]
        titled = [p[0] for p in sd.pages if p[1] and p[0] not in sd.page_copy]
        if mine and titled and sd.has_index and sd.index_title and rng.random() < 0.35:
            sd.page_copy_up[rng.choice(titled)] = mine[0]
    # ordering
    cands = [p[0] for p in d.pages if p[1]] + [x.name for x in d.dirs if x.has_index and x.index_title]
    if cands and rng.random() < 0.5:
        k = rng.randint(1, len(cands))
        d.ordered = rng.sample(cands, k)
        if rng.random() < 0.25:
            d.ordered.append(rng.choice(d.ordered))  # the same entry named twice: still one page
        d.ordered_style = rng.choice(["repeat", "continuation"])
        if rng.random() < 0.15:
            d.ordered.insert(rng.randint(0, len(d.ordered)), "index.md")  # the index names itself: not a sub-page of itself
    return d


ENC = {"name": "utf-8"}


def write_dir(d: D, path, rng, entity_links):
    os.makedirs(path, exist_ok=True)
    if ENC["name"] != "utf-8":
        entity_links = entity_links + " caf\u00e9 na\u00efve \u00fcber"
    up = "../" * d.depth
    if d.has_index:
        meta = []
        if d.index_title:
            # (white space after the colon of a metadata key is optional)
            meta.append(f"title:{d.index_title}" if int(core.h([d.name, "t"])[:2], 16) % 5 == 0 else f"title: {d.index_title}")
        if d.ordered:
            if d.ordered_style == "repeat":
                meta += [f"ordered_subpage:{n}" if k_ % 3 == 2 else f"ordered_subpage: {n}" for k_, n in enumerate(d.ordered)]
            else:
                meta += [f"ordered_subpage: {d.ordered[0]}"] + [f"    {n}" for n in d.ordered[1:]]
        for c in d.copy_subdir:
            meta.append(f"copy_subdir: {c}")
        if getattr(d, "copy_off", False):
            meta.append("copy_subdir:")
        if not meta:
            meta = ["author: nobody"]
        body = [f"Index of {d.name}.", ""] + (['<span id="zfragtop"></span>anchored text'] if d.depth == 0 else [])
        for fn, title in d.pages:
            if title:
                body.append(f"[{title}]({fn[:-3]}.html)")
        for sd in d.dirs:
            if sd.has_index and sd.index_title:
                body.append(f"[{sd.index_title}]({sd.name}/index.html)")
        for f in d.files:
            body.append(f"[file {f}]({f})")
        if d.depth > 0:
            body.append(f"[top]({up}index.html) [top via alias](|page|/index.html) [home](|url|/index.html)")
        if [c for c in d.copy_subdir if c in [p[0] for p in d.plain_dirs]]:
            first = [c for c in d.copy_subdir if c in [p[0] for p in d.plain_dirs]][0]
            body.append(f"[asset]({first}/{[p for p in d.plain_dirs if p[0] == first][0][1][0]})")
        body.append(entity_links)
        open(os.path.join(path, "index.md"), "w", encoding=ENC["name"]).write("\n".join(meta) + "\n\n" + "\n\n".join(body) + "\n")
    for fn, title in d.pages:
        meta = [f"title:{title}" if int(core.h([fn, "t"])[:2], 16) % 4 == 0 else f"title: {title}"] if title else ["author: someone"]
        if fn in d.page_copy:
            meta.append(f"copy_subdir: {d.page_copy[fn]}")
        if fn in d.page_copy_up:
            meta.append(f"copy_subdir: ../{d.page_copy_up[fn][0]}")
        body = [f"Page {fn} in {d.name}.", f"[index](index.html) [top]({up}index.html) [alias](|page|/index.html) [media](|media|/logo.png) [alias with fragment](|page|/index.html#zfragtop)", entity_links]
        if not title and fn not in d.page_copy and fn not in d.page_copy_up:
            # other ways of having no title: an empty file (a placeholder), blanks only, text without any metadata
            variant = int(core.h([fn, d.name])[:4], 16) % 4
            if variant in (1, 2, 3):
                open(os.path.join(path, fn), "w", encoding=ENC["name"]).write({1: "", 2: "  \n\n   \n", 3: "Just some text, no metadata at all.\n\nSecond paragraph.\n"}[variant])
                continue
        open(os.path.join(path, fn), "w", encoding=ENC["name"]).write("\n".join(meta) + "\n\n" + "\n\n".join(body) + "\n")
    for f in d.files:
        open(os.path.join(path, f), "wb").write(os.urandom(16) + f.encode())
    for h in d.hidden:
        open(os.path.join(path, h), "w").write("title: Hidden page\n\nmust not appear\n")
    for name, fl in d.plain_dirs:
        os.makedirs(os.path.join(path, name), exist_ok=True)
        for f in fl:
            os.makedirs(os.path.dirname(os.path.join(path, name, f)), exist_ok=True)
            open(os.path.join(path, name, f), "wb").write(f.encode() * 3)
    for sd in d.dirs:
        write_dir(sd, os.path.join(path, sd.name), rng, entity_links)


def expected(d: D, rel, proj_copy):
    """Returns (pages {relpath: title}, nav preorder [titles], copies {relpath}, copied_dirs, reports [paths])"""
    pages, nav, files, cdirs, reports = {}, [], set(), set(), []
    if not d.has_index:
        reports.append(os.path.join(rel, "index.md"))
        return pages, nav, files, cdirs, reports
    if not d.index_title:
        reports.append(os.path.join(rel, "index.md"))
        return pages, nav, files, cdirs, reports
    pages[os.path.join(rel, "index.html")] = d.index_title
    entries = {}
    for fn, title in d.pages:
        entries[fn] = ("page", fn, title)
    for sd in d.dirs:
        entries[sd.name] = ("dir", sd, None)
    for name, fl in d.plain_dirs:
        entries[name] = ("plain", name, fl)
    order = [n for n in dict.fromkeys(d.ordered) if n != "index.md"] + [n for n in sorted(entries) if n not in d.ordered]
    for fn, dn in d.page_copy.items():
        for name, fl in d.plain_dirs:
            if name == dn:
                cdirs.add(os.path.join(rel, name))
                for f in fl:
                    files.add(os.path.join(rel, name, f))
    for fn, (dn, fl) in d.page_copy_up.items():
        up = os.path.dirname(rel)
        cdirs.add(os.path.join(up, dn))
        for f in fl:
            files.add(os.path.join(up, dn, f))
    for f in d.files:
        files.add(os.path.join(rel, f))
    # what the index page asks for, plus the project-level entries wherever a page of this directory has no copy_subdir of its own
    # (an empty entry on the index page switches it off for that page only)
    if getattr(d, "both", None):
        cdirs.add(os.path.join(rel, d.both))  # (its raw files are there as well)
    copy = list(d.copy_subdir)
    if (not d.copy_subdir and not getattr(d, "copy_off", False)) or any(title and fn not in d.page_copy and fn not in d.page_copy_up for fn, title in d.pages):
        copy += [c for c in proj_copy if c not in copy]
    for c in copy:
        for name, fl in d.plain_dirs:
            if name == c:
                cdirs.add(os.path.join(rel, name))
                for f in fl:
                    files.add(os.path.join(rel, name, f))
    for n in order:
        kind, obj, extra = entries[n]
        if kind == "page":
            if extra:
                pages[os.path.join(rel, obj[:-3] + ".html")] = extra
                nav.append(extra)
            else:
                reports.append(os.path.join(rel, obj))
        elif kind == "dir":
            p2, n2, f2, c2, r2 = expected(obj, os.path.join(rel, obj.name), proj_copy)
            if p2:
                nav.append(obj.index_title)
                nav += n2
            pages.update(p2)
            files |= f2
            cdirs |= c2
            reports += r2
    return pages, nav, files, cdirs, reports


def run_case(item):
    return site.run_in_process(item["root"])


def case(seed):
    rng = random.Random(seed)
    counter = [0]
    top = gen_dir(rng, "pages", 0, counter, rng.randint(1, 3))
    top.has_index, top.index_title = True, "TopTitle"
    base = core.mktemp("vf_c17_")
    try:
        os.makedirs(os.path.join(base, "src"))
        open(os.path.join(base, "src", "m.f90"), "w").write("module pgmod\n!! module doc\ninteger :: pgvar\n!! var doc\ncontains\nsubroutine pgsub()\n!! sub doc\nend subroutine\nend module pgmod\n")
        os.makedirs(os.path.join(base, "media"))
        open(os.path.join(base, "media", "logo.png"), "wb").write(b"PNG")
        links = "See [[pgmod]] and [[pgsub]] and [[pgmod:pgvar]]."
        ENC["name"] = "latin-1" if rng.random() < 0.2 else "utf-8"  # the `encoding` option applies to page files as well
        write_dir(top, os.path.join(base, "pages"), rng, links)
        proj_copy = []
        opts = {"project": f"P{seed}", "src_dir": "./src", "output_dir": "./doc", "page_dir": "./pages", "media_dir": "./media", "preprocess": False, "parallel": 0,
                "graph": False, "search": rng.random() < 0.5, "quiet": True}
        if ENC["name"] != "utf-8":
            opts["encoding"] = ENC["name"]

        def has_shared(d):
            return any(n == "shared_assets" for n, _ in d.plain_dirs) or any(has_shared(x) for x in d.dirs)

        plain_names = sorted({n for n, _ in top.plain_dirs})
        if has_shared(top) and rng.random() < 0.6:
            proj_copy = ["shared_assets"] if rng.random() < 0.6 else ["missing_everywhere", "shared_assets"]
            opts["copy_subdir"] = proj_copy
        elif plain_names and rng.random() < 0.3:
            proj_copy = [plain_names[0]]
            opts["copy_subdir"] = proj_copy
        site.write_project_file(base, opts)
        st, r = core.run_alone(run_case, {"root": base}, timeout=300)
        if st != "ok" or r["outcome"] != "ok":
            d = r if st == "ok" else {"harness": st, "detail": str(r)[-700:]}
            return {"viol": [{"kf": {"kind": "ford_run_failed" if st == "ok" else "harness_" + st, "message": str(d.get("error") or d.get("code") or "")[:80]},
                              "w": {"seed": seed, "detail": d}}], "npages": 0, "feats": [], "nontrivial": False, "hash": str(seed), "sample": None}
        out = os.path.join(base, "doc")
        s = site.parse_site(out)
        pages, nav, files, cdirs, reports = expected(top, "", proj_copy)
        viol = []
        got_pages = {p[len("page/"):] for p in s["pages"] if p.startswith("page/")}
        feats = set()
        if set(pages) != got_pages:
            missing, extra = sorted(set(pages) - got_pages), sorted(got_pages - set(pages))
            kf = {"kind": "page_set_differs", "missing": bool(missing), "extra": bool(extra), "extra_hidden_or_backup": any("hidden" in e or "backup" in e for e in extra)}
            viol.append({"kf": kf, "w": {"seed": seed, "missing": missing, "extra": extra}})
        # titles
        for p, title in pages.items():
            info = s["pages"].get("page/" + p)
            if info and title not in info["title"]:
                viol.append({"kf": {"kind": "page_has_wrong_title"}, "w": {"seed": seed, "page": p, "expected": title, "observed": info["title"]}})
        # navigation order on every page
        from bs4 import BeautifulSoup

        for p in sorted(got_pages & set(pages)):
            raw = open(os.path.join(out, "page", p), encoding="utf-8").read()
            soup = BeautifulSoup(raw, "html.parser")
            toc = soup.find(id="sidebar-toc")
            obs = [a.get_text().strip() for a in toc.find_all("a")][1:] if toc else []
            if obs != nav and (nav or obs):
                kf = {"kind": "navigation_order_differs", "ordered_subpage_used": bool(top.ordered) or any_ordered(top), "same_set": sorted(obs) == sorted(nav)}
                viol.append({"kf": kf, "w": {"seed": seed, "page": p, "expected": nav, "observed": obs}})
                break
        # copied files
        for f in sorted(files):
            src = os.path.join(base, "pages", f)
            dst = os.path.join(out, "page", f)
            if not os.path.exists(dst) or open(dst, "rb").read() != open(src, "rb").read():
                in_copy = any(f.startswith(c + os.sep) for c in cdirs)
                viol.append({"kf": {"kind": "file_not_copied_next_to_page", "in_copy_subdir": in_copy}, "w": {"seed": seed, "file": f, "exists": os.path.exists(dst)}})
        # the page tree mirrors the page directory: nothing but the pages, the copied files and the copied directories
        for dp, dn, fn in os.walk(os.path.join(out, "page")):
            for f in fn:
                relf = os.path.relpath(os.path.join(dp, f), os.path.join(out, "page"))
                if relf in pages or relf in files or any(relf.startswith(c + os.sep) for c in cdirs):
                    continue
                kf = {"kind": "unexpected_file_in_page_tree", "what": "markdown source" if relf.endswith(".md") else ("hidden or backup file" if os.path.basename(relf).startswith(".") or relf.endswith("~") else "other")}
                if not any(v["kf"] == kf for v in viol):
                    viol.append({"kf": kf, "w": {"seed": seed, "file": relf}})
        # hidden/backup files must not become pages or be copied as pages
        for p in got_pages:
            if os.path.basename(p).startswith(".") or p.endswith("~.html"):
                viol.append({"kf": {"kind": "hidden_file_became_page"}, "w": {"seed": seed, "page": p}})
        # reports for title-less files (siblings remain is covered by the page set)
        for rp in reports:
            base_name = os.path.basename(rp)
            if not any(base_name in w for w in r["warnings"]) and base_name not in r["stdout"]:
                dirn = os.path.dirname(rp)
                viol.append({"kf": {"kind": "skipped_page_not_reported", "what": "index" if base_name == "index.md" else "page"}, "w": {"seed": seed, "file": rp, "warnings": r["warnings"][:6]}})
        # links from every depth
        problems, nlinks = site.check_links(s, out)
        seen = set()
        for pr in problems:
            if not pr["page"].startswith("page/"):
                continue
            kf = {"kind": "static_page_link_broken", "why": pr["why"], "depth": pr["page"].count("/") - 1}
            k = json.dumps(kf)
            if k in seen:
                continue
            seen.add(k)
            viol.append({"kf": kf, "w": {"seed": seed, "problem": pr}})
        # a link written through an alias keeps its #fragment (every non-index page carries one to an anchor of the top page)
        nfrag = 0
        for rel, title in pages.items():
            if os.path.basename(rel) == "index.html":
                continue
            info = s["pages"].get("page/" + rel)
            if info is None:
                continue
            nfrag += 1
            if not any(u.endswith("#zfragtop") for _, _, u in info["links"]):
                kf = {"kind": "static_page_link_broken", "why": "fragment_of_alias_link_dropped", "depth": rel.count("/")}
                if not any(v["kf"] == kf for v in viol):
                    viol.append({"kf": kf, "w": {"seed": seed, "page": rel, "links": [u for _, _, u in info["links"] if "index.html" in u][:6]}})
        if any_ordered(top):
            feats.add("ordered_subpage")
        if reports:
            feats.add("titleless_or_missing_index")
        if cdirs:
            feats.add("copy_subdir")
        if has_page_copy(top):
            feats.add("copy_subdir_on_non_index_page")
        if proj_copy:
            feats.add("project_copy_subdir")
        feats.add(f"depth{max((p.count('/') for p in pages), default=0)}")
        return {"viol": viol, "npages": len(pages), "feats": sorted(feats), "nontrivial": len(pages) >= 3, "hash": core.h([sorted(pages.items()), nav, sorted(files)]),
                "sample": {"seed": seed, "expected_pages": pages, "expected_nav": nav, "copied": sorted(files)[:10], "reports": reports}}
    finally:
        shutil.rmtree(base, ignore_errors=True)


def has_page_copy(d):
    return bool(d.page_copy) or any(has_page_copy(x) for x in d.dirs)


def any_ordered(d):
    return bool(d.ordered) or any(any_ordered(x) for x in d.dirs)


def main():
    run = core.Run(
        PID,
        rule="case = generated page directory (depth <=3; per directory: index.md present/absent/title-less, 0-3 Markdown pages some without "
        "title, 0-2 other files, hidden/backup files, 0-2 sub-directories, plain asset directories, ordered_subpage naming a random non-empty "
        "subset of the existing entries in repeated-key or continuation style, copy_subdir in index.md and/or project file) beside a small "
        "source project; pages link relatively, through |page| |media| |url| and to source entities. Non-trivial: >=3 expected pages; "
        "distinct by (expected pages, navigation order, copied files).",
        assumptions=["ordered_subpage entries always name existing entries (behaviour for missing ones is left open by the property)",
                     "a directory without index.md, or whose index.md has no title, is skipped with its sub-tree (documented)"],
    )
    rp = core.replay_arg()
    if rp:
        w = json.load(open(rp))["witness"]
        r = case(w["seed"])
        known = core.load_known(PID)
        bad = [v for v in r["viol"] if core.match_known(known, v["kf"]) is None]
        print("replay:", "VIOLATION" if bad else "held")
        for v in bad[:10]:
            print(json.dumps(v["w"], default=str)[:600])
        sys.exit(1 if bad else 0)
    n = 1500 if run.tier == "thorough" else 150
    seeds = [run.seed * 100003 + i for i in range(n)]
    results = core.fork_map(case, seeds, per_case_fork=False, case_timeout=400, total_timeout=3400)
    for sd, (st, r) in zip(seeds, results):
        if st != "ok":
            run.inconc(f"{st}: {str(r)[-300:]}")
            continue
        run.case(key=r["hash"], nontrivial=r["nontrivial"], sample=r["sample"] if r["nontrivial"] else None)
        run.count("expected_pages", r["npages"])
        for f in r["feats"]:
            run.seen("tree_features", f)
        for v in r["viol"]:
            run.violation(v["kf"], v["w"])
    run.max_samples = 2
    run.finish(floors={"evaluations": 120, "distinct_nontrivial": 80, "expected_pages": 600, "tree_features": 6})


if __name__ == "__main__":
    main()
