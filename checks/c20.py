"""C20 - an unparseable file is skipped without disturbing the rest.

Runtime monitor on the real parser (Project + correlate, in a forked child with a CPU-time limit) and on complete
`python -m ford` runs.  A generated valid project is observed once alone (baseline) and then together with one
to three additional files obtained by corrupting valid sources: truncation at every statement boundary,
truncation inside a continued statement / literal / doc block, splices of a complete unit with a truncated one,
dropped / extra END, misplaced or doubled CONTAINS, arbitrary text, undecodable bytes, NUL bytes, stray `&`,
empty files.  The additional files are named so that they are read before, between and after the valid files.
Oracles:
  * termination: the child finishes within its CPU budget (a hang burns CPU: SIGXCPU is the verdict; a wall-clock
    time-out without CPU exhaustion is inconclusive);
  * no abort: Project()/correlate()/the CLI run completes;
  * a file FORD does not register (skipped) is named in a diagnostic;
  * when every additional file was skipped: entity table, page names (ident of every entity) and - CLI layer -
    the whole output tree are equal to the baseline's;
  * when a file with names foreign to the project was accepted (partially parsed): the tables of the valid
    files are equal to the baseline's.
"""
from __future__ import annotations

import hashlib
import json
import os
import pathlib
import random
import re
import resource
import shutil
import signal
import sys

from vf import core

ford = core.setup_env()
from vf import fgen, genmodels, layout, observe, site  # noqa: E402

PID = "C20"
CPU_LIMIT = 20
AUDIT_DIR = os.path.join(core.VERIF, "vf", "audit_site")


# ---------------------------------------------------------------------------------------------
# project and corruptions


def valid_project(seed):
    """{filename: text}, list of (filename, stmts) for corruption donors"""
    files = genmodels.gen_project(seed, nfiles=random.Random(seed).randint(2, 4), docs=True)
    st = fgen.Style(seed * 31 + 1)
    lay = layout.Layout(seed, plain=False, docstyle="after", cont_p=0.3, comment_p=0.15)
    out = {}
    donors = []
    for k, f in enumerate(files):
        stmts = fgen.render_file(f, st)
        name = "%s_%s.f90" % ("bdhkn"[k % 5], f.name)  # spread over the alphabet: b.., d.., h..
        out[name] = layout.Layout(seed, plain=True).free(stmts)
        donors.append((name, stmts))
    # a few equal procedure names at file level shared with corruption donors (page-name allocation)
    out["k_shared.f90"] = ("subroutine init()\n!! doc zc20a\nend subroutine init\n"
                           "module shared_names\n!! doc\ncontains\nsubroutine setup()\n!! doc\nend subroutine setup\n"
                           "subroutine finish()\n!! doc\nend subroutine finish\n"
                           "subroutine caller()\n!! doc\ninteger :: k\ncall setup()\ncall finish()\ncall init()\nk = helper_fn(1)\nend subroutine caller\n"
                           "integer function helper_fn(i)\n!! doc\ninteger, intent(in) :: i\nhelper_fn = i\nend function helper_fn\n"
                           "end module shared_names\n")
    # read last, in a directory of its own: an INCLUDE of a header that is not there (reported, the line stays a statement of the file)
    out["zz_other/solver_inc.f90"] = ("module solver_inc\n!! doc zc20b\nimplicit none\ninclude 'legacy_params.h'\ninteger :: own_of_solver\n!! doc\nend module solver_inc\n")
    return out, donors, lay


def foreign(text):
    """rename every generated identifier so that nothing in the valid project refers to the file"""
    return re.sub(r"([qQ])(\d+)\b", r"\1f\2", text)


COMPLETE_UNIT = ("module donor_complete\n!! complete unit\ncontains\nsubroutine init()\n!! doc\nend subroutine init\nsubroutine setup()\n!! doc\nend subroutine setup\n"
                 "subroutine finish()\nend subroutine finish\nend module donor_complete\n")


def corruptions(seed, donors, lay, every_boundary):
    """yields (class, must_be_rejected, foreign_names, bytes)"""
    rng = random.Random(seed * 13 + 5)
    res = []
    for name, stmts in donors:
        n = len(stmts)
        points = range(1, n) if every_boundary else sorted(rng.sample(range(1, n), min(n - 1, 5)))
        for i in points:
            text = lay.free(stmts[:i])
            own = rng.random() < 0.5
            res.append(("truncated_at_statement_boundary", False, not own, (text if own else foreign(text)).encode()))
        full = lay.free(stmts)
        lines = full.split("\n")
        # cut inside a continued statement (last kept line ends with &), with or without trailing comment lines
        amp = [k for k, l in enumerate(lines) if l.rstrip().endswith("&")]
        for k in (amp if every_boundary else amp[:3]):
            tail = rng.choice(["", "\n", "\n! comment\n", "\n\n   \n", "\n!! doc line\n"])
            res.append(("truncated_inside_continuation", False, True, foreign("\n".join(lines[:k + 1]) + tail).encode()))
        for _ in range(6 if every_boundary else 2):
            cut = rng.randrange(1, len(full))
            res.append(("truncated_mid_line", False, True, foreign(full[:cut]).encode()))
        # splices: a complete unit with shared procedure names, then a truncated one
        i = rng.randrange(1, n)
        res.append(("complete_unit_then_truncated_unit", False, False, (COMPLETE_UNIT + foreign(lay.free(stmts[:i]))).encode()))
        res.append(("complete_unit_then_garbage", False, False, (COMPLETE_UNIT + "end\nend module nothing\n)))) ((( '\n").encode()))
        # END handling
        ends = [k for k, s in enumerate(stmts) if s.kind == "end"]
        if ends:
            k = rng.choice(ends)
            res.append(("dropped_end", False, True, foreign(lay.free(stmts[:k] + stmts[k + 1:])).encode()))
            res.append(("extra_end", False, True, foreign(lay.free(stmts[:k + 1] + [stmts[k]] + stmts[k + 1:])).encode()))
            res.append(("extra_end_at_file_level", False, True, foreign(lay.free(stmts) + "\nend\n").encode()))
            res.append(("end_first", False, True, ("end subroutine nothing\n" + foreign(full)).encode()))
        opens = [k for k, s in enumerate(stmts) if s.kind == "open"]
        if opens:
            k = rng.choice(opens)
            res.append(("misplaced_contains", False, True, foreign("\n".join(lay.free(stmts[:k + 1]).split("\n") + ["contains", "contains"] + lay.free(stmts[k + 1:]).split("\n"))).encode()))
            res.append(("truncated_right_after_opening", False, True, foreign(lay.free(stmts[:k + 1])).encode()))
        res.append(("contains_at_file_level", False, True, ("contains\n" + foreign(full)).encode()))
        # bytes
        b = foreign(full).encode()
        cut = rng.randrange(1, len(b))
        res.append(("undecodable_bytes", True, True, b[:cut] + b"\xff\xfe\xc3\x28 \x80" + b[cut:]))
        res.append(("nul_bytes", False, True, b[:cut] + b"\x00\x00" + b[cut:]))
        res.append(("unbalanced_quote", False, True, foreign(full).replace("::", ":: 'oops", 1).encode() if "::" in full else b"character :: c = 'oops\n"))
    res += [
        # cut inside an ASSOCIATE construct whose associate-names are names that valid files reference
        ("truncated_inside_associate", False, True, b"subroutine cut_assoc()\ninteger :: w(3)\nassociate (init => w, setup => w(1), helper_fn => w)\ncall finish()\nw(1) = helper_fn(2)\n"),
        ("truncated_inside_associate", False, True, b"module cut_assoc_m\ncontains\nsubroutine ca()\nreal :: q(2)\nassociate (finish => q)\nassociate (helper_fn => q, setup => q)\nq = 1\nend associate\n"),
        # statements that start like a NAMELIST and go on with junk, or name several groups
        ("namelist_followed_by_junk", False, True, b"module nl_junk\ninteger :: aaaaaaaaaaaaaaaaaaaaaaaaaaaaaaaaaaaaaaaaaaaaaaaaaaaa, b\nnamelist /grp/ aaaaaaaaaaaaaaaaaaaaaaaaaaaaaaaaaaaaaaaaaaaaaaaaaaaa, b (\nend module nl_junk\n"),
        ("namelist_followed_by_junk", False, True, b"module nl_junk2\ninteger :: long_variable_name_number_one, long_variable_name_number_two, c\nnamelist /g1/ long_variable_name_number_one, long_variable_name_number_two /g2/ c\nend module nl_junk2\n"),
        ("namelist_followed_by_junk", False, True, b"namelist /g/ xxxxxxxxxxxxxxxxxxxxxxxxxxxxxxxxxxxxxxxxxxxxxxxx yyyyyyyyyyyyyyyyyyyyyyyyyyyyyyy = 3 )) &\n"),
        # INCLUDE chains that come back to a file already being read
        ("cyclic_include", False, True, b"module inc_cycle_m\ninteger :: before_inc\ninclude 'cyc_a.inc'\nend module inc_cycle_m\n"),
        ("cyclic_include", False, True, b"include 'cyc_self.inc'\n"),
        ("cyclic_include", False, True, b"subroutine inc_first()\ninclude 'cyc_first.inc'\nend subroutine inc_first\n"),
        # an INCLUDE line that names a file which is nowhere
        ("include_of_missing_file", False, True, b"module inc_missing_m\ninteger :: before_it\ninclude 'no_such_file_anywhere.inc'\nend module inc_missing_m\n"),
        ("arbitrary_text", False, True, b"Lorem ipsum dolor sit amet,\nconsectetur (adipiscing elit; sed & do\n eiusmod tempor <<< >>> incididunt\n"),
        ("arbitrary_text", False, True, "\n".join("".join(rng.choice("abc xyz()&!'\"=,:;%<>0123") for _ in range(rng.randint(1, 60))) for _ in range(rng.randint(1, 30))).encode()),
        ("ampersand_only", False, True, b"&\n"),
        ("ampersand_lines", False, True, b"&\n&\n   &\n"),
        ("leading_ampersand", False, True, b"& integer :: x\nmodule lead_amp\nend module lead_amp\n"),
        ("trailing_ampersand_at_eof", False, True, b"module amp_eof\ninteger :: x, &\n"),
        ("trailing_ampersand_then_comments", False, True, b"module amp_eof2\ninteger :: x, &\n! c\n\n!! d\n"),
        ("empty_file", False, True, b""),
        ("whitespace_only", False, True, b"\n\n   \n\t\n"),
        ("only_end", False, True, b"end\n"),
        ("only_end_module", False, True, b"end module never_opened\n"),
        ("only_open", False, True, b"module never_closed\n"),
        ("enumerator_with_non_integer_value", False, True, b"module m_enum_bad\nenum, bind(c)\nenumerator :: e_one = 1.5\nenumerator :: e_two\nend enum\nend module m_enum_bad\n"),
        ("enumerator_with_non_integer_value", False, True, b"module m_enum_bad2\nenum, bind(c)\nenumerator :: e_a = 2*3 + )\nend enum\nend module m_enum_bad2\n"),
        # an INCLUDE of a header (*.h) that is nowhere, standing where the line is handed back to the reader: first line of the file, right after
        # a unit opening, after a `;`
        ("include_of_missing_header", False, True, b'include "machine_missing.h"\nsubroutine after_h()\n'),
        ("include_of_missing_header", False, True, b'subroutine legacy_h()\ninclude "machine_missing.h"\ninteger :: k\n'),
        ("include_of_missing_header", False, True, b'module m_h_semi\ninteger :: a ; include "machine_missing.h"\nend module m_h_semi\nend\n'),
        ("module_without_name", False, True, b"module\ninteger :: nameless_var\nend module\n"),
        ("module_without_name", False, True, b"module\n"),
        # submodules whose parent is the submodule itself, is nowhere, or whose parents form a cycle (the ancestor module is a valid one of the project)
        ("submodule_that_is_its_own_parent", False, True, b"submodule (shared_names:selfsub) selfsub\nend submodule selfsub\n"),
        ("submodule_of_unknown_parent", False, True, b"submodule (shared_names:no_such_parent) orphan_sub\nend submodule orphan_sub\n"),
        ("submodules_with_cyclic_parents", False, True, b"submodule (shared_names:cyc_sb) cyc_sa\nend submodule cyc_sa\nsubmodule (shared_names:cyc_sa) cyc_sb\nend submodule cyc_sb\n"),
        ("only_open_with_doc", False, True, b"subroutine never_closed(a)\n!! doc line\n"),
        ("interface_never_closed", False, True, b"module m_ifc_open\ninterface\nsubroutine s()\nend subroutine\nend module m_ifc_open\n"),
        ("type_never_closed", False, True, b"module m_type_open\ntype t\ninteger :: a\nend module m_type_open\n"),
        ("contains_in_interface", False, True, b"module m_ci\ninterface gen\ncontains\nend interface\nend module m_ci\n"),
        ("program_in_module", False, True, b"module m_pim\nprogram p\nend program p\nend module m_pim\n"),
        ("predoc_at_eof", False, True, b"module m_pre\nend module m_pre\n!> dangling pre doc\n"),
        ("inline_predoc", False, True, b"module m_ipd\ninteger :: a !> inline predoc\nend module m_ipd\n"),
        ("utf16_file", True, True, "module m_utf16\nend module m_utf16\n".encode("utf-16")),
        ("latin1_file", True, True, "module m_latin\n!! caf\xe9 na\xefve \xfc\nend module m_latin\n".encode("latin-1")),
    ]
    return res


# ---------------------------------------------------------------------------------------------
# observation (inside a forked child)


KIDS = ("modules", "submodules", "programs", "blockdata", "functions", "subroutines", "types", "interfaces", "absinterfaces", "boundprocs", "modprocedures",
        "enums", "namelists", "variables", "common")


def idents(project):
    out = []
    seen = set()

    def walk(e, path):
        if id(e) in seen:
            return
        seen.add(id(e))
        try:
            ident = e.ident
        except Exception as x:  # noqa: BLE001
            ident = "<%s>" % type(x).__name__
        out.append((path, ident))
        for k in KIDS:
            v = getattr(e, k, None)
            if isinstance(v, dict):
                v = list(v.values())
            if isinstance(v, (list, tuple)):
                for c in v:
                    if hasattr(c, "name") and hasattr(c, "obj") and not isinstance(c, str):
                        walk(c, path + "/" + str(getattr(c, "obj", "?")) + ":" + str(c.name).lower())

    for f in sorted(project.files, key=lambda f: f.name):
        walk(f, "file:" + f.name)
    return out


def phase_of(traceback_text):
    """where the run was aborted: while reading/parsing a file (the per-file error handling applies) or later, in correlate() or while rendering pages"""
    if re.search(r"in correlate\b", traceback_text):
        return "correlate"
    if "Error rendering" in traceback_text and "ford/output.py" in traceback_text:
        return "render"  # a page of an accepted file could not be rendered (FORD's own message points at a parsing error)
    if "_fortran_file" in traceback_text or "in __init__" in traceback_text:
        return "parse"
    return "other"


def named_in_diagnostic(text, name):
    """the file is named on a line that says something went wrong (a progress line such as `Preprocessing <file>` is no diagnostic)"""
    for line in text.splitlines():
        if name in line and re.search(r"(?i)error|warn|skip|fail|invalid|could not|cannot|unable", line):
            return True
    # a long path is wrapped over several lines of an 80-column log: look at the text with the line breaks taken out
    sq, nm = re.sub(r"\s+", "", text), re.sub(r"\s+", "", name)
    i = sq.find(nm)
    while i >= 0:
        if re.search(r"(?i)error|warn|skip|fail|invalid|couldnot|cannot|unable", sq[max(0, i - 80): i + len(nm) + 40]):
            return True
        i = sq.find(nm, i + 1)
    return False


def observe_child(arg):
    root, bad_names = arg
    resource.setrlimit(resource.RLIMIT_CPU, (CPU_LIMIT, CPU_LIMIT + 5))
    cap = observe.Captured()
    err = None
    table = ids = None
    registered = []
    try:
        os.makedirs(os.path.join(root, "inc_generic"), exist_ok=True)
        project, cap = observe.parse_and_correlate([root], settings_kw={"include": [pathlib.Path(root) / "inc_generic"]}, cap=cap)  # (an `include` search path is configured)
        registered = sorted(os.path.relpath(f.path, root) for f in project.files)
        table = observe.tree(project)
        ids = idents(project)
    except BaseException as e:  # noqa: BLE001
        import traceback

        err = f"{type(e).__name__}: {e}\n" + traceback.format_exc()[-1200:]
    text = "\n".join(cap.warnings) + "\n" + cap.stdout
    named = {b: named_in_diagnostic(text, b) for b in bad_names}
    return {"table": table, "idents": ids, "error": err, "registered": registered, "named": named, "diag_tail": text[-1500:]}


# files that the cyclic-INCLUDE corruptions pull in (not source files themselves: nothing reads them otherwise)
COMPANIONS = {
    "cyc_a.inc": "integer :: from_a\ninclude 'cyc_b.inc'\n",
    "cyc_b.inc": "integer :: from_b\ninclude 'cyc_a.inc'\n",
    "cyc_self.inc": "integer :: again\ninclude 'cyc_self.inc'\n",
    "cyc_first.inc": "include 'cyc_first.inc'\ninteger :: never\n",
    # a header that cannot be read to its end: it names a file that is nowhere / holds a byte that is no UTF-8 after 9 KiB of valid lines
    "shared_bad_nested.inc": "integer :: from_shared\ninclude 'no_such_nested_file.inc'\ninteger :: after_nested\n",
    "shared_bad_bytes.inc": ("".join(f"integer :: sb{k:04d}\n" for k in range(520)).encode() + b"integer :: caf\xe9\n"),
    "aa_legacy/legacy_bad.inc": "integer :: lb\ninclude 'no_such_nested_file.inc'\n",
    "aa_legacy/legacy_params.h": "integer, parameter :: legacy_only_parameter = 1\n!! doc of a parameter that only the legacy directory has\n",
}


def many_rejected(arg):
    """A hundred and fifty files that FORD rejects, read before the valid ones, under a small limit of open files: what the
    parser holds on to for a rejected file must be released with it."""
    seed, ref = arg
    valid, donors, lay = valid_project(seed)
    root = core.mktemp("vf_c20m_")
    try:
        write_tree(root, valid)
        bad = {}
        for i in range(150):
            bad[f"a_many{i:03d}.f90"] = [b"module never_closed_%d\ninteger :: x\n" % i, b"end module nothing_open_%d\n" % i, b"\xff\xfe module u%d\n" % i][i % 3]
        write_tree(root, bad)

        def child(a):
            soft, hard = resource.getrlimit(resource.RLIMIT_NOFILE)
            resource.setrlimit(resource.RLIMIT_NOFILE, (64, hard))
            return observe_child(a)

        st, r = core.run_alone(child, (root, []), timeout=400)
        if st != "ok":
            return {"inconclusive": f"many rejected files: {st} {str(r)[-200:]}", "viol": []}
        viol = []
        w0 = {"seed": seed, "rejected_files": len(bad), "open_file_limit": 64}
        if r["error"]:
            viol.append({"kf": {"kind": "run_aborted", "phase": phase_of(r["error"]), "exception": r["error"].split(":")[0], "many_rejected_files": True}, "w": {**w0, "error": r["error"]}})
        else:
            lost = [f for f in ref["registered"] if f not in r["registered"]]
            if lost:
                viol.append({"kf": {"kind": "valid_file_lost", "classes": ["many_rejected_files"]}, "w": {**w0, "lost": lost, "diagnostics": r["diag_tail"][-600:]}})
        return {"viol": viol, "nrejected": len([b for b in bad if b not in r.get("registered", [])])}
    finally:
        shutil.rmtree(root, ignore_errors=True)


def write_tree(root, files):
    os.makedirs(root, exist_ok=True)
    for name, data in files.items():
        os.makedirs(os.path.dirname(os.path.join(root, name)), exist_ok=True)
        with open(os.path.join(root, name), "wb") as f:
            f.write(data if isinstance(data, bytes) else data.encode())


def reference(arg):
    seed, = arg
    valid, donors, lay = valid_project(seed)
    root = core.mktemp("vf_c20b_")
    try:
        write_tree(root, valid)
        st, r = core.run_alone(observe_child, (root, []), timeout=300)
        if st != "ok" or r["error"]:
            return {"ok": False, "why": f"{st}: {r if st != 'ok' else r['error']}"[-400:]}
        return {"ok": True, "table": r["table"], "idents": r["idents"], "registered": r["registered"]}
    finally:
        shutil.rmtree(root, ignore_errors=True)


def variant(arg):
    seed, ref, bad = arg  # bad: list of (filename, class, must_reject, foreign, bytes)
    valid, donors, lay = valid_project(seed)
    root = core.mktemp("vf_c20v_")
    try:
        write_tree(root, valid)
        write_tree(root, COMPANIONS)
        write_tree(root, {b[0]: b[4] for b in bad})
        bad_names = [b[0] for b in bad]
        st, r = core.run_alone(observe_child, (root, bad_names), timeout=400)
        classes = sorted({b[1] for b in bad})
        positions = sorted({b[0][0] for b in bad})
        w0 = {"seed": seed, "bad_files": [{"name": b[0], "class": b[1], "text": b[4][:1500].decode("utf-8", "replace")} for b in bad]}
        if st == "died":
            sig = r & 0x7f if isinstance(r, int) else None
            if sig == signal.SIGXCPU or sig == signal.SIGKILL:
                return {"viol": [{"kf": {"kind": "does_not_terminate", "classes": classes}, "w": {**w0, "cpu_seconds": CPU_LIMIT}}], "outcome": "hang"}
            return {"viol": [{"kf": {"kind": "process_died", "classes": classes, "signal": sig}, "w": w0}], "outcome": "died"}
        if st == "timeout":
            return {"inconclusive": "wall-clock time-out without CPU exhaustion", "viol": []}
        if st != "ok":
            return {"inconclusive": f"{st}: {str(r)[-200:]}", "viol": []}
        viol = []
        if r["error"]:
            viol.append({"kf": {"kind": "run_aborted", "phase": phase_of(r["error"]), "exception": r["error"].split(":")[0]}, "w": {**w0, "classes": classes, "error": r["error"]}})
            return {"viol": viol, "outcome": "aborted"}
        skipped = [b for b in bad if b[0] not in r["registered"]]
        accepted = [b for b in bad if b[0] in r["registered"]]
        for b in skipped:
            if not r["named"][b[0]]:
                viol.append({"kf": {"kind": "skipped_file_not_named_in_diagnostic", "class": b[1]}, "w": {**w0, "file": b[0], "diagnostics": r["diag_tail"]}})
        for b in accepted:
            if b[2]:
                viol.append({"kf": {"kind": "undecodable_file_documented", "class": b[1]}, "w": {**w0, "file": b[0]}})
        twins = [b for b in bad if b[1].startswith("twin_")]
        if twins and len({b[0] in r["registered"] for b in twins}) > 1:
            viol.append({"kf": {"kind": "files_with_the_same_defect_treated_differently", "class": twins[0][1]},
                         "w": {**w0, "skipped": [b[0] for b in twins if b[0] not in r["registered"]], "documented": [b[0] for b in twins if b[0] in r["registered"]], "diagnostics": r["diag_tail"]}})
        lost = [f for f in ref["registered"] if f not in r["registered"]]
        if lost:
            viol.append({"kf": {"kind": "valid_file_lost", "classes": classes}, "w": {**w0, "lost": lost, "diagnostics": r["diag_tail"]}})
        outcome = "all_skipped" if not accepted else "some_accepted"
        if not accepted:
            d = observe.diff_tables(ref["table"], r["table"])
            if d:
                viol.append({"kf": {"kind": "entities_differ_although_file_skipped", "classes": classes, "field": d[0][1]}, "w": {**w0, "differences": [list(map(str, x)) for x in d[:8]]}})
            if r["idents"] != ref["idents"]:
                di = [(a, b) for a, b in zip(ref["idents"], r["idents"]) if a != b][:6]
                viol.append({"kf": {"kind": "page_names_differ_although_file_skipped", "classes": classes}, "w": {**w0, "differences": di, "n_ref": len(ref["idents"]), "n_var": len(r["idents"])}})
        elif all(b[3] for b in accepted) and not any("/" in b[0] for b in accepted):  # (tables are keyed by base name)
            keep = lambda t: {k: v for k, v in t.items() if k.split("/")[0][5:] in [f.lower() for f in ref["registered"]]}  # noqa: E731
            d = observe.diff_tables(keep(ref["table"]), keep(r["table"]))
            if d:
                viol.append({"kf": {"kind": "valid_files_entities_differ_with_unrelated_broken_file", "classes": sorted({b[1] for b in accepted}), "field": d[0][1]},
                             "w": {**w0, "differences": [list(map(str, x)) for x in d[:8]]}})
        return {"viol": viol, "outcome": outcome, "classes": classes, "positions": positions, "nskipped": len(skipped), "naccepted": len(accepted),
                "skipped_classes": sorted({b[1] for b in skipped}), "accepted_classes": sorted({b[1] for b in accepted})}
    finally:
        shutil.rmtree(root, ignore_errors=True)


# ---------------------------------------------------------------------------------------------
# CLI layer: complete runs, output trees compared byte for byte


def tree_hash(out):
    res = {}
    for dp, dn, fn in os.walk(out):
        for f in fn:
            p = os.path.join(dp, f)
            res[os.path.relpath(p, out)] = hashlib.sha256(open(p, "rb").read()).hexdigest()
    return res


def cli_case(arg):
    seed, bad = arg
    valid, donors, lay = valid_project(seed)
    root = core.mktemp("vf_c20c_")
    try:
        res = {}
        for tag, extra in (("base", {}), ("var", {b[0]: b[4] for b in bad})):
            proj = os.path.join(root, tag, "proj")
            write_tree(os.path.join(proj, "src"), valid)
            write_tree(os.path.join(proj, "src"), COMPANIONS)
            write_tree(os.path.join(proj, "src"), extra)
            # (files with an upper-case extension go through the default preprocessor first)
            popts = {"project": "Robust", "src_dir": "./src", "output_dir": "./doc", "preprocess": any(b[0].endswith(".F90") for b in bad), "search": True, "graph": False,
                     "display": ["public", "private", "protected"], "proc_internals": True, "incl_src": True, "parallel": 0}
            if any(b[1] == "preprocessor_fails_on_it" for b in bad):
                # an external preprocessor, and a valid file (read after the broken one) whose documentation depends on being preprocessed
                popts["preprocessor"] = "cpp -traditional-cpp -E"
                write_tree(os.path.join(proj, "src"), {"zz_pp_user.F90": "#ifdef VF_NOT_DEFINED\nmodule pp_hidden_branch\n!! doc\nend module pp_hidden_branch\n#else\nmodule pp_shown_branch\n!! doc\nend module pp_shown_branch\n#endif\n"})
            site.write_project_file(proj, popts)
            r = site.run_cli(proj, timeout=600, env={"PYTHONHASHSEED": "0", "VF_CPU_LIMIT": str(CPU_LIMIT * 2), "PYTHONPATH": AUDIT_DIR + ":" + core.REPO})
            res[tag] = (r, tree_hash(os.path.join(proj, "doc")) if os.path.isdir(os.path.join(proj, "doc")) else {})
        classes = sorted({b[1] for b in bad})
        w0 = {"seed": seed, "bad_files": [{"name": b[0], "class": b[1], "text": b[4][:1200].decode("utf-8", "replace")} for b in bad]}
        rb, tb = res["base"]
        rv, tv = res["var"]
        if rb["rc"] != 0:
            return {"inconclusive": "baseline run failed: " + str(rb["stderr"])[-300:], "viol": []}
        if rv["rc"] == "timeout":
            return {"inconclusive": "cli wall-clock time-out without CPU exhaustion", "viol": []}
        if rv["rc"] in (-signal.SIGXCPU, -signal.SIGKILL):
            return {"viol": [{"kf": {"kind": "does_not_terminate", "classes": classes, "layer": "cli"}, "w": {**w0, "cpu_seconds": CPU_LIMIT * 2}}], "outcome": "hang"}
        text = rv["stdout"] + rv["stderr"]
        if rv["rc"] != 0:
            exc = ([m_.group(1) for m_ in re.finditer(r"(?m)^(\w+(?:Error|Exception)):", text)] or ["?"])[-1]
            return {"viol": [{"kf": {"kind": "run_aborted", "phase": phase_of(text), "layer": "cli", "exception": exc}, "w": {**w0, "classes": classes, "rc": rv["rc"], "tail": text[-1500:]}}], "outcome": "aborted"}
        viol = []
        tv_lower = {k.lower() for k in tv}  # (page names are lower-cased)
        documented = [b for b in bad if os.path.join("sourcefile", os.path.basename(b[0]) + ".html").lower() in tv_lower and "/" not in b[0]] + [b for b in bad if "/" in b[0] and set(tv) - set(tb)]
        skipped = [b for b in bad if b not in documented]
        for b in skipped:
            if not named_in_diagnostic(text, b[0]):
                viol.append({"kf": {"kind": "skipped_file_not_named_in_diagnostic", "class": b[1], "layer": "cli"}, "w": {**w0, "file": b[0], "tail": text[-1200:]}})
        if not documented and tv != tb:
            diff = sorted(k for k in set(tb) | set(tv) if tb.get(k) != tv.get(k))
            viol.append({"kf": {"kind": "output_differs_although_file_skipped", "classes": classes, "layer": "cli"}, "w": {**w0, "files": diff[:10], "n": len(diff)}})
        return {"viol": viol, "outcome": "all_skipped" if not documented else "some_accepted", "nfiles": len(tb)}
    finally:
        shutil.rmtree(root, ignore_errors=True)


# ---------------------------------------------------------------------------------------------


def main():
    run = core.Run(
        PID, level="fault_enumeration",
        rule="case = (generated valid project of 3-5 files, 1-3 additional files from {truncation at a statement boundary (every boundary of every "
        "donor file at the thorough tier), inside a continuation, mid-line; complete unit + truncated/garbage; dropped/extra/leading END; doubled or "
        "file-level CONTAINS; truncated right after an opening; undecodable / NUL bytes; unbalanced quote; arbitrary text; & only; empty; never "
        "closed or never opened units; UTF-16 / Latin-1 files; INCLUDE chains that return to a file being read}, file name chosen to sort before / between / after the valid files, "
        "or placed in a sub-directory under the base name of a valid file, names shared "
        "with or foreign to the project). Non-trivial: cases in which FORD skipped at least one additional file.",
        assumptions=["FORD's own verdict (file registered or not) decides whether a file counts as rejected; only undecodable files must be rejected",
                     "hang verdict = CPU limit of %d s in the child (baseline parse < 2 s); wall-clock time-outs are inconclusive" % CPU_LIMIT,
                     "in-process layer uses dbg=True (default), warn off, display all; CLI layer uses defaults plus display all"],
    )
    rp = core.replay_arg()
    if rp:
        w = json.load(open(rp))
        print("witness files:", [(b["name"], b["class"]) for b in w["witness"].get("bad_files", [])], "- re-run ./check C20 with VERIF_SEED=%s" % w["seed"])
        sys.exit(1)
    thorough = run.tier == "thorough"
    base = run.seed * 7919
    seeds = [base + i for i in range(16 if thorough else 5)]
    refs = core.fork_map(reference, [(s,) for s in seeds], per_case_fork=False, case_timeout=400)
    tasks = []
    cli_tasks = []
    for s, (st, r) in zip(seeds, refs):
        if st != "ok" or not r.get("ok"):
            run.inconc(f"reference: {st} {str(r)[-300:]}")
            continue
        valid, donors, lay = valid_project(s)
        cs = corruptions(s, donors, lay, every_boundary=thorough)
        rng = random.Random(s * 3 + 1)
        prefixes = ["a", "c", "g", "j", "m", "z"]
        vnames = sorted(valid)
        for ci, (cls, must, frn, data) in enumerate(cs):
            pos = prefixes[ci % len(prefixes)]
            tasks.append((s, r, [(f"{pos}_bad{ci}.f90", cls, must, frn, data)]))
            if ci % 11 == 5:
                # a long relative path (the diagnostic is longer than a line of an 80-column log)
                tasks.append((s, r, [(f"zz_a_rather_long_directory_name_for_the_legacy_sources/and_one_more_level_below_it/{pos}_bad{ci}.f90", cls, must, frn, data)]))
            if ci % 7 == 3:
                # in a sub-directory, under the base name of one of the valid files, read after (zz_) or before (aa_) it
                tasks.append((s, r, [(f"{rng.choice(['zz_legacy', 'zz_legacy', 'aa_old'])}/{rng.choice(vnames)}", cls, must, frn, data)]))
        # two files that include one header which cannot be read to its end (read before / after / around the valid files), and a file that is
        # rejected because of its include while an include search path is configured
        for hdr in ("shared_bad_nested.inc", "shared_bad_bytes.inc"):
            for p1, p2 in (("a", "c"), ("c", "z"), ("y", "z")):
                twin = [(f"{px}_twin{k}.f90", "twin_including_header_that_fails_midway", False, True,
                         f"module twin_{px}{k}\n!! doc\ninteger :: own{k}\ninclude '{hdr}'\nend module twin_{px}{k}\n".encode()) for k, px in enumerate((p1, p2))]
                tasks.append((s, r, twin))
        tasks.append((s, r, [("aa_legacy/bad_inc_user.f90", "rejected_through_its_include", False, True, b"module legacy_user\n!! doc\ninclude 'legacy_bad.inc'\nend module legacy_user\n")]))
        for _ in range(len(cs) // 4):  # several broken files at once
            pick = rng.sample(range(len(cs)), rng.randint(2, 3))
            tasks.append((s, r, [(f"{rng.choice(prefixes)}_bad{ci}.f90", cs[ci][0], cs[ci][1], cs[ci][2], cs[ci][3]) for ci in pick]))
        ncli = 40 if thorough else 10
        for ci in rng.sample(range(len(cs)), min(ncli, len(cs))):
            nm = f"{rng.choice(prefixes)}_bad{ci}.f90" if rng.random() < 0.6 else rng.choice([f"zz_legacy/{rng.choice(vnames)}", f"zz_a_rather_long_directory_name_for_the_legacy_sources/and_one_more_level_below_it/q_bad{ci}.f90"])
            cli_tasks.append((s, [(nm, cs[ci][0], cs[ci][1], cs[ci][2], cs[ci][3])]))
        if shutil.which("cpp"):
            cli_tasks.append((s, [("a_ppfail.F90", "preprocessor_fails_on_it", False, True, b"#ifdef VF_X\nmodule ppbad\ninteger :: a\nend module ppbad\nend module never_opened\n")]))
        # default settings: files with an upper-case extension are preprocessed (pcpp) before they are read
        bytes_classes = [ci for ci, c in enumerate(cs) if c[0] in ("undecodable_bytes", "utf16_file", "latin1_file", "nul_bytes")]
        for ci in rng.sample(bytes_classes, min(3, len(bytes_classes))) + rng.sample(range(len(cs)), 2):
            cli_tasks.append((s, [(f"{rng.choice(prefixes)}_badpp{ci}.F90", cs[ci][0], cs[ci][1], cs[ci][2], cs[ci][3])]))
    results = core.fork_map(variant, tasks, per_case_fork=False, case_timeout=500, total_timeout=3000)
    for t, (st, r) in zip(tasks, results):
        if st != "ok":
            run.inconc(f"{st}: {str(r)[-300:]}")
            continue
        if r.get("inconclusive"):
            run.inconc(r["inconclusive"])
            continue
        run.case(key=core.h([t[0], [(b[0], hashlib.sha256(b[4]).hexdigest()) for b in t[2]]]), nontrivial=r.get("nskipped", 0) > 0 or r["outcome"] in ("hang", "aborted", "died"),
                 sample={"seed": t[0], "files": [(b[0], b[1]) for b in t[2]], "outcome": r["outcome"]} if r.get("nskipped") and len(t[2]) > 1 else None)
        run.count("outcome_" + r["outcome"])
        run.count("files_skipped", r.get("nskipped", 0))
        run.count("files_accepted", r.get("naccepted", 0))
        for c in r.get("skipped_classes", []):
            run.seen("classes_skipped_by_ford", c)
        for c in r.get("accepted_classes", []):
            run.seen("classes_accepted_by_ford", c)
        for c in r.get("classes", []):
            run.seen("corruption_classes", c)
        for p in r.get("positions", []):
            run.seen("positions", p)
        for v in r["viol"]:
            run.violation(v["kf"], v["w"])
    mtasks = [(s, r) for s, (st, r) in zip(seeds, refs) if st == "ok" and r.get("ok")][: (6 if thorough else 3)]
    for t, (st, r) in zip(mtasks, core.fork_map(many_rejected, mtasks, per_case_fork=False, case_timeout=500)):
        if st != "ok" or r.get("inconclusive"):
            run.inconc(f"many rejected: {st} {str(r)[-200:]}")
            continue
        run.case(key=f"many{t[0]}", nontrivial=r.get("nrejected", 0) > 100)
        run.count("files_skipped", r.get("nrejected", 0))
        run.count("runs_with_150_rejected_files_under_a_limit_of_64_open_files", 1)
        for v in r["viol"]:
            run.violation(v["kf"], v["w"])
    results = core.fork_map(cli_case, cli_tasks, per_case_fork=False, case_timeout=1300, total_timeout=3000)
    for t, (st, r) in zip(cli_tasks, results):
        if st != "ok":
            run.inconc(f"cli {st}: {str(r)[-300:]}")
            continue
        if r.get("inconclusive"):
            run.inconc(r["inconclusive"])
            continue
        run.case(key="cli" + core.h([t[0], [(b[0], hashlib.sha256(b[4]).hexdigest()) for b in t[1]]]), nontrivial=r["outcome"] == "all_skipped")
        run.count("cli_runs_" + r["outcome"])
        run.count("cli_output_files_compared", r.get("nfiles", 0) if r["outcome"] == "all_skipped" else 0)
        for v in r["viol"]:
            run.violation(v["kf"], v["w"])
    run.finish(floors={"evaluations": 100, "distinct_nontrivial": 40, "files_skipped": 40, "corruption_classes": 25, "cli_runs_all_skipped": 8, "positions": 6})


if __name__ == "__main__":
    main()
