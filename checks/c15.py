"""C15 - options mean the same in every configuration format, with CLI precedence.

Runtime monitor: the real ford.initialize() (argparse + load_settings + parse_arguments) is driven
with the same option set written as project-file metadata, as fpm.toml [extra.ford] and as --config,
from several working directories; the resulting ProjectSettings objects are compared with each other
(metamorphic) and with a small semantic model (reference).  Diagnostics are captured by recorders on
ford.settings.warn / ford.console.warn and on the exceptions / SystemExit raised.
"""
from __future__ import annotations

import dataclasses
import io
import json
import os
import random
import shutil
import sys
import typing
from contextlib import redirect_stderr, redirect_stdout
from pathlib import Path

from vf import core

ford = core.setup_env()
import icontract  # noqa: E402
import ford.settings as fs  # noqa: E402

PID = "C15"

SKIP_FIELDS = {"relative", "creation_date", "directory"}
# options whose value space is constrained by other options (kept to safe values)
SAFE_STR = {
    # (an empty value switches a marker off)
    "docmark": ["!", "@"], "predocmark": [">", "^", ""], "docmark_alt": ["*", "%", ""], "predocmark_alt": ["|", "~", ""],
    "encoding": ["utf-8", "latin-1"], "sort": ["src", "alpha", "permission-alpha"],
    "preprocessor": ["cpp -traditional-cpp -E", "pcpp -D__GFORTRAN__ --passthru-comments"],
    "license": ["by", "mit", "custom text"], "doc_license": ["gfdl", ""],
}


os.environ["VF_ABS_ROOT"] = "/vf_abs/env_root"
os.environ["VF_REL_PART"] = "rel_from_env"


def _defaults():
    out = {}
    for f in dataclasses.fields(fs.ProjectSettings):
        if f.default is not dataclasses.MISSING:
            out[f.name] = f.default
    return out


DEFAULTS = _defaults()


def type_class(tp):
    o = typing.get_origin(tp)
    args = typing.get_args(tp)
    if tp is bool:
        return "bool"
    if tp is int:
        return "int"
    if tp is str:
        return "str"
    if tp is Path:
        return "path"
    if tp is list:
        return "list_str"
    if o is typing.Union:
        inner = [a for a in args if a is not type(None)]
        if len(inner) == 1:
            return "opt_" + type_class(inner[0])
    if o is list:
        return "list_path" if args and args[0] is Path else "list_str"
    if o is dict:
        if args and args[1] is fs.ExtraFileType:
            return "dict_filetype"
        return "dict_str"
    return "other"


def values_for(name, cls, rng):
    """Representative and boundary values (python objects) for a field."""
    base = cls.replace("opt_", "")
    if name in SAFE_STR:
        return SAFE_STR[name]
    if base == "bool":
        return [True, False]
    if base == "int":
        return [0, 1, 7, 123456, -1]
    if base == "str":
        if name in ("summary", "author_description", "project_url", "privacy_policy_url", "terms_of_service_url"):
            return ["abc", "two words"] + (["first line\nNote: second line\nhttps://example.org/third"] if name in ("summary", "author_description") else ["https://example.org/a/b"])
        return ["abc", "two words", "x_y-z.1", "Caps And 123", '3.5" floppy tools', "it's 'quoted' \\ back", ""]
    if base == "path":
        vals = ["sub/dir", "./a/../b", "plain", "/abs/olute/p", "$VF_ABS_ROOT/envp", "${VF_ABS_ROOT}/envq/r", "$VF_REL_PART/envs"]  # environment variables are expanded first
        # the user's own file or directory named like the built-in default (favicon.png next to the project file ...)
        dflt = DEFAULTS.get(name)
        if isinstance(dflt, (str, Path)) and Path(dflt).name:
            vals += [Path(dflt).name, "./" + Path(dflt).name]
        return vals
    if base == "list_str":
        if name == "display":
            return [["public"], ["PUBLIC", "Private"], ["none"], ["public", "protected", "private"]]
        if name == "extensions":
            return [["f90"], ["f90", "fpp", "F90"]]
        if name == "fixed_extensions":
            return [["f"], ["f77", "for"]]
        if name == "fpp_extensions":
            return [["F90"], ["fpp", "F"]]
        return [["one"], ["one", "two"], ["a b", "c", "d"], ["plain", "key: like", "https://example.org/x"]]
    if base == "list_path":
        return [["p1"], ["p1", "../p2", "/abs/p3"], ["$VF_ABS_ROOT/lp", "$VF_REL_PART/lq"]]
    if base == "dict_str":
        if name == "external":
            return [{"remote": "https://example.org/doc"}, {"a": "https://a.example", "b": "../local/doc"}]
        if name == "extra_mods":
            return [{"json_module": "https://example.org/json"}, {"m1": "https://a.example/x", "m2": "https://b.example"}]
        return [{"k": "v"}, {"k1": "v 1", "k2": "v2"}]
    if base == "dict_filetype":
        return [{"c": ("c", "//", None)}, {"cpp": ("cpp", "//", None), "sh": ("sh", "#", "BashLexer")}]
    return []


def bad_values_for(cls):
    """Ill-typed values (as they would be typed by a user), per format: (md text, toml literal)."""
    base = cls.replace("opt_", "")
    if base == "bool":
        return [("maybe", '"maybe"'), ("2", "2")]
    if base == "int":
        return [("three", '"three"'), ("1.5x", '"1.5x"')]
    if base == "dict_str":
        return [("no_separator_here", '["no_separator_here"]')]
    if base == "dict_filetype":
        return [("onlyone", '["onlyone"]')]
    # TOML has typed literals: a boolean is not a string / path (metadata has no such distinction: md side skipped)
    if base in ("str", "path"):
        return [(None, "true")]
    if base in ("list_str", "list_path"):
        return [(None, '["a", false]')]
    return []


# ---------------------------------------------------------------------------------------------
# renderers for the three formats


def md_value_lines(name, cls, v):
    base = cls.replace("opt_", "")
    if base == "bool":
        return ["true" if v else "False"]
    if base in ("int", "str", "path"):
        return str(v).split("\n")  # a multi-line string is written on continuation lines
    if base in ("list_str", "list_path"):
        return [str(x) for x in v]
    if base == "dict_str":
        sep = fs.OPTION_SEPARATORS.get(name, "=")
        # blanks around the separator are optional: both spellings are used
        return [f"{k}{sep} {val}" if i % 2 else f"{k} {sep} {val}" for i, (k, val) in enumerate(v.items())]
    if base == "dict_filetype":
        return [" ".join(x for x in t if x) for t in v.values()]
    raise ValueError(cls)


def md_render(opts, alt=False):
    """opts: list of (name, cls, value) -> metadata block text.  `alt`: the other spellings the Markdown meta-data syntax allows
    for the same content - `---` fences, keys in capitals or indented by up to three blanks, padded values, a multi-valued option
    as one line per value that repeats the key, deeper continuation lines, several blanks / a tab between the fields of a file type."""
    lines = []
    for i, (name, cls, v) in enumerate(opts):
        vl = v if isinstance(v, list) and cls == "raw" else md_value_lines(name, cls, v)
        if not alt:
            lines.append(f"{name}: {vl[0]}")
            for extra in vl[1:]:
                lines.append(f"    {extra}")
            continue
        base = cls.replace("opt_", "")
        if base == "dict_filetype":
            vl = [(" \t " if k % 2 else "   ").join(x.split(" ")) for k, x in enumerate(vl)]
        key = [name.upper(), "  " + name, name.capitalize(), name][i % 4]
        multi = base in ("list_str", "list_path", "dict_str", "dict_filetype")
        if multi and len(vl) > 1 and i % 3 == 0:
            lines += [f"{key}:   {x}  " for x in vl]
        elif base in ("dict_str", "dict_filetype") and i % 3 == 1:  # (an empty entry means something in a plain list: switch copy_subdir off ...)
            # nothing on the key line, every entry on a continuation line
            lines.append(f"{key}:")
            lines += [f"    {x}" for x in vl]
        else:
            lines.append(f"{key}:\t{vl[0]} ")
            for extra in vl[1:]:
                lines.append(f"      \t{extra}  ")
    return "---\n" + "\n".join(lines) + "\n---" if alt else "\n".join(lines)


def toml_literal(name, cls, v):
    base = cls.replace("opt_", "")
    if cls == "raw":
        return v
    if base == "bool":
        return "true" if v else "false"
    if base == "int":
        return str(v)
    if base in ("str", "path"):
        return json.dumps(v)
    if base in ("list_str", "list_path"):
        if len(v) == 1 and len(name) % 2 == 0:
            return json.dumps(v[0])  # a single value may be written without the brackets
        return "[" + ", ".join(json.dumps(x) for x in v) + "]"
    if base == "dict_str":
        return "{ " + ", ".join(f"{json.dumps(k)} = {json.dumps(val)}" for k, val in v.items()) + " }"
    if base == "dict_filetype":
        items = []
        for ext, com, lex in v.values():
            s = f"extension = {json.dumps(ext)}, comment = {json.dumps(com)}"
            if lex:
                s += f", lexer = {json.dumps(lex)}"
            items.append("{ " + s + " }")
        return "[" + ", ".join(items) + "]"
    raise ValueError(cls)


def toml_render(opts):
    return "[extra.ford]\n" + "\n".join(f"{n} = {toml_literal(n, c, v)}" for n, c, v in opts) + "\n"


def config_render(opts):
    return "; ".join(f"{n} = {toml_literal(n, c, v)}" for n, c, v in opts)


# ---------------------------------------------------------------------------------------------
# driving the real code

WARNINGS = []


def _rec_warn(*a, **k):
    WARNINGS.append(" ".join(str(x) for x in a))


CONTRACT = {"convert_setting_evals": 0, "viol": []}


def _conforms(tp, val):
    cls = type_class(tp)
    base = cls.replace("opt_", "")
    if val is None:
        return cls.startswith("opt_")
    if base == "bool":
        return isinstance(val, bool)
    if base == "int":
        return isinstance(val, int) and not isinstance(val, bool)
    if base in ("str",):
        return isinstance(val, str)
    if base == "path":
        return isinstance(val, (str, Path))
    if base in ("list_str", "list_path"):
        return isinstance(val, list)
    if base in ("dict_str", "dict_filetype"):
        return isinstance(val, dict)
    return True


def _post_convert_setting(default_type, key, value, result):
    CONTRACT["convert_setting_evals"] += 1
    if not _conforms(default_type, result):
        if len(CONTRACT["viol"]) < 20:
            CONTRACT["viol"].append((key, repr(value)[:80], repr(result)[:80], str(default_type)))
    return True


class ContractBroken(Exception):
    pass


def install():
    wrapped = icontract.ensure(_post_convert_setting, error=ContractBroken)(fs.convert_setting)
    fs.convert_setting = wrapped
    import ford.console

    for mod in (fs, ford.console, sys.modules["ford"]):
        if hasattr(mod, "warn"):
            mod.warn = _rec_warn
    import ford.utils
    import ford.fortran_project
    import ford.sourceform
    import ford.reader

    for mod in (ford.fortran_project, ford.sourceform, ford.reader):
        mod.warn = _rec_warn


def canon(settings):
    d = dataclasses.asdict(settings)
    for k in ("creation_date",):
        d.pop(k, None)
    out = {}
    for k, v in d.items():
        if k == "extensions":
            v = sorted(map(str, v))
        out[k] = _c(v)
    return out


def _c(v):
    if isinstance(v, Path):
        return "P:" + str(v)
    if isinstance(v, dict):
        return {str(k): _c(x) for k, x in v.items()}
    if isinstance(v, (list, tuple)):
        return [_c(x) for x in v]
    return v


def run_ford_settings(projdir, cwd, cli):
    """Run the real initialize() with argv; return dict(outcome, settings|message, warnings, stdout)."""
    WARNINGS.clear()
    old_argv, old_cwd = sys.argv, os.getcwd()
    out, err = io.StringIO(), io.StringIO()
    res = {}
    try:
        os.chdir(cwd)
        pf = os.path.relpath(os.path.join(projdir, "proj.md"), cwd)
        sys.argv = ["ford", pf] + cli
        with redirect_stdout(out), redirect_stderr(err):
            try:
                settings, docs = ford.initialize()
                res = {"outcome": "ok", "settings": canon(settings), "docs": docs}
            except SystemExit as e:
                res = {"outcome": "exit", "message": str(e.code)}
            except Exception as e:
                res = {"outcome": "raise", "message": f"{type(e).__name__}: {e}"}
    finally:
        sys.argv = old_argv
        os.chdir(old_cwd)
    res["warnings"] = list(WARNINGS)
    res["stdout"] = out.getvalue()[-2000:] + err.getvalue()[-2000:]
    return res


BASE_OPTS = [("preprocess", "bool", False)]


def make_dirs(root, opts, unknown=None, raw_bad=None):
    """Create three sibling project directories carrying the same options in the three formats.
    Returns {format: (projdir, cli)}"""
    res = {}
    for fmt in ("md", "md_alt", "toml", "config"):
        d = os.path.join(root, fmt, "proj")
        os.makedirs(d, exist_ok=True)
        os.makedirs(os.path.join(root, fmt, "elsewhere", "deep"), exist_ok=True)
        allopts = BASE_OPTS + [o for o in opts if o[0] != "preprocess"] if not any(o[0] == "preprocess" for o in opts) else list(opts)
        cli = []
        if fmt in ("md", "md_alt"):
            # (the line that ends the metadata may hold blanks; the text after it may look like a key)
            sep = "\n     \t \nNote: front page text.\n" if (fmt == "md" and int(core.h([str(o) for o in allopts])[:2], 16) % 2 == 0) else "\n\nFront page text.\n"
            text = md_render(allopts, alt=fmt == "md_alt") + sep
        elif fmt == "toml":
            text = "Front page text.\n"
            with open(os.path.join(d, "fpm.toml"), "w") as f:
                f.write('name = "x"\n' + toml_render(allopts))
        else:
            text = "Front page text.\n"
            cli = ["--config", config_render(allopts)]
        with open(os.path.join(d, "proj.md"), "w") as f:
            f.write(text)
        res[fmt] = (d, cli)
    return res


def expected_scalar(name, cls, v, projdir):
    """Reference semantics for a single option value (None = no expectation beyond agreement)."""
    base = cls.replace("opt_", "")
    if base in ("bool", "int"):
        return v
    if base == "str":
        if name in ("license", "doc_license"):
            return None  # mapped to HTML snippets
        return v
    if base == "path":
        return "P:" + str(Path(os.path.normpath(os.path.join(projdir, os.path.expandvars(v)))))
    if base == "list_path":
        exp = ["P:" + str(Path(os.path.normpath(os.path.join(projdir, os.path.expandvars(x))))) for x in v]
        return exp
    if base == "list_str":
        if name == "display":
            return [x.lower() for x in v]
        if name in ("extensions", "fpp_extensions"):
            return None  # extensions is a union; fpp_extensions is emptied when preprocess is off
        return list(v)
    if base == "dict_str":
        return None if name == "extra_mods" else dict(v)
    return None


def case_equivalence(item):
    """One option set in three formats x working directories."""
    opts = item["opts"]
    root = core.mktemp("vf_c15_")
    try:
        dirs = make_dirs(root, opts)
        results = {}
        for fmt, (d, cli) in dirs.items():
            cwds = [d, os.path.dirname(d), os.path.join(os.path.dirname(d), "elsewhere", "deep")]
            # decoys: entries of the same relative name exist in the *other* working directories only
            for cwd in cwds[1:]:
                for rel in ["doc", "src"] + [x for n, c, v in opts if "path" in c for x in (v if isinstance(v, list) else [v])]:
                    if not os.path.isabs(rel):
                        os.makedirs(os.path.normpath(os.path.join(cwd, rel)), exist_ok=True)
            for ci, cwd in enumerate(cwds):
                results[(fmt, ci)] = run_ford_settings(d, cwd, cli)
        viol = []
        # normalise project-dir specific absolute prefixes so the three dirs are comparable
        def strip(fmt, obj):
            base = os.path.realpath(os.path.dirname(dirs[fmt][0]))
            s = json.dumps(obj, sort_keys=True, default=str).replace(base, "<R>")
            return json.loads(s)

        ref_fmt = "md"
        ref = results[("md", 0)]
        for (fmt, ci), r in results.items():
            if r["outcome"] != "ok":
                viol.append({"kind": "valid_options_rejected", "format": fmt, "cwd": ci, "message": r.get("message", "")[:300],
                             "option": opts[0][0] if len(opts) == 1 else "multi", "type": opts[0][1] if len(opts) == 1 else "multi"})
        oks = {k: strip(k[0], r["settings"]) for k, r in results.items() if r["outcome"] == "ok"}
        # (a) same format, different cwd
        for fmt in ("md", "md_alt", "toml", "config"):
            ks = [k for k in oks if k[0] == fmt]
            for k in ks[1:]:
                if oks[k] != oks[ks[0]]:
                    diff = [f for f in oks[k] if oks[k][f] != oks[ks[0]][f]]
                    viol.append({"kind": "depends_on_cwd", "format": fmt, "fields": diff, "option": opts[0][0] if len(opts) == 1 else "multi"})
        # (b) across formats
        if ("md", 0) in oks:
            for fmt in ("md_alt", "toml", "config"):
                if (fmt, 0) in oks and oks[(fmt, 0)] != oks[("md", 0)]:
                    a, b = oks[("md", 0)], oks[(fmt, 0)]
                    diff = sorted(f for f in a if a[f] != b.get(f))
                    set_fields = {o[0] for o in opts}
                    viol.append({"kind": "formats_disagree", "format": fmt, "fields": diff,
                                 "option": opts[0][0] if len(opts) == 1 else "multi",
                                 "type": opts[0][1] if len(opts) == 1 else "multi",
                                 "diff_only_in_set_fields": set(diff) <= set_fields,
                                 "md": {f: a[f] for f in diff}, fmt: {f: b.get(f) for f in diff}})
        # (c) reference semantics for each set option, on the md result and toml result
        for fmt in ("md", "md_alt", "toml", "config"):
            if (fmt, 0) not in oks:
                continue
            got = oks[(fmt, 0)]
            for name, cls, v in opts:
                exp = expected_scalar(name, cls, v, "/<R>/proj")
                if exp is None:
                    continue
                exp = json.loads(json.dumps(exp).replace("P:/<R>", "P:<R>"))
                g = got.get(name)
                if name == "exclude_dir":
                    g = [x for x in g if x in exp] if isinstance(g, list) else g  # output_dir is appended by design
                if g != exp:
                    viol.append({"kind": "value_not_as_written", "format": fmt, "option": name, "type": cls,
                                 "expected": exp, "observed": g})
        return {"viol": viol, "n_runs": len(results), "contract": dict(CONTRACT), "sample": {"opts": [(n, c, v) for n, c, v in opts], "md": md_render(BASE_OPTS + list(opts)), "toml": toml_render(list(opts)), "config": config_render(list(opts))}}
    finally:
        shutil.rmtree(root, ignore_errors=True)


CLI_FLAGS = {
    # option -> (cli args builder, value used, class)
    "src_dir": (lambda v: sum((["-d", x] for x in v), []), ["clisrc", "other/src"], "list_path"),
    "page_dir": (lambda v: ["-p", v], "clipages", "opt_path"),
    "output_dir": (lambda v: ["-o", v], "cliout", "path"),
    "css": (lambda v: ["-s", v], "cli.css", "opt_path"),
    "revision": (lambda v: ["-r", v], "rev-cli", "opt_str"),
    "exclude": (lambda v: sum((["--exclude", x] for x in v), []), ["cli_excl.f90"], "list_str"),
    "exclude_dir": (lambda v: sum((["--exclude_dir", x] for x in v), []), ["cli_excl_dir"], "list_path"),
    "extensions": (lambda v: sum((["-e", x] for x in v), []), ["f18"], "list_str"),
    "macro": (lambda v: sum((["-m", x] for x in v), []), ["CLI=1"], "list_str"),
    "warn": (lambda v: ["-w"], True, "bool"),
    "force": (lambda v: ["-f"], True, "bool"),
    "graph": (lambda v: ["-g"], True, "bool"),
    "search": (lambda v: ["--no-search"], False, "bool"),
    "quiet": (lambda v: ["-q"], True, "bool"),
    "dbg": (lambda v: ["--debug"], True, "bool"),
    "include": (lambda v: sum((["-I", x] for x in v), []), ["cli_inc"], "list_path"),
    "externalize": (lambda v: ["--externalize"], True, "bool"),
}
FILE_VALUES_FOR_CLI = {
    "src_dir": ["filesrc"], "page_dir": "filepages", "output_dir": "fileout", "css": "file.css", "revision": "rev-file",
    "exclude": ["file_excl.f90"], "exclude_dir": ["file_excl_dir"], "extensions": ["f77x"], "macro": ["FILE=1"],
    "warn": False, "force": False, "graph": False, "search": True, "quiet": False, "dbg": False, "include": ["file_inc"],
    "externalize": False,
}


def case_precedence(item):
    """CLI > file > default for every option argparse exposes, in md and toml."""
    name = item["name"]
    build, clival, cls = CLI_FLAGS[name]
    fileval = FILE_VALUES_FOR_CLI[name]
    root = core.mktemp("vf_c15_")
    viol = []
    try:
        dirs = make_dirs(root, [(name, cls, fileval)])
        nruns = 0
        for fmt in ("md", "toml", "config"):
            d, cli0 = dirs[fmt]
            r_file = run_ford_settings(d, d, cli0)
            r_cli = run_ford_settings(d, d, cli0 + build(clival))
            nruns += 2
            base = os.path.realpath(os.path.dirname(d))
            for tag, r, want in (("file_over_default", r_file, fileval), ("cli_over_file", r_cli, clival)):
                if r["outcome"] != "ok":
                    viol.append({"kind": "valid_options_rejected", "format": fmt, "option": name, "type": cls, "message": r.get("message", "")[:300], "cwd": 0})
                    continue
                got = json.loads(json.dumps(r["settings"][name], default=str).replace(base, "<R>"))
                exp = expected_scalar(name, cls, want, "/<R>/proj")
                if exp is not None:
                    exp = json.loads(json.dumps(exp).replace("P:/<R>", "P:<R>"))
                    g = got
                    if name == "exclude_dir":
                        g = [x for x in got if x in exp]
                    if g != exp:
                        viol.append({"kind": "precedence", "which": tag, "format": fmt, "option": name, "expected": exp, "observed": got})
                elif name == "extensions":
                    if not set(want) <= set(got):
                        viol.append({"kind": "precedence", "which": tag, "format": fmt, "option": name, "expected": want, "observed": got})
        return {"viol": viol, "n_runs": nruns, "contract": dict(CONTRACT), "sample": None}
    finally:
        shutil.rmtree(root, ignore_errors=True)


def case_unknown_key(item):
    """Unknown keys are reported without aborting; the other options still take effect."""
    root = core.mktemp("vf_c15_")
    viol = []
    try:
        key = item["key"]
        opts = [("project", "str", "Named Project"), (key, "raw", item["toml"] if False else None)]
        nruns = 0
        for fmt in ("md", "toml", "config"):
            d = os.path.join(root, fmt, "proj")
            os.makedirs(d)
            cli = []
            if fmt == "md":
                text = f"preprocess: false\nproject: Named Project\n{key}: {item['md']}\n\nText\n"
            elif fmt == "toml":
                text = "Text\n"
                open(os.path.join(d, "fpm.toml"), "w").write(f'[extra.ford]\npreprocess = false\nproject = "Named Project"\n{key} = {item["toml"]}\n')
            else:
                text = "Text\n"
                cli = ["--config", f'preprocess = false; project = "Named Project"; {key} = {item["toml"]}']
            open(os.path.join(d, "proj.md"), "w").write(text)
            r = run_ford_settings(d, d, cli)
            nruns += 1
            if r["outcome"] != "ok":
                viol.append({"kind": "unknown_key_aborts", "format": fmt, "message": r.get("message", "")[:200]})
                continue
            if r["settings"].get("project") != "Named Project":
                viol.append({"kind": "unknown_key_disturbs_others", "format": fmt})
            if key in r["settings"]:
                pass
            reported = any(key in w for w in r["warnings"]) or key in r["stdout"]
            if not reported:
                viol.append({"kind": "unknown_key_not_reported", "format": fmt})
        return {"viol": viol, "n_runs": nruns, "contract": dict(CONTRACT), "sample": None}
    finally:
        shutil.rmtree(root, ignore_errors=True)


def case_bad_value(item):
    """Ill-typed values are rejected with a message naming the option."""
    name, cls, md_text, toml_lit = item["name"], item["cls"], item["md"], item["toml"]
    root = core.mktemp("vf_c15_")
    viol = []
    try:
        nruns = 0
        for fmt in ("md", "toml", "config"):
            if fmt == "md" and md_text is None:
                continue
            d = os.path.join(root, fmt, "proj")
            os.makedirs(d)
            cli = []
            if fmt == "md":
                text = ("" if name == "preprocess" else "preprocess: false\n") + f"{name}: {md_text}\n\nText\n"
            elif fmt == "toml":
                text = "Text\n"
                open(os.path.join(d, "fpm.toml"), "w").write("[extra.ford]\n" + ("" if name == "preprocess" else "preprocess = false\n") + f"{name} = {toml_lit}\n")
            else:
                text = "Text\n"
                cli = ["--config", ("" if name == "preprocess" else "preprocess = false; ") + f"{name} = {toml_lit}"]
            open(os.path.join(d, "proj.md"), "w").write(text)
            r = run_ford_settings(d, d, cli)
            nruns += 1
            base = cls.replace("opt_", "")
            if r["outcome"] == "ok":
                viol.append({"kind": "ill_typed_accepted", "format": fmt, "option": name, "type": base,
                             "value": md_text if fmt == "md" else toml_lit, "stored": repr(r["settings"].get(name))[:100]})
            elif name not in r.get("message", "") and name.rstrip("s") not in r.get("message", ""):
                viol.append({"kind": "rejection_does_not_name_option", "format": fmt, "option": name, "type": base,
                             "message": r.get("message", "")[:200]})
        return {"viol": viol, "n_runs": nruns, "contract": dict(CONTRACT), "sample": None}
    finally:
        shutil.rmtree(root, ignore_errors=True)


def case_config_over_file(item):
    """A table option given with --config replaces (not merges with) the table of the project file / fpm.toml."""
    name, cls = item["name"], item["cls"]
    filev, cfgv = item["file"], item["config"]
    root = core.mktemp("vf_c15_")
    viol = []
    try:
        dirs = make_dirs(root, [(name, cls, filev)])
        n = 0
        for fmt in ("md", "toml"):
            d, cli0 = dirs[fmt]
            r = run_ford_settings(d, d, ["--config", config_render([(name, cls, cfgv)])])
            n += 1
            if r["outcome"] != "ok":
                viol.append({"kind": "valid_options_rejected", "format": fmt, "option": name, "type": cls, "message": r.get("message", "")[:300], "cwd": 0})
                continue
            got = r["settings"][name]
            keys_file = [k for k in (filev if isinstance(filev, dict) else {}) if k not in cfgv]
            has = (lambda k: k in got) if isinstance(got, dict) else (lambda k: f'"{k}"' in json.dumps(got, default=str))
            surviving = [k for k in keys_file if has(k)]
            missing = [k for k in cfgv if not has(k)]
            if surviving or missing:
                viol.append({"kind": "precedence", "which": "config_over_file_table", "format": fmt, "option": name, "expected": cfgv, "observed": got,
                             "entries_of_the_file_survive": surviving, "entries_of_config_missing": missing})
        return {"viol": viol, "n_runs": n, "contract": dict(CONTRACT), "sample": None}
    finally:
        shutil.rmtree(root, ignore_errors=True)


def case_toml_table(item):
    """fpm.toml with an [extra.ford] table takes the place of the project file's metadata - also when the table is empty (everything
    at its default) or holds comments only; the metadata lines of proj.md are then text."""
    root = core.mktemp("vf_c15t_")
    try:
        viol = []
        res = {}
        for variant, table in (("one_neutral_key", "[extra.ford]\nquiet = false\n"), ("empty", "[extra.ford]\n"), ("comments_only", "[extra.ford]\n# nothing set here\n\n"),
                               ("empty_inline", "[extra]\nford = {}\n")):
            d = os.path.join(root, variant, "proj")
            os.makedirs(d)
            open(os.path.join(d, "fpm.toml"), "w").write('name = "x"\n' + table)
            open(os.path.join(d, "proj.md"), "w").write(f"project: FromMetadata\nauthor: {item['author']}\n\nFront page text.\n")
            res[variant] = run_ford_settings(d, d, [])
            if res[variant]["outcome"] == "ok":
                res[variant]["settings"] = json.loads(json.dumps(res[variant]["settings"], sort_keys=True, default=str).replace(os.path.realpath(os.path.dirname(d)), "<R>"))
        ref = res["one_neutral_key"]
        for variant, r in res.items():
            if r["outcome"] != "ok":
                viol.append({"kind": "valid_options_rejected", "format": "toml", "option": "(table " + variant + ")", "type": "table", "message": r.get("message", "")[:200], "cwd": 0})
            elif ref["outcome"] == "ok" and r["settings"] != ref["settings"]:
                diff = sorted(f for f in ref["settings"] if ref["settings"][f] != r["settings"].get(f))
                viol.append({"kind": "formats_disagree", "format": "toml_table_" + variant, "fields": diff, "option": "(table)", "type": "table", "diff_only_in_set_fields": False,
                             "reference": {f: ref["settings"][f] for f in diff}, variant: {f: r["settings"].get(f) for f in diff}})
        return {"viol": viol, "n_runs": len(res), "contract": dict(CONTRACT), "sample": None}
    finally:
        shutil.rmtree(root, ignore_errors=True)


def case_locale(item):
    """The project file and fpm.toml are UTF-8 whatever the locale of the process: a non-ASCII option value reads the same from both
    under LC_ALL=C (fresh interpreter: the default text encoding is fixed at start-up)."""
    import subprocess

    root = core.mktemp("vf_c15l_")
    try:
        viol = []
        got = {}
        val = item["value"]
        for fmt in ("md", "toml"):
            d = os.path.join(root, fmt)
            os.makedirs(d)
            if fmt == "md":
                open(os.path.join(d, "proj.md"), "w", encoding="utf-8").write(f"project: {val}\npreprocess: false\n\nFront page text.\n")
            else:
                open(os.path.join(d, "proj.md"), "w", encoding="utf-8").write("Front page text.\n")
                open(os.path.join(d, "fpm.toml"), "w", encoding="utf-8").write(f'name = "x"\n[extra.ford]\nproject = {json.dumps(val, ensure_ascii=False)}\npreprocess = false\n')
            code = ("import sys, json\nsys.path.insert(0, %r)\nimport ford\nsys.argv = ['ford', 'proj.md']\n"
                    "s, docs = ford.initialize()\nsys.stdout.buffer.write(json.dumps({'project': s.project}).encode('ascii'))\n" % core.REPO)
            env = {**os.environ, "LC_ALL": "C", "LANG": "C", "PYTHONUTF8": "0", "PYTHONCOERCECLOCALE": "0", "FORD_DEBUGGING": "1"}
            env.pop("PYTHONIOENCODING", None)
            p_ = subprocess.run([sys.executable, "-c", code], cwd=d, env=env, capture_output=True, timeout=120)
            try:
                got[fmt] = json.loads(p_.stdout.decode("ascii").strip().splitlines()[-1])["project"] if p_.returncode == 0 else f"exit {p_.returncode}: " + p_.stderr.decode("utf-8", "replace").strip().splitlines()[-1][:150]
            except Exception as e:  # noqa: BLE001
                got[fmt] = f"unreadable output ({type(e).__name__}): " + p_.stdout.decode("utf-8", "replace")[-150:]
        for fmt in ("md", "toml"):
            if got[fmt] != val:
                viol.append({"kind": "value_not_as_written", "format": fmt + "_under_C_locale", "option": "project", "type": "str", "expected": val, "observed": got[fmt]})
        return {"viol": viol, "n_runs": 2, "contract": dict(CONTRACT), "sample": None}
    finally:
        shutil.rmtree(root, ignore_errors=True)


def dispatch(item):
    return {"equiv": case_equivalence, "prec": case_precedence, "unknown": case_unknown_key, "bad": case_bad_value, "prec_config": case_config_over_file, "toml_table": case_toml_table, "locale": case_locale}[item["kind"]](item)


# fields that ProjectSettings.__post_init__ normalises (used only to key a known finding)
POST_INIT_FIELDS = {"display", "extensions", "exclude_dir", "extra_filetypes", "extra_mods", "project_url", "relative"}


def classify(v, item):
    kf = {"kind": v["kind"], "format": v.get("format", "")}
    for k in ("option", "type", "which", "diff_only_in_set_fields"):
        if k in v:
            kf[k] = v[k]
    if v["kind"] == "formats_disagree":
        kf["fields"] = ",".join(v["fields"])
        kf["only_post_init_normalised_fields"] = set(v["fields"]) <= POST_INIT_FIELDS
    if v["kind"] == "value_not_as_written":
        kf["only_post_init_normalised_fields"] = v.get("option") in POST_INIT_FIELDS
    return kf


def main():
    install()
    run = core.Run(
        PID,
        rule="case kinds: (equiv) one option or a random subset of options written in the 3 formats x 3 working directories, "
        "ProjectSettings compared across formats/cwds and against a reference semantics; (prec) each argparse-exposed option: "
        "default < file < CLI in each format; (unknown) unknown keys; (bad) ill-typed values. Fields and types are introspected "
        "from ProjectSettings at run time. Non-trivial: every case sets at least one non-default option; distinct by "
        "(kind, option set, values).",
        assumptions=[
            "option values avoid ';' (reserved by --config) and leading/trailing blanks (not representable in metadata)",
            "mutually constrained options (doc markers, extension lists) take values that satisfy the documented constraints",
            "`extensions` is compared as a set (its order comes from a set union; ordering is C12's subject)",
        ],
    )
    rp = core.replay_arg()
    if rp:
        w = json.load(open(rp))["witness"]
        r = dispatch(w["item"])
        print("replay:", "VIOLATION" if r["viol"] else "held")
        print(json.dumps(r["viol"], indent=1, default=str)[:4000])
        sys.exit(1 if r["viol"] else 0)

    rng = random.Random(run.seed * 31 + 5)
    hints = typing.get_type_hints(fs.ProjectSettings)
    fields = [f for f in dataclasses.fields(fs.ProjectSettings) if f.name not in SKIP_FIELDS]
    items = []
    classes = {}
    for f in fields:
        cls = type_class(hints[f.name])
        classes[f.name] = cls
        for v in values_for(f.name, cls, rng):
            items.append({"kind": "equiv", "opts": [(f.name, cls, v)]})
        for md_text, toml_lit in bad_values_for(cls):
            items.append({"kind": "bad", "name": f.name, "cls": cls, "md": md_text, "toml": toml_lit})
    for name in CLI_FLAGS:
        items.append({"kind": "prec", "name": name})
    for a in ("A. Uthor", "someone else"):
        items.append({"kind": "toml_table", "author": a})
    for v in ("Caf\u00e9 na\u00efve", "\u03a9mega \u2014 project"):
        items.append({"kind": "locale", "value": v})
    for f in fields:
        cls = classes[f.name]
        vals = values_for(f.name, cls, rng)
        if cls.replace("opt_", "") in ("dict_str", "dict_filetype") and len(vals) >= 2:
            items.append({"kind": "prec_config", "name": f.name, "cls": cls, "file": vals[1], "config": vals[0]})
            items.append({"kind": "prec_config", "name": f.name, "cls": cls, "file": vals[0], "config": vals[1]})
    for key, md, toml in [("frobnicate", "1", "1"), ("no_such_option", "some text", '"some text"'), ("grap", "true", "true"),
                          ("src-dir", "x", '"x"')]:
        items.append({"kind": "unknown", "key": key, "md": md, "toml": toml})
    # random combinations
    ncomb = 400 if run.tier == "thorough" else 60
    constrained = {"docmark", "predocmark", "docmark_alt", "predocmark_alt", "extensions", "fixed_extensions", "fpp_extensions", "extra_mods", "external", "preprocess"}
    pool = [f for f in fields if values_for(f.name, classes[f.name], rng)]
    for _ in range(ncomb):
        k = rng.randint(2, 7)
        chosen = rng.sample(pool, k)
        opts = []
        for f in chosen:
            if f.name in constrained and rng.random() < 0.7:
                continue
            opts.append((f.name, classes[f.name], rng.choice(values_for(f.name, classes[f.name], rng))))
        if len(opts) >= 2:
            items.append({"kind": "equiv", "opts": opts})
    if run.tier == "thorough":
        # every pair of (option, first value) for a sample of option pairs
        for _ in range(600):
            a, b = rng.sample(pool, 2)
            if a.name in constrained and b.name in constrained:
                continue
            items.append({"kind": "equiv", "opts": [(a.name, classes[a.name], rng.choice(values_for(a.name, classes[a.name], rng))),
                                                     (b.name, classes[b.name], rng.choice(values_for(b.name, classes[b.name], rng)))]})

    results = core.fork_map(dispatch, items, per_case_fork=True, case_timeout=120)
    for item, (st, r) in zip(items, results):
        key = core.h(item)
        if st != "ok":
            run.inconc(f"{st}: {str(r)[-300:]}")
            continue
        run.case(key=key, nontrivial=True, sample=r["sample"] if item["kind"] == "equiv" and len(item["opts"]) > 2 else None)
        run.count("ford_initialize_runs", r["n_runs"])
        run.count("cases_" + item["kind"])
        run.count("contract_evals_convert_setting", r["contract"]["convert_setting_evals"])
        if item["kind"] == "equiv":
            for n, c, v in item["opts"]:
                run.seen("options_exercised", n)
                run.seen("option_x_type_class", f"{n}:{c}")
        for cv in r["contract"]["viol"]:
            run.violation({"kind": "convert_setting_type", "option": cv[0]}, {"contract": "convert_setting result conforms to declared type", "detail": cv, "item": item})
        for v in r["viol"]:
            run.violation(classify(v, item), {"item": item, "violation": v})
    run.extra["fields_in_schema"] = len(fields)
    if run.tier == "thorough":
        # one more workload for the contracts: the repository's own test-suite (hand-written inputs)
        from vf import repo_tests

        repo_tests.attach(run, PID)
    run.finish(floors={"evaluations": 150, "distinct_nontrivial": 150, "options_exercised": len(fields) - 2,
                       "contract_evals_convert_setting": 200, "ford_initialize_runs": 1500})


if __name__ == "__main__":
    main()
