"""C16 - links into an externalised project hit the right pages of that project.

Runtime monitor over pairs of real `python -m ford` runs: a generated project A is documented with `externalize`
(histories: once, or first with other options / other files and then again), then a generated project B that
uses, extends, declares components of, calls and names in [[...]] the public entities of A is documented with
`external: projA = <relative path | absolute path | http://127.0.0.1:<port>/ (local server on A's output)>`.
Every entity's documentation carries a unique tracer word, which identifies "the page that documents it".
Oracles:
  * modules.json lists exactly A's modules and, per module, exactly the public (and protected) procedures,
    generic and abstract interfaces, types and variables of the model;
  * every link in B's pages that leaves B's output resolves to an existing file (and fragment) of A's output;
  * for every reference of the model the pages of the referring B entity contain a link to the page of A that
    documents the intended entity (same-named entities of other A modules are different pages);
  * names that B defines itself resolve to B's own pages, and the pages of the clashing A entities are never linked;
  * with a missing / corrupt / ill-shaped / unreachable description the run succeeds and B's pages are the ones
    of a run without `external`; a broken description listed before a healthy one costs only its own links.
"""
from __future__ import annotations

import functools
import http.server
import json
import os
import posixpath
import random
import re
import shutil
import socketserver
import sys
import threading
import urllib.parse

from vf import core

ford = core.setup_env()
from vf import site  # noqa: E402

PID = "C16"

SHARED = ["init", "point", "solve", "state"]


# ---------------------------------------------------------------------------------------------
# models


class Ent:
    def __init__(self, proj, module, kind, name, perm, tracer):
        self.proj, self.module, self.kind, self.name, self.perm, self.tracer = proj, module, kind, name, perm, tracer

    def __repr__(self):
        return f"{self.proj}:{self.module}:{self.kind}:{self.name}"


def gen_a(seed):
    rng = random.Random(seed)
    sx = seed % 9973
    tr = [0]
    ents = []
    files = {}

    def T(kind_letter="a"):
        tr[0] += 1
        return f"z{kind_letter}{sx}e{tr[0]}"

    nmods = rng.randint(2, 3)
    mods = []
    for mi in range(nmods):
        mname = f"am{sx}_{mi}"
        default = rng.choice(["public", "private"])
        mt = T()
        me = Ent("A", mname, "module", mname, "public", mt)
        ents.append(me)
        mods.append(me)
        decl, contains, pubs, privs = [], [], [], []

        def perm():
            return rng.choice(["public", "public", "private"])

        def reg(kind, name, p, t):
            e = Ent("A", mname, kind, name, p, t)
            ents.append(e)
            if p == "public":
                pubs.append(name)
            elif p == "private":
                privs.append(name)
            return e

        used_names = set()

        def pick(prefix):
            # some names are shared between A's modules (and later with B)
            if rng.random() < 0.35:
                n = rng.choice(SHARED)
                if n not in used_names:
                    used_names.add(n)
                    return n
            n = f"{prefix}{sx}_{mi}_{len(used_names)}"
            used_names.add(n)
            return n

        # variables
        for _ in range(rng.randint(1, 3)):
            n = pick("av")
            t = T()
            if default == "public" and rng.random() < 0.35:
                decl += [f"integer, protected :: {n} = 1", f"!! doc {t}"]
                reg("variable", n, "protected", t)
            else:
                decl += [f"integer :: {n} = 1", f"!! doc {t}"]
                reg("variable", n, perm(), t)
        # types
        for _ in range(rng.randint(1, 2)):
            n = pick("at")
            t = T()
            if rng.random() < 0.5:
                # a type-bound procedure spelt with capitals (an extending type of B may override it in lower case)
                bn = f"Describe{len(used_names)}"
                decl += [f"type :: {n}", f"!! doc {t}", "integer :: comp = 0", "contains", f"procedure :: {bn} => {n}_dimpl{mi}", "!! binding doc", "end type " + n]
                contains += [f"subroutine {n}_dimpl{mi}(self)", f"class({n}), intent(in) :: self", f"end subroutine {n}_dimpl{mi}"]
                privs.append(f"{n}_dimpl{mi}")
                te = reg("type", n, perm(), t)
                te.binding = bn
            else:
                decl += [f"type :: {n}", f"!! doc {t}", "integer :: comp = 0", "end type " + n]
                reg("type", n, perm(), t)
        # procedures
        for _ in range(rng.randint(1, 3)):
            n = pick("ap")
            t = T()
            if rng.random() < 0.5:
                contains += [f"subroutine {n}(x)", f"!! doc {t}", "integer, intent(in) :: x", f"end subroutine {n}"]
                reg("subroutine", n, perm(), t)
            else:
                contains += [f"function {n}(x) result(r)", f"!! doc {t}", "integer, intent(in) :: x", "integer :: r", "r = x", f"end function {n}"]
                reg("function", n, perm(), t)
        # generic interface with private specifics
        if rng.random() < 0.7:
            n = pick("ag")
            t = T()
            s1, s2 = f"{n}_si{mi}", f"{n}_sr{mi}"
            decl += [f"interface {n}", f"!! doc {t}", f"module procedure {s1}, {s2}", "end interface"]
            contains += [f"subroutine {s1}(i)", "integer, intent(in) :: i", f"end subroutine {s1}", f"subroutine {s2}(r)", "real, intent(in) :: r", f"end subroutine {s2}"]
            reg("interface", n, perm(), t)
            privs += [s1, s2]
            ents.append(Ent("A", mname, "subroutine", s1, "private", None))
            ents.append(Ent("A", mname, "subroutine", s2, "private", None))
        # abstract interface
        if rng.random() < 0.5:
            n = pick("ab")
            t = T()
            decl += ["abstract interface", f"subroutine {n}(x)", f"!! doc {t}", "integer :: x", "end subroutine", "end interface"]
            reg("absinterface", n, perm(), t)
        L = [f"module {mname}", f"!! doc {mt}", "implicit none"]
        if default == "private":
            L.append("private")
            if pubs:
                L.append("public :: " + ", ".join(pubs))
        else:
            if privs:
                L.append("private :: " + ", ".join(privs))
        L += decl + ["contains"] + contains + [f"end module {mname}"]
        fname = rng.choice([f"a{mi}.f90", "sub/util.f90" if mi == 0 else f"a{mi}.f90", f"z{nmods - mi}.f90"])
        while fname in files:
            fname = "x" + fname
        files[fname] = "\n".join(L) + "\n"
    if rng.random() < 0.45:
        # a facade module that offers entities of A's first module under new names (and one under its own)
        src = [e for e in ents if e.module == mods[0].name and e.perm == "public" and e.tracer and e.kind in ("type", "subroutine", "function", "absinterface")]
        if src:
            fname_, ft = f"af{sx}", T()
            fe = Ent("A", fname_, "module", fname_, "public", ft)
            items = []
            for k, e in enumerate(rng.sample(src, min(len(src), 3))):
                if k == 2:
                    items.append(e.name)
                    same = Ent("A", fname_, e.kind, e.name, "public", e.tracer)
                    same.alias_of = e
                    ents.append(same)
                else:
                    loc = f"fa{sx}_{e.kind[0]}{k}"
                    items.append(f"{loc} => {e.name}")
                    alias = Ent("A", fname_, e.kind, loc, "public", e.tracer)
                    alias.alias_of = e
                    ents.append(alias)
            ents.append(fe)
            mods.append(fe)
            files["facade.f90"] = "\n".join([f"module {fname_}", f"!! doc {ft}", f"use {mods[0].name}, only: " + ", ".join(items), "implicit none", f"end module {fname_}"]) + "\n"
    if rng.random() < 0.4:
        # a module with a separate module procedure and a submodule (named to sort before A's modules): the description lists modules only
        smod, ssub = f"asep{sx}", f"aab{sx}"
        tm, tp_ = T(), T()
        sm_e = Ent("A", smod, "module", smod, "public", tm)
        ents.append(sm_e)
        mods.append(sm_e)
        ents.append(Ent("A", smod, "interface", f"sepp{sx}", "public", tp_))
        files["sep.f90"] = "\n".join([f"module {smod}", f"!! doc {tm}", "implicit none", "interface", f"module subroutine sepp{sx}(x)", f"!! doc {tp_}", "integer, intent(in) :: x",
                                       f"end subroutine sepp{sx}", "end interface", f"end module {smod}",
                                       f"submodule ({smod}) {ssub}", "!! doc", "contains", f"module subroutine sepp{sx}(x)", "!! impl doc", "integer, intent(in) :: x",
                                       f"end subroutine sepp{sx}", f"end submodule {ssub}"]) + "\n"
    # two modules that export a type and a procedure under the same names (each documented on its own page)
    dup = []
    for tag in ("x", "y"):
        mn, tm, tt, tp_ = f"adup{tag}{sx}", T(), T(), T()
        me = Ent("A", mn, "module", mn, "public", tm)
        ents.append(me)
        mods.append(me)
        te = Ent("A", mn, "type", f"dupnode{sx}", "public", tt)
        pe = Ent("A", mn, "subroutine", f"dupsolve{sx}", "public", tp_)
        ents += [te, pe]
        dup.append((me, te, pe))
        files[f"dup_{tag}.f90"] = "\n".join([f"module {mn}", f"!! doc {tm}", "implicit none", f"type :: dupnode{sx}", f"!! doc {tt}", f"integer :: of_{tag}", f"end type dupnode{sx}", "contains",
                                              f"subroutine dupsolve{sx}(x)", f"!! doc {tp_}", "integer, intent(in) :: x", f"end subroutine dupsolve{sx}", f"end module {mn}"]) + "\n"
    chain = rng.random() < 0.4
    if chain:
        # A itself is documented against an externalised project A0 and extends one of its types: entities that A only imports
        # are not A's to export, and A's description must stay loadable
        t = T()
        mt0 = T()
        L0 = ["module " + mods[0].name + "_ext", f"!! doc {mt0}", f"use a0mod{sx}", "implicit none", f"type, extends(a0t{sx}) :: at_chain{sx}", f"!! doc {t}", "integer :: own_c", f"end type at_chain{sx}",
              "end module " + mods[0].name + "_ext"]
        me = Ent("A", mods[0].name + "_ext", "module", mods[0].name + "_ext", "public", mt0)
        mods.append(me)
        ents.append(me)
        # the default-public module re-exports what it imports from A0
        ents.append(Ent("A", me.name, "subroutine", "a0impl", "public", None))
        ents.append(Ent("A", me.name, "type", f"a0t{sx}", "public", None))
        ents.append(Ent("A", me.name, "type", f"at_chain{sx}", "public", t))
        files["a_chain.f90"] = "\n".join(L0) + "\n"
    # a program and an external procedure: not part of the exported description
    files["aprog.f90"] = f"program aprog{sx}\n!! doc {T()}\nend program aprog{sx}\nsubroutine aloose{sx}()\n!! doc {T()}\nend subroutine aloose{sx}\n"
    a0 = None
    if chain:
        a0 = {f"a0{sx}.f90": "\n".join([f"module a0mod{sx}", "!! doc", "implicit none", f"type :: a0t{sx}", "!! doc", "integer :: inherited_c", "!! doc", "contains",
                                         "procedure :: a0bound => a0impl", "!! doc", f"end type a0t{sx}", "contains", "subroutine a0impl(self)", f"class(a0t{sx}) :: self", "end subroutine a0impl",
                                         f"end module a0mod{sx}"]) + "\n"}
    return {"files": files, "ents": ents, "modules": mods, "sx": sx, "a0": a0, "dup": dup}


def gen_b(seed, A):
    rng = random.Random(seed * 3 + 1)
    sx = A["sx"]
    tr = [0]
    refs = []     # dict(src tracer, via, text, target Ent)
    clashes = []  # A entities whose name B defines itself
    ents = []
    files = {}

    def T():
        tr[0] += 1
        return f"zb{sx}e{tr[0]}"

    a_pub = [e for e in A["ents"] if e.perm in ("public", "protected") and e.kind != "module" and e.tracer]
    by_mod = {}
    for e in a_pub:
        by_mod.setdefault(e.module, []).append(e)
    # names that occur once among A's public entities: safe for [[name]] without context
    count = {}
    for e in A["ents"]:
        count[e.name.lower()] = count.get(e.name.lower(), 0) + 1

    local_clash_mod = None
    if rng.random() < 0.5:
        # B defines a module with the name of one of A's modules, and uses it
        victim = rng.choice([m for m in A["modules"] if not m.name.startswith("adup")])
        local_clash_mod = victim
        t = T()
        pt = T()
        lm = Ent("B", victim.name, "module", victim.name, "public", t)
        lp = Ent("B", victim.name, "subroutine", f"own_proc{sx}", "public", pt)
        ents += [lm, lp]
        files["clash_mod.f90"] = f"module {victim.name}\n!! doc {t}\ncontains\nsubroutine own_proc{sx}()\n!! doc {pt}\nend subroutine\nend module {victim.name}\n"
        clashes.append(victim)
    usable_mods = [m for m in A["modules"] if m is not local_clash_mod and by_mod.get(m.name) and not m.name.startswith("adup")]
    nb = rng.randint(1, 3)
    mod_info = []
    all_visible = []
    overrides = []
    for bi in range(nb):
        bname = f"bm{sx}_{bi}"
        bt = T()
        bm = Ent("B", bname, "module", bname, "public", bt)
        ents.append(bm)
        L = [f"module {bname}"]
        doc_refs = []
        uses = []
        visible = {}  # local name -> Ent of A
        mods = rng.sample(usable_mods, min(len(usable_mods), rng.randint(1, 2))) if usable_mods else []
        for m in mods:
            pub = by_mod[m.name]
            style = rng.choice(["all", "only", "only_rename", "rename", "two_only"])
            if style == "rename":
                # rename list without ONLY: everything public comes in, the renamed entities only under their local names
                if any(e.name.lower() in visible for e in pub):
                    style = "only"
                else:
                    ren = [e for e in rng.sample(pub, min(len(pub), 2)) if e.kind in ("subroutine", "function", "type")]
                    for e in pub:
                        if e in ren:
                            visible[f"ren_{e.name}_{bi}".lower()] = e
                        else:
                            visible[e.name.lower()] = e
                    uses.append(f"use {m.name}" + "".join(f", ren_{e.name}_{bi} => {e.name}" for e in ren))
            if style == "all":
                # a name exported by two used modules would be ambiguous: use only-lists then
                if any(e.name.lower() in visible for e in pub):
                    style = "only"
                else:
                    uses.append(f"use {m.name}")
                    for e in pub:
                        visible[e.name.lower()] = e
            if style == "two_only":
                # one USE statement per group of names, for one module
                pick = [e for e in rng.sample(pub, min(len(pub), rng.randint(2, 4))) if e.name.lower() not in visible]
                if len(pick) >= 2:
                    k = rng.randint(1, len(pick) - 1)
                    uses.append(f"use {m.name}, only: " + ", ".join(e.name for e in pick[:k]))
                    uses.append(f"use {m.name}, only: " + ", ".join(e.name for e in pick[k:]))
                    for e in pick:
                        visible[e.name.lower()] = e
                else:
                    style = "only"
            if style not in ("all", "rename", "two_only"):
                pick = [e for e in rng.sample(pub, min(len(pub), rng.randint(1, 3))) if e.name.lower() not in visible]
                items = []
                for e in pick:
                    if style == "only_rename" and e.kind in ("subroutine", "function", "type", "variable") and rng.random() < 0.5:
                        loc = f"loc_{e.name}_{bi}"
                        items.append(f"{loc} => {e.name}")
                        visible[loc.lower()] = e
                    else:
                        items.append(e.name)
                        visible[e.name.lower()] = e
                if items:
                    uses.append(f"use {m.name}, only: " + ", ".join(items))
                else:
                    uses.append(f"use {m.name}, only:")
            refs.append({"src": bt, "via": "use", "text": m.name, "target": m})
        if local_clash_mod is not None and rng.random() < 0.8:
            uses.append(f"use {local_clash_mod.name}")
            refs.append({"src": bt, "via": "use_local_module_named_like_external", "text": local_clash_mod.name, "target": ents[0]})
        decl, contains = [], []
        # B's own entity with the name of an A entity that this module does NOT import
        own = {}
        cand = [e for e in a_pub if e.name.lower() not in visible and e.kind in ("subroutine", "type")]
        # (an entity that this module imports under another name is the typical clash: the original name is free for B's own entity)
        away = [e for e in cand if any(v is e for v in visible.values())]
        elsewhere = [e for e in cand if any(e.name.lower() in vis_ and vis_[e.name.lower()] is e for vis_ in all_visible)]  # imported by another module of B
        if cand and rng.random() < (0.9 if (away or elsewhere) else 0.6):
            e = rng.choice(away or elsewhere or cand)
            t = T()
            if e.kind == "subroutine":
                contains += [f"subroutine {e.name}(q)", f"!! doc {t}", "real :: q", f"end subroutine {e.name}"]
            else:
                decl += [f"type :: {e.name}", f"!! doc {t}", "real :: own_comp", f"end type {e.name}"]
            oe = Ent("B", bname, e.kind, e.name, "public", t)
            ents.append(oe)
            own[e.name.lower()] = oe
            clashes.append(e)
            if e.kind == "type":
                # the module's own type used in the module: its own page, whatever was imported (and renamed away) from A
                t2 = T()
                decl += [f"type :: bown_{bi}", f"!! doc {t2}", f"type({e.name}) :: held_own", f"end type bown_{bi}"]
                ents.append(Ent("B", bname, "type", f"bown_{bi}", "public", t2))
                refs.append({"src": t2, "via": "component_of_own_type_named_like_external", "text": e.name, "target": oe})
        for loc, e in sorted(visible.items()):
            r = rng.random()
            if e.kind == "type":
                if r < 0.5:
                    t = T()
                    tn = f"bt_{bi}_{len(decl)}"
                    ov = getattr(getattr(e, "alias_of", e), "binding", None)
                    if ov and rng.random() < 0.7:
                        # the extending type overrides the inherited binding (spelt in lower case)
                        decl += [f"type, extends({loc}) :: {tn}", f"!! doc {t}", "integer :: extra", "contains", f"procedure :: {ov.lower()} => {tn}_ov", "!! own binding doc", f"end type {tn}"]
                        contains += [f"subroutine {tn}_ov(self)", f"class({tn}), intent(in) :: self", f"end subroutine {tn}_ov"]
                        overrides.append((e, ov.lower(), tn))
                    else:
                        # sometimes the extension is private (not displayed): a call of the inherited binding through it still leads to A's page
                        priv = bool(ov) and rng.random() < 0.6
                        decl += [f"type, {'private, ' if priv else ''}extends({loc}) :: {tn}", f"!! doc {t}", "integer :: extra", f"end type {tn}"]
                        if ov:
                            t3 = T()
                            pn = f"bq_{bi}_{len(contains)}"
                            contains += [f"subroutine {pn}()", f"!! doc {t3}", f"type({tn}) :: obj", f"call obj%{ov.lower()}()", f"end subroutine {pn}"]
                            ents.append(Ent("B", bname, "subroutine", pn, "public", t3))
                            refs.append({"src": t3, "via": "call_inherited_binding" + ("_through_private_type" if priv else ""), "text": ov, "target": e, "needs_graph": True})
                    hidden = "private, extends" in decl[-4] or any(l.startswith(f"type, private, extends({loc}) :: {tn}") for l in decl)
                    ents.append(Ent("B", bname, "type", tn, "private" if hidden else "public", t if not hidden else ""))
                    if not hidden:  # (a private type has no page under the default display)
                        refs.append({"src": t, "via": "extends", "text": e.name, "target": e})
                else:
                    t = T()
                    tn = f"bh_{bi}_{len(decl)}"
                    decl += [f"type :: {tn}", f"!! doc {t}", f"type({loc}) :: held", f"end type {tn}"]
                    ents.append(Ent("B", bname, "type", tn, "public", t))
                    refs.append({"src": t, "via": "component_type", "text": e.name, "target": e})
                if rng.random() < 0.5:
                    decl += [f"type({loc}) :: var_of_{loc}", "!! doc"]
                    refs.append({"src": bt, "via": "variable_type", "text": e.name, "target": e})
            elif e.kind in ("subroutine", "function", "interface"):
                t = T()
                pn = f"bp_{bi}_{len(contains)}"
                call = f"call {loc}(1)" if e.kind != "function" else f"k = {loc}(1)"
                contains += [f"subroutine {pn}()", f"!! doc {t}", "integer :: k", call, f"end subroutine {pn}"]
                ents.append(Ent("B", bname, "subroutine", pn, "public", t))
                refs.append({"src": t, "via": "call", "text": e.name, "target": e, "needs_graph": True})
            # documentation references (not through a module of A that merely re-exports the entity: `[[module:item]]` names what the module contains)
            if rng.random() < 0.7 and not hasattr(e, "alias_of"):
                form = rng.choice(["plain", "module_qualified", "ext_class"])
                extq = {"type": ["exttype"], "subroutine": ["extprocedure", "extproc", "extsubroutine"], "function": ["extprocedure", "extproc", "extfunction"],
                        "interface": ["extprocedure", "extproc"]}.get(e.kind)
                if form == "ext_class" and extq and e.name.lower() not in own:
                    # the entity classes FORD gives to what it loads from an external project
                    doc_refs.append((f"[[{e.name}({rng.choice(extq)})]]", e))
                elif form == "plain" and loc == e.name.lower():
                    doc_refs.append((f"[[{e.name}]]", e))
                elif e.kind != "absinterface":
                    doc_refs.append((f"[[{e.module}:{e.name}]]", e))
        # a generic interface whose body brings a type of A in by its own USE statement (the module itself does not import that type)
        outside = [e for e in a_pub if e.kind == "type" and not hasattr(e, "alias_of") and all(v is not e for v in visible.values()) and e.name.lower() not in own
                   and e.name.lower() not in visible and (local_clash_mod is None or e.module != local_clash_mod.name) and count.get(e.name.lower(), 0) == 1]
        if outside and rng.random() < 0.5:
            e = rng.choice(outside)
            t = T()
            decl += [f"interface bgen_{bi}", f"!! doc {t}", f"subroutine bext_{bi}(x)", f"use {e.module}, only: {e.name}", f"type({e.name}) :: x", f"end subroutine bext_{bi}", "end interface"]
            ents.append(Ent("B", bname, "interface", f"bgen_{bi}", "public", t))
            refs.append({"src": t, "via": "dummy_type_in_generic_interface_body", "text": e.name, "target": e})
        for name, oe in own.items():
            doc_refs.append((f"[[{oe.name}]]", oe))
            # a call to the own procedure
            if oe.kind == "subroutine":
                t = T()
                pn = f"bo_{bi}_{len(contains)}"
                contains += [f"subroutine {pn}()", f"!! doc {t}", f"call {oe.name}(1.0)", f"end subroutine {pn}"]
                ents.append(Ent("B", bname, "subroutine", pn, "public", t))
                refs.append({"src": t, "via": "call_own_entity_named_like_external", "text": oe.name, "target": oe, "needs_graph": True})
        if mods and rng.random() < 0.6:
            doc_refs.append((f"[[{mods[0].name}]]", mods[0]))
        doc = f"!! doc {bt} " + " ".join(d for d, _ in doc_refs)
        for d, e in doc_refs:
            refs.append({"src": bt, "via": "doc_link_to_own_entity" if e.proj == "B" else "doc_link", "text": e.name, "target": e,
                         "form": "qualified" if ":" in d else ("plain" if "(" not in d else "plain_ext_class")})
        L += [doc] + uses + ["implicit none"] + decl + (["contains"] + contains if contains else []) + [f"end module {bname}"]
        files[f"b{bi}.f90"] = "\n".join(L) + "\n"
        mod_info.append((bi, bt, set(visible), own))
        all_visible.append(dict(visible))
    # one module of B per equally named pair of A: the type and the procedure each of them uses are those of the module it names
    for k, (me, te, pe) in enumerate(A.get("dup", [])):
        bn, bt, t1, t2 = f"bdup{k}_{sx}", T(), T(), T()
        ents.append(Ent("B", bn, "module", bn, "public", bt))
        ents.append(Ent("B", bn, "type", f"bduph{k}_{sx}", "public", t1))
        ents.append(Ent("B", bn, "subroutine", f"bdupp{k}_{sx}", "public", t2))
        files[f"bdup{k}.f90"] = "\n".join([f"module {bn}", f"!! doc {bt}", f"use {me.name}", "implicit none", f"type :: bduph{k}_{sx}", f"!! doc {t1}", f"type({te.name}) :: held", f"end type bduph{k}_{sx}",
                                            "contains", f"subroutine bdupp{k}_{sx}()", f"!! doc {t2}", f"call {pe.name}(1)", f"end subroutine bdupp{k}_{sx}", f"end module {bn}"]) + "\n"
        refs.append({"src": t1, "via": "component_type_among_equally_named_external", "text": te.name, "target": te, "strict_own_page": True})
        refs.append({"src": t2, "via": "call_among_equally_named_external", "text": pe.name, "target": pe, "needs_graph": True, "strict_own_page": True})
    # a bare [[name]] in the documentation of ANOTHER module of B: not found among that module's own contents, so the project-wide
    # search decides - B's own entity must come before A's entity of the same name
    own_count = {}
    for _, _, _, own in mod_info:
        for n in own:
            own_count[n] = own_count.get(n, 0) + 1
    for bi, bt, vis, own in mod_info:
        for bj, bt2, vis2, own2 in mod_info:
            if bj == bi:
                continue
            for n, oe in own.items():
                if own_count[n] == 1 and n not in own2:  # (also when that module imports A's entity of the name: a reference is not a use)
                    files[f"b{bj}.f90"] = files[f"b{bj}.f90"].replace(f"!! doc {bt2}", f"!! doc {bt2} [[{oe.name}]]", 1)
                    refs.append({"src": bt2, "via": "doc_link_to_own_entity_of_another_module", "text": oe.name, "target": oe, "form": "plain_elsewhere"})
    return {"files": files, "refs": refs, "clashes": clashes, "ents": ents, "overrides": overrides}


# ---------------------------------------------------------------------------------------------
# running and parsing


def write_proj(root, files, opts):
    os.makedirs(root, exist_ok=True)
    shutil.rmtree(os.path.join(root, "src"), ignore_errors=True)
    for rel, text in files.items():
        p = os.path.join(root, "src", rel)
        os.makedirs(os.path.dirname(p), exist_ok=True)
        open(p, "w").write(text)
    base = {"src_dir": "./src", "output_dir": "./doc", "preprocess": False, "parallel": 0, "search": False, "graph": False}
    base.update(opts)
    site.write_project_file(root, base, body="Front page.\n")


def page_links(out_dir):
    """rel page -> list of (text, url); also page text and ids"""
    from bs4 import BeautifulSoup

    pages = {}
    for dp, dn, fn in os.walk(out_dir):
        for f in fn:
            if not f.endswith(".html"):
                continue
            p = os.path.join(dp, f)
            rel = os.path.relpath(p, out_dir)
            raw = open(p, encoding="utf-8", errors="replace").read()
            soup = BeautifulSoup(raw, "html.parser")
            links = []
            for a in soup.find_all("a"):
                url = a.get("href") or a.get("xlink:href")
                if url:
                    links.append((a.get_text(" ").strip(), url))
            ids = {el["id"] for el in soup.find_all(True) if el.has_attr("id")}
            for hl in soup.select("div.hl, div.codehilite, table.codehilitetable, pre.hl"):
                hl.decompose()
            pages[rel] = {"links": links, "text": soup.get_text(" "), "ids": ids}
    return pages


KIND_DIR = {"module": "module", "type": "type", "subroutine": "proc", "function": "proc", "interface": "interface", "absinterface": "interface", "variable": "module"}


def pages_of(pages, ent):
    """pages (of the entity's kind directory) whose text carries the entity's tracer"""
    d = KIND_DIR[ent.kind]
    return sorted(p for p, info in pages.items() if p.split(os.sep)[0] == d and re.search(r"\b%s\b" % re.escape(ent.tracer), info["text"]))


class Quiet(http.server.SimpleHTTPRequestHandler):
    def log_message(self, *a):
        pass


def serve(directory):
    handler = functools.partial(Quiet, directory=directory)
    srv = socketserver.TCPServer(("127.0.0.1", 0), handler)
    srv.daemon_threads = True
    th = threading.Thread(target=srv.serve_forever, daemon=True)
    th.start()
    return srv, srv.server_address[1]


def resolve(url, page_rel, b_out, a_out, remote_prefix):
    """-> ('A'|'B'|'other'|'web', rel path, fragment)"""
    u = url.strip()
    if remote_prefix and u.startswith(remote_prefix):
        path, _, frag = u[len(remote_prefix):].partition("#")
        return "A", posixpath.normpath(urllib.parse.unquote(path)), urllib.parse.unquote(frag)
    if remote_prefix and u.startswith(remote_prefix[:remote_prefix.index("/", 8) + 1]):
        # on the server that publishes A, but not below A's documentation
        return "A", "<outside the published directory>/" + u.split("/", 3)[-1], ""
    if re.match(r"^[a-zA-Z][a-zA-Z0-9+.-]*:", u) or u.startswith("//"):
        return "web", u, ""
    path, _, frag = u.partition("#")
    path = urllib.parse.unquote(path)
    if not path:
        return "B", page_rel, frag
    full = os.path.normpath(path if os.path.isabs(path) else os.path.join(b_out, os.path.dirname(page_rel), path))
    ra, rb = os.path.realpath(a_out), os.path.realpath(b_out)
    rf = os.path.realpath(full)
    if rf == ra or rf.startswith(ra + os.sep):
        return "A", os.path.relpath(rf, ra), urllib.parse.unquote(frag)
    if rf == rb or rf.startswith(rb + os.sep):
        return "B", os.path.relpath(rf, rb), urllib.parse.unquote(frag)
    return "other", rf, frag


def json_names(x):
    if isinstance(x, dict):
        return sorted(k.lower() for k in x)
    return sorted((i["name"] if isinstance(i, dict) else str(i)).lower() for i in (x or []) if i)


# ---------------------------------------------------------------------------------------------


def case(arg):
    seed, scenario = arg
    rng = random.Random(seed * 11 + 7)
    root = core.mktemp("vf_c16_")
    srv = None
    try:
        A = gen_a(seed)
        B = gen_b(seed, A)
        a_root, b_root = os.path.join(root, "pa"), os.path.join(root, "work", "pb")
        a_out, b_out = os.path.join(a_root, "doc"), os.path.join(b_root, "doc")
        mode = rng.choice(["relative_path", "absolute_path", "http"])
        graph = rng.random() < 0.6
        a_opts = {"project": "ProjA", "externalize": True, "display": rng.choice([["public"], ["public", "protected"], ["public", "private", "protected"]])}
        history = rng.choice(["single_build", "rebuilt_with_other_options", "rebuilt_after_files_changed"])
        viol = []
        cfg = {"mode": mode, "scenario": scenario, "history": history}
        if history == "rebuilt_with_other_options":
            write_proj(a_root, A["files"], {**a_opts, "display": ["public", "private", "protected"], "sort": "alpha", "output_dir": "./doc"})
            site.run_cli(a_root)
        elif history == "rebuilt_after_files_changed":
            extra = dict(A["files"])
            extra["a_first.f90"] = "module a_first_mod\ncontains\n" + "".join(f"subroutine {n}()\nend subroutine {n}\n" for n in SHARED) + "end module a_first_mod\n"
            write_proj(a_root, extra, a_opts)
            site.run_cli(a_root)
        if A["a0"]:
            a0_root = os.path.join(root, "p0")
            write_proj(a0_root, A["a0"], {"project": "ProjA0", "externalize": True})
            r0 = site.run_cli(a0_root)
            if r0["rc"] != 0:
                return {"inconclusive": "project A0 failed: " + (r0["stderr"] or r0["stdout"])[-300:], "viol": []}
            a_opts["external"] = {"proj0": os.path.relpath(os.path.join(a0_root, "doc"), a_root)}
            cfg["chain_of_three"] = True
        write_proj(a_root, A["files"], a_opts)
        ra = site.run_cli(a_root)
        if ra["rc"] != 0:
            return {"inconclusive": "project A failed: " + (ra["stderr"] or ra["stdout"])[-300:], "viol": []}
        # ---- the exported description
        mj = os.path.join(a_out, "modules.json")
        n_json = 0
        try:
            data = json.load(open(mj))
            mods = data["modules"] if isinstance(data, dict) else data
        except Exception as e:  # noqa: BLE001
            mods = None
            viol.append({"kf": {"kind": "modules_json_unreadable"}, "w": {"seed": seed, "error": str(e)}})
        if mods is not None:
            want_mods = sorted(m.name.lower() for m in A["modules"])
            got_mods = sorted(m["name"].lower() for m in mods)
            if want_mods != got_mods:
                viol.append({"kf": {"kind": "modules_json_module_list"}, "w": {"seed": seed, "expected": want_mods, "found": got_mods}})
            for m in mods:
                exp = {"pub_procs": [], "pub_types": [], "pub_vars": [], "pub_absints": []}
                for e in A["ents"]:
                    if e.module.lower() != m["name"].lower() or e.kind == "module" or e.perm == "private":
                        continue
                    key = {"subroutine": "pub_procs", "function": "pub_procs", "interface": "pub_procs", "type": "pub_types", "variable": "pub_vars", "absinterface": "pub_absints"}[e.kind]
                    exp[key].append(e.name.lower())
                for key, names in exp.items():
                    n_json += 1
                    got = json_names(m.get(key))
                    if sorted(names) != got:
                        missing = sorted(set(names) - set(got))
                        extra = sorted(set(got) - set(names))
                        perms = sorted({e.perm for e in A["ents"] if e.module.lower() == m["name"].lower() and e.name.lower() in missing + extra})
                        viol.append({"kf": {"kind": "modules_json_public_entities", "list": key, "missing": bool(missing), "extra": bool(extra), "permissions": perms},
                                     "w": {"seed": seed, "module": m["name"], "expected": sorted(names), "found": got, "source": A["files"]}})
        a_pages = page_links(a_out)
        # ---- project B
        remote_prefix = None
        if mode == "http":
            url_form = rng.choice(["root_slash", "root", "path_slash", "path"])  # host only or with a path component; with or without trailing slash
            cfg["url_form"] = url_form
            if url_form.startswith("root"):
                srv, port = serve(a_out)
                remote_prefix = f"http://127.0.0.1:{port}/"
            else:
                srv, port = serve(os.path.dirname(a_root))
                remote_prefix = f"http://127.0.0.1:{port}/{os.path.basename(a_root)}/doc/"
            ext = remote_prefix if url_form.endswith("slash") else remote_prefix.rstrip("/")
        elif mode == "absolute_path":
            ext = a_out
        else:
            ext = os.path.relpath(a_out, b_root)
        externals = {"projA": ext}
        expect_links = True
        if scenario == "missing_json":
            os.rename(mj, mj + ".away")
            expect_links = False
        elif scenario == "corrupt_json":
            open(mj, "w").write(open(mj).read()[: rng.randint(1, 200)] if rng.random() < 0.5 else "<html>not json</html>")
            expect_links = False
        elif scenario == "ill_shaped_json":
            open(mj, "w").write(rng.choice(['{}', '[]', '{"modules": [{"name": "x"}]}', '{"modules": "none"}', '[1, 2, 3]', 'null', '{"modules": [{"obj": "module", "external_url": "./a.html"}]}']))
            expect_links = False
        elif scenario == "unreachable":
            externals = {"projA": "http://127.0.0.1:9/" if rng.random() < 0.5 else os.path.join("..", "no_such_dir", "doc")}
            expect_links = False
        elif scenario == "broken_listed_first":
            bad = rng.choice(["http://127.0.0.1:9/", os.path.join(root, "nowhere"), "corrupt", "corrupt", "corrupt"])
            if bad == "corrupt":
                bad = os.path.join(root, "corrupt_ext")
                os.makedirs(bad)
                # what a broken or foreign server may hand out: truncated JSON, an HTML error page, JSON in another encoding, binary junk, an empty file
                junk = rng.choice([b"{ not json", b"<html><body><h1>404 Not Found</h1></body></html>", json.dumps({"modules": []}).encode("utf-16"),
                                   b"\xff\xfe\x00\x01\x80\x81 binary", b"", b"[1, 2, 3]", json.dumps({"ford-metadata": {"version": "x"}}).encode()])
                open(os.path.join(bad, "modules.json"), "wb").write(junk)
                cfg["corrupt_modules_json"] = junk[:12].decode("latin-1")
            externals = {"a_broken": bad, "projA": ext}
        b_opts = {"project": "ProjB", "graph": graph, "proc_internals": True, "external": externals}
        if graph and rng.random() < 0.35:
            b_opts["graph_maxnodes"] = rng.choice([1, 2])  # graphs whose first hop is larger are shown as tables of links
            cfg["graph_maxnodes"] = b_opts["graph_maxnodes"]
        write_proj(b_root, B["files"], b_opts)
        # FORD may be started from anywhere: a relative `external` location is relative to B's project file
        start = rng.choice(["project_dir", "project_dir", "parent_dir", "unrelated_dir"])
        cfg["started_from"] = start
        cwd = {"project_dir": b_root, "parent_dir": os.path.dirname(b_root), "unrelated_dir": root}[start]
        rb = site.run_cli(b_root, project_file=os.path.relpath(os.path.join(b_root, "proj.md"), cwd), cwd=cwd)
        cfg["graph"] = graph
        w0 = {"seed": seed, "config": cfg, "external": externals}
        if rb["rc"] != 0:
            tail = (rb["stderr"] or rb["stdout"]).strip()
            last = tail.splitlines()[-1] if tail else ""
            viol.append({"kf": {"kind": "run_of_B_fails", "scenario": scenario, "mode": mode if scenario in ("healthy", "broken_listed_first") else "n/a",
                                "error": re.sub(r"/tmp/\S+|\d+", "_", last)[:120]},
                         "w": {**w0, "tail": tail[-1500:], "b_files": B["files"]}})
            return {"viol": viol, "cfg": cfg, "n_json": n_json, "n_refs": 0, "n_ext_links": 0, "outcome": "B failed", "vias": []}
        if seed % 4 == 1:
            # the same project once more with `hide_undoc: true`: entities of A have no documentation lines in B - the run has to complete
            write_proj(b_root + "_hu", B["files"], {**b_opts, "hide_undoc": True})
            rh = site.run_cli(b_root + "_hu")
            if rh["rc"] != 0:
                tail = (rh["stderr"] or rh["stdout"]).strip()
                last = tail.splitlines()[-1] if tail else ""
                viol.append({"kf": {"kind": "run_of_B_fails", "scenario": scenario + "+hide_undoc", "mode": mode if scenario in ("healthy", "broken_listed_first") else "n/a",
                                    "error": re.sub(r"/tmp/\S+|\d+", "_", last)[:120]},
                             "w": {**w0, "tail": tail[-1500:], "b_files": B["files"]}})
        b_pages = page_links(b_out)
        if not expect_links:
            # costs only the links: same set of pages as without `external`
            write_proj(b_root + "_plain", B["files"], {"project": "ProjB", "graph": graph, "proc_internals": True})
            rp_ = site.run_cli(b_root + "_plain")
            plain_pages = page_links(os.path.join(b_root + "_plain", "doc")) if rp_["rc"] == 0 else None
            if plain_pages is not None and set(plain_pages) != set(b_pages):
                viol.append({"kf": {"kind": "pages_differ_from_run_without_external", "scenario": scenario}, "w": {**w0, "only_without": sorted(set(plain_pages) - set(b_pages))[:6], "only_with": sorted(set(b_pages) - set(plain_pages))[:6]}})
            return {"viol": viol, "cfg": cfg, "n_json": n_json, "n_refs": 0, "n_ext_links": 0, "outcome": "degraded run ok", "vias": []}
        # ---- every link leaving B
        n_ext = 0
        for page, info in b_pages.items():
            for text, url in info["links"]:
                where, rel, frag = resolve(url, page, b_out, a_out, remote_prefix)
                if where == "A":
                    n_ext += 1
                    if not os.path.isfile(os.path.join(a_out, rel)):
                        viol.append({"kf": {"kind": "external_link_target_missing", "mode": mode}, "w": {**w0, "page": page, "url": url, "text": text}})
                    elif frag and rel in a_pages and frag not in a_pages[rel]["ids"]:
                        viol.append({"kf": {"kind": "external_link_fragment_missing", "mode": mode}, "w": {**w0, "page": page, "url": url, "text": text}})
                elif where == "other":
                    viol.append({"kf": {"kind": "link_to_neither_project", "mode": mode}, "w": {**w0, "page": page, "url": url, "text": text}})
                elif where == "B" and rel.endswith(".html") and not os.path.isfile(os.path.join(b_out, rel)):
                    # (a link into A that was made relative to B's page, for instance)
                    kf_ = {"kind": "link_inside_own_output_missing", "mode": mode, "looks_like_external_location": ("http:" in url or os.path.basename(a_out.rstrip("/")) + "/" in url and "pa/" in url)}
                    if not any(v_["kf"] == kf_ for v_ in viol):
                        viol.append({"kf": kf_, "w": {**w0, "page": page, "url": url, "text": text}})
        # ---- expected references
        n_refs = 0
        vias = set()
        for r in B["refs"]:
            if r.get("needs_graph") and not graph:
                continue
            tgt = r["target"]
            t_pages_all = a_pages if tgt.proj == "A" else b_pages
            tp = pages_of(t_pages_all, tgt)
            if r["via"] == "doc_link" and r.get("form") in ("plain", "plain_ext_class"):
                # a bare [[name]] is looked up project-wide: any page documenting a public entity of that name is "that entity"
                also = []
                for e2 in A["ents"]:
                    if e2.tracer and e2.name.lower() == tgt.name.lower() and e2 is not tgt and e2.kind != "variable":
                        also += [("A", p) for p in pages_of(a_pages, e2)]
                for e2 in B["ents"]:  # ... and B's own entities come first
                    if e2.tracer and e2.name.lower() == tgt.name.lower():
                        also += [("B", p) for p in pages_of(b_pages, e2)]
            b_same = [e2 for e2 in B["ents"] if e2.tracer and e2.name.lower() == tgt.name.lower() and e2.kind != "variable"] if (r["via"] == "doc_link" and r.get("form") in ("plain", "plain_ext_class") and "ext_class" not in r.get("form", "")) else []
            if b_same:
                # B defines an entity of that name itself: a bare reference is B's, wherever it is written
                also = [("B", p) for e2 in b_same for p in pages_of(b_pages, e2)]
                tp = []
            if not tp and not (b_same and also):
                # the target has no page of its own (e.g. not displayed in A): nothing to link to
                continue
            src_pages = [p for p, info in b_pages.items() if re.search(r"\b%s\b" % re.escape(r["src"]), info["text"])]
            own_pages = [p for p in src_pages if not p.startswith("lists" + os.sep) and p != "index.html"]
            if own_pages and r["via"].startswith("doc_link"):
                src_pages = own_pages  # (list pages show the summaries of every entity: a link found there may belong to a neighbour)
            found = False
            if not (r["via"] == "doc_link" and r.get("form") in ("plain", "plain_ext_class")):
                also = []
            need_frag = None
            if r.get("strict_own_page"):
                src_pages = [p for p in src_pages if p.split(os.sep)[0] in ("type", "proc")]
            if r["via"].startswith("call_inherited_binding"):
                # the call graph on the calling procedure's own page: the node of the inherited binding leads to the binding on A's type page
                src_pages = [p for p in src_pages if p.split(os.sep)[0] == "proc"]
                need_frag = "boundprocedure-" + r["text"].lower()
            wrong = []
            for p in src_pages:
                for text, url in b_pages[p]["links"]:
                    where, rel, frag = resolve(url, p, b_out, a_out, remote_prefix)
                    if ((where == tgt.proj and rel in tp) or (where, rel) in also) and (need_frag is None or re.fullmatch(re.escape(need_frag) + r"(~\d+)?", frag.lower())):
                        found = True
                    elif text.strip().lower() == r["text"].lower() and where in ("A", "B"):
                        wrong.append((p, url))
            n_refs += 1
            vias.add(r["via"])
            if not found:
                viol.append({"kf": {"kind": "reference_not_linked_to_documenting_page", "via": r["via"], "target_kind": tgt.kind, "target_project": tgt.proj,
                                    "links_elsewhere": bool(wrong), "form": r.get("form", "")},
                             "w": {**w0, "reference": {"from": r["src"], "text": r["text"], "target": repr(tgt), "target_tracer": tgt.tracer}, "expected_pages": tp,
                                   "pages_of_source": src_pages[:6], "links_with_that_text": wrong[:6], "b_files": B["files"], "a_files": A["files"]}})
        # ---- a component declared with the module's own type: on the page of the declaring type the type name leads to B's page
        for r in B["refs"]:
            if r["via"] != "component_of_own_type_named_like_external":
                continue
            holder = [e2 for e2 in B["ents"] if e2.tracer == r["src"]][0]
            page = os.path.join("type", holder.name.lower() + ".html")
            for text, url in b_pages.get(page, {"links": []})["links"]:
                if text.strip().lower() != r["text"].lower():
                    continue
                where, rel, frag = resolve(url, page, b_out, a_out, remote_prefix)
                if where != "B":
                    viol.append({"kf": {"kind": "own_type_named_like_external_links_to_external", "where": where}, "w": {**w0, "page": page, "url": url, "type": r["text"], "b_files": B["files"]}})
                    break
        # ---- a binding that B's extending type overrides is B's own: the external one is not listed as inherited
        for e, bn, tn in B.get("overrides", []):
            tp = pages_of(a_pages, getattr(e, "alias_of", e))
            for page, info in b_pages.items():
                if page != os.path.join("type", tn.lower() + ".html"):
                    continue  # (other types of B that extend the same type without overriding do inherit it)
                for text, url in info["links"]:
                    where, rel, frag = resolve(url, page, b_out, a_out, remote_prefix)
                    if where == "A" and rel in tp and frag.lower() == f"boundprocedure-{bn}":
                        viol.append({"kf": {"kind": "overridden_external_binding_listed_as_inherited"}, "w": {**w0, "page": page, "url": url, "binding": bn, "b_files": B["files"]}})
                        break
        # ---- project-wide graphs (list pages): an entity of A that B uses and B's own entity of the same name and kind are two nodes, each
        #      leading to its own page
        if graph and "graph_maxnodes" not in b_opts:  # (with a node limit the project-wide graphs are cut short or replaced by a notice)
            for r in B["refs"]:
                if r["via"] not in ("call", "extends", "component_type") or r["target"].proj != "A" or not r["target"].tracer:
                    continue
                tgt = r["target"]
                own = [e2 for e2 in B["ents"] if e2.tracer and e2.name.lower() == tgt.name.lower() and e2.kind == tgt.kind]
                lp = os.path.join("lists", "procedures.html" if tgt.kind in ("subroutine", "function") else "types.html")
                if not own or lp not in b_pages or tgt.kind not in ("subroutine", "function", "type"):
                    continue
                tp_a, tp_b = pages_of(a_pages, getattr(tgt, "alias_of", tgt)), [p for e2 in own for p in pages_of(b_pages, e2)]
                got_a = got_b = other_a = False
                named = []
                grp = lambda k_: "proc" if k_ in ("subroutine", "function", "interface") else k_  # noqa: E731
                tp_a_other = [p for e2 in A["ents"] if e2.tracer and e2 is not getattr(tgt, "alias_of", tgt) and e2.name.lower() == tgt.name.lower() and grp(e2.kind) == grp(tgt.kind) and e2.kind != "variable" for p in pages_of(a_pages, e2)]
                for text, url in b_pages[lp]["links"]:
                    where, rel, frag = resolve(url, lp, b_out, a_out, remote_prefix)
                    if where == "A" and rel in tp_a:
                        got_a = True
                    if where == "A" and rel in tp_a_other and rel not in tp_a:
                        other_a = True
                    if where == "B" and rel in tp_b:
                        got_b = True
                    if text.strip().lower() == tgt.name.lower():
                        named.append(url)
                n_refs += 1
                # (only when the page draws that graph: both names are then found as link texts of nodes or table rows)
                if tp_a and tp_b and len(named) >= 2 and not (got_a and got_b):
                    viol.append({"kf": {"kind": "same_named_own_and_external_entity_share_a_graph_node", "entity_kind": tgt.kind, "missing": "external" if not got_a else "own",
                                        "node_leads_to_another_external_entity_of_that_name": other_a and not got_a},
                                 "w": {**w0, "page": lp, "name": tgt.name, "links_with_that_name": named[:6], "a_pages": tp_a, "b_pages": tp_b, "b_files": B["files"]}})
        # ---- precedence: pages of A entities whose names B defines are never linked
        for e in B["clashes"]:
            if not e.tracer or hasattr(e, "alias_of"):
                continue  # (the page behind an alias is the page of another name: links to it prove nothing about this clash)
            tp = pages_of(a_pages, e)
            # the A entity may legitimately be referenced when a B module imports it explicitly
            referenced = any(r["target"] is e or (r["target"].tracer and r["target"].tracer == e.tracer) for r in B["refs"])
            if referenced or e.kind == "variable":
                continue
            for page, info in b_pages.items():
                for text, url in info["links"]:
                    where, rel, frag = resolve(url, page, b_out, a_out, remote_prefix)
                    if where == "A" and rel in tp:
                        viol.append({"kf": {"kind": "external_entity_preferred_over_own", "entity_kind": e.kind}, "w": {**w0, "page": page, "url": url, "entity": repr(e), "b_files": B["files"]}})
                        break
        return {"viol": viol, "cfg": cfg, "n_json": n_json, "n_refs": n_refs, "n_ext_links": n_ext, "outcome": "checked", "vias": sorted(vias),
                "sample": {"seed": seed, "config": cfg, "a_modules": [m.name for m in A["modules"]], "references_checked": n_refs, "links_into_A": n_ext,
                           "example_refs": [{"via": r["via"], "text": r["text"], "target": repr(r["target"])} for r in B["refs"][:5]]}}
    finally:
        if srv is not None:
            srv.shutdown()
            srv.server_close()
        shutil.rmtree(root, ignore_errors=True)


def main():
    run = core.Run(
        PID, level="exploration",
        rule="case = (generated project A: 2-3 modules, default public or private, public/private/protected variables, types, subroutines, functions, "
        "generic and abstract interfaces, names shared between modules; history of A's output: single build / rebuilt with other options / rebuilt after "
        "files changed; generated project B: use (all, only, renamed), extends, component and variable of A's types, calls, [[name]] and [[module:name]] "
        "references, own module named like a module of A, own entities named like entities of A; external given as relative path, absolute path or "
        "http://127.0.0.1 URL; scenario healthy / missing / corrupt / ill-shaped / unreachable description / broken description listed first). "
        "Non-trivial: healthy cases with >= 3 references checked.",
        assumptions=["the page that documents an entity is identified by the unique tracer word in the entity's documentation",
                     "call links are only expected when graphs are on (FORD shows calls only in graphs)",
                     "http mode is served by a loop-back server on A's output directory"],
    )
    rp = core.replay_arg()
    if rp:
        w = json.load(open(rp))
        r = case((w["witness"]["seed"], w["witness"]["config"]["scenario"]))
        same = [v for v in r["viol"] if v["kf"] == w["classification"]]
        print("replayed seed", w["witness"]["seed"], "->", "reproduced" if same else "not reproduced")
        sys.exit(1 if same else 0)
    thorough = run.tier == "thorough"
    base = run.seed * 100003
    n = 480 if thorough else 96
    scen = ["healthy", "healthy", "healthy", "healthy", "broken_listed_first", "missing_json", "corrupt_json", "ill_shaped_json", "unreachable"]
    args = [(base + i, scen[i % len(scen)]) for i in range(n)]
    results = core.fork_map(case, args, per_case_fork=False, case_timeout=900, total_timeout=3300)
    for a, (st, r) in zip(args, results):
        if st != "ok":
            run.inconc(f"{st}: {str(r)[-300:]}")
            continue
        if r.get("inconclusive"):
            run.inconc(r["inconclusive"])
            continue
        run.case(key=str(a), nontrivial=r["n_refs"] >= 3, sample=r.get("sample") if r["n_refs"] >= 4 else None)
        run.count("references_checked", r["n_refs"])
        run.count("links_into_A_checked", r["n_ext_links"])
        run.count("modules_json_lists_compared", r["n_json"])
        run.count("scenario_" + a[1])
        run.seen("modes", r["cfg"]["mode"])
        run.seen("histories", r["cfg"]["history"])
        for v in r["vias"]:
            run.seen("reference_kinds", v)
        for v in r["viol"]:
            run.violation(v["kf"], v["w"])
    run.finish(floors={"evaluations": 40, "distinct_nontrivial": 10, "references_checked": 80, "links_into_A_checked": 200, "modules_json_lists_compared": 100,
                       "reference_kinds": 6, "modes": 3})


if __name__ == "__main__":
    main()
