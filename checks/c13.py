"""C13 - every graph shows exactly the relation it is documented to show.

Runtime monitor: complete FORD runs (forked child, graphs on, parallel 0) on generated projects whose
module-use / submodule-ancestry / type-extension / composition / call / file-dependency relations are known
(chains, diamonds, cycles, disconnected parts), with graph_maxdepth / graph_maxnodes / show_proc_parent and
per-entity `graph:` metadata.  Observed: the DOT source of every graph object (graph.dot.body) captured from
the real Documentation object.  Oracles: (1) reference model - node and edge sets of each per-entity graph
equal the hop-wise ball of the model relation under the limits, project-wide graphs equal roots + their
relation; (2) every edge endpoint is a declared node; (3) forward/inverse graphs are exact inverses when
untruncated; (4) invariant at the quiescent point after graph_all(): inverse adjacency of the node objects
(uses/used_by, calls/called_by, children/ancestor, comp_types/comp_of, efferent/afferent) is consistent;
(5) entities with `graph: false` own no graphs and are no node of a project-wide graph.
"""
from __future__ import annotations

import json
import os
import random
import re
import shutil
import sys

from vf import core

ford = core.setup_env()
from vf import site  # noqa: E402

PID = "C13"


def build(seed):
    rng = random.Random(seed)
    sx = seed % 997
    nm = rng.randint(3, 6)
    mods = [f"gm{sx}x{i}" for i in range(nm)]
    if seed % 6 == 0:
        # a project module named like a module FORD knows as external by default (a serial stub shipped with the code): it is the project's module
        mods[rng.randrange(nm)] = ["mpi", "omp_lib", "openacc", "mpi_f08"][(seed // 6) % 4]
    uses = {m: set() for m in mods}
    shape = rng.choice(["random", "chain", "diamond", "disconnected"])
    for j in range(nm):
        for i in range(j):
            if shape == "chain":
                if i == j - 1:
                    uses[mods[j]].add(mods[i])
            elif shape == "diamond" and nm >= 4:
                if (j in (1, 2) and i == 0) or (j == 3 and i in (1, 2)) or (j > 3 and i == j - 1):
                    uses[mods[j]].add(mods[i])
            elif shape == "disconnected":
                if i == j - 1 and j != nm // 2:
                    uses[mods[j]].add(mods[i])
            elif rng.random() < 0.4:
                uses[mods[j]].add(mods[i])
    # types
    types = {}  # name -> {"mod", "extends", "comps": [type names]}
    tlist = []
    for mi, m in enumerate(mods):
        for k in range(rng.choice([0, 1, 2, 2, 3, 4])):
            t = f"gt{sx}x{len(tlist)}"
            visible = [x for x in tlist if types[x]["mod"] == m or types[x]["mod"] in uses[m]]
            ext = rng.choice(visible) if visible and rng.random() < 0.5 else None
            comps = [x for x in visible if rng.random() < 0.3 and (x != ext or rng.random() < 0.5)]  # (also a component of the parent's type: two relations to one neighbour)
            types[t] = {"mod": m, "extends": ext, "comps": comps}
            tlist.append(t)
    # pointer components may name types declared later in the same module: cycles of composition, and of composition + extension
    # (a parent holding a pointer to the type that extends it)
    for a_i, a in enumerate(tlist):
        for b in tlist[a_i + 1:]:
            if types[a]["mod"] == types[b]["mod"] and b not in types[a]["comps"] and rng.random() < (0.5 if types[b]["extends"] == a else 0.25):
                types[a]["comps"].append(b)
                types[a].setdefault("ptr", set()).add(b)
    # procedures
    procs = {}  # name -> {"mod", "calls": set}
    plist = []
    for mi, m in enumerate(mods):
        for k in range(rng.choice([1, 2, 3, 3, 4, 5])):
            p = f"gp{sx}x{len(plist)}"
            procs[p] = {"mod": m, "calls": set()}
            plist.append(p)
    for p in plist:
        m = procs[p]["mod"]
        visible = [q for q in plist if procs[q]["mod"] == m or procs[q]["mod"] in uses[m]]
        for q in visible:
            if q == p:
                if rng.random() < 0.1:
                    procs[p]["calls"].add(q)  # recursion
            elif rng.random() < 0.3:
                procs[p]["calls"].add(q)
    # submodules
    subs = {}  # name -> parent (module or submodule), ancestor module
    for m in mods:
        if rng.random() < 0.3:
            s1 = f"gs{sx}x{len(subs)}"
            subs[s1] = {"parent": m, "ancestor": m}
            if rng.random() < 0.5:
                s2 = f"gs{sx}x{len(subs)}"
                subs[s2] = {"parent": s1, "ancestor": m}
    # program
    prog = None
    if rng.random() < 0.6:
        um = rng.sample(mods, rng.randint(1, min(2, nm)))
        visible = [q for q in plist if procs[q]["mod"] in um]
        prog = {"name": f"gprog{sx}", "uses": set(um), "calls": set(q for q in visible if rng.random() < 0.5)}
    # metadata: graph false / limits
    meta = {}
    for e in mods + tlist + plist:
        r = rng.random()
        if r < 0.08:
            meta[e] = {"graph": "false"}
        elif r < 0.25:
            meta[e] = {"graph_maxdepth": str(rng.choice([1, 2]))}
        elif r < 0.35:
            meta[e] = {"graph_maxnodes": str(rng.choice([2, 3, 4]))}
    # files
    filemap = {}
    fidx = 0
    same_base = rng.random() < 0.3  # equal base names in different directories
    for mi, m in enumerate(mods):
        if mi > 0 and rng.random() < 0.25:
            filemap[m] = filemap[mods[mi - 1]]
        elif same_base and mi < 3:
            filemap[m] = f"d{mi}/gsame{sx}.f90"
        else:
            filemap[m] = f"gf{sx}_{fidx}.f90"
            fidx += 1
    for s in subs:
        filemap[s] = f"gsub{sx}_{s[-1]}{len(s)}.f90" if rng.random() < 0.7 else filemap[subs[s]["ancestor"]]
    if prog:
        filemap[prog["name"]] = f"gprog{sx}.f90"
    # internal functions (no internal subroutines beside them) that call module procedures; visible only with proc_internals
    internals = {}
    proc_internals = rng.random() < 0.5
    for p in plist:
        if rng.random() < 0.25:
            m = procs[p]["mod"]
            visible = [q for q in plist if q != p and (procs[q]["mod"] == m or procs[q]["mod"] in uses[m])]
            internals[f"inf_{p}"] = {"host": p, "calls": set(q for q in visible if rng.random() < 0.5)}
    # a USE that occurs only inside the body of an explicit (non-generic) interface: a dependency between the files, no module-use edge
    iface_uses = {}
    for j, m in enumerate(mods):
        cand = [u for u in mods[:j] if u not in uses[m]]
        if cand and rng.random() < 0.3:
            iface_uses[m] = rng.choice(cand)
    # private procedures under a display without `private`: they are not drawn; a call of one stands for the calls it makes
    hidden = set()
    if rng.random() < 0.4:
        hidden = {p for p in plist if rng.random() < 0.4}
        # nested private helpers shared by two callers: the first reaches the inner helper before the outer one, the second calls only the outer one
        for m in mods:
            mp = [p for p in plist if procs[p]["mod"] == m]
            if len(mp) >= 4 and rng.random() < 0.7:
                inner, outer, first, second = mp[0], mp[1], mp[2], mp[3]
                hidden |= {inner, outer}
                hidden -= {first, second}
                procs[outer]["calls"].add(inner)
                procs[first]["calls"] |= {inner, outer}
                procs[second]["calls"].add(outer)
                procs[second]["calls"].discard(inner)
                vis = [q for q in plist if q not in (inner, outer, first, second) and (procs[q]["mod"] == m or procs[q]["mod"] in uses[m])]
                if vis:
                    procs[inner]["calls"].add(rng.choice(vis))
        for p in plist:
            procs[p]["calls"] = {q for q in procs[p]["calls"] if q not in hidden or procs[q]["mod"] == procs[p]["mod"]}  # private: callable in its module only
        for n, d in internals.items():
            d["calls"] = {q for q in d["calls"] if q not in hidden or procs[q]["mod"] == procs[d["host"]]["mod"]}
        if prog:
            prog["calls"] -= hidden
        for p in hidden:
            meta.pop(p, None)
    model = {"mods": mods, "uses": uses, "types": types, "procs": procs, "subs": subs, "prog": prog, "meta": meta, "filemap": filemap, "shape": shape,
             "iface_uses": iface_uses, "internals": internals, "proc_internals": proc_internals, "hidden": hidden}
    return model


def hash_(*a):
    return int(core.h(list(a))[:6], 16)


def render(model):
    files = {}

    def docs(e):
        md = model["meta"].get(e)
        lines = [f"!! {k}: {v}" for k, v in (md or {}).items()]
        if lines:
            lines.append("!!")
        lines.append(f"!! doc of {e}")
        return lines

    units = {}
    for m in model["mods"]:
        L = [f"module {m}"] + docs(m)
        for ui, u in enumerate(sorted(model["uses"][m])):
            # sometimes two USE statements for one module: an ONLY list first, everything after it
            first = [t for t, td in model["types"].items() if td["mod"] == u][:1] + [q for q, pd in model["procs"].items() if pd["mod"] == u and q not in model.get("hidden", ())][:1]
            if first and (hash_(m, u) % 3 == 0):
                L.append(f"use {u}, only: {first[0]}")
            L.append(f"use {u}")
        L.append("implicit none")
        for t, td in model["types"].items():
            if td["mod"] != m:
                continue
            L.append(f"type{', extends(' + td['extends'] + ')' if td['extends'] else ''} :: {t}")
            L += docs(t)
            for ci, c in enumerate(td["comps"]):
                L.append(f"type({c}), pointer :: c{ci}_{c} => null()" if c in td.get("ptr", ()) else f"type({c}) :: c{ci}_{c}")
            L.append("integer :: payload")
            L.append(f"end type {t}")
        for p in sorted(model.get("hidden", ())):
            if model["procs"][p]["mod"] == m:
                L.append(f"private :: {p}")
        if m in model.get("iface_uses", {}):
            L += ["interface", f"subroutine ext_{m}(x)", f"use {model['iface_uses'][m]}", "integer :: x", f"end subroutine ext_{m}", "end interface"]
        L.append("contains")
        for p, pd in model["procs"].items():
            if pd["mod"] != m:
                continue
            L.append(("recursive " if p in pd["calls"] else "") + f"subroutine {p}()")
            L += docs(p)
            mine = sorted(n for n, d in model.get("internals", {}).items() if d["host"] == p)
            if mine:
                L.append("integer :: kk")
            for q in sorted(pd["calls"]):
                L.append(f"call {q}()")
            for n in mine:
                L.append(f"kk = {n}()")
            if mine:
                L.append("contains")
            for n in mine:
                L += [f"integer function {n}()", f"!! doc of {n}"] + [f"call {q}()" for q in sorted(model["internals"][n]["calls"])] + [f"{n} = 1", f"end function {n}"]
            L.append(f"end subroutine {p}")
        L.append(f"end module {m}")
        units[m] = L
    for s, sd in model["subs"].items():
        par = sd["ancestor"] if sd["parent"] == sd["ancestor"] else f"{sd['ancestor']}:{sd['parent']}"
        units[s] = [f"submodule ({par}) {s}", f"!! doc of {s}", "implicit none", f"end submodule {s}"]
    if model["prog"]:
        pg = model["prog"]
        L = [f"program {pg['name']}", f"!! doc of {pg['name']}"] + [f"use {u}" for u in sorted(pg["uses"])] + ["implicit none"] + [f"call {q}()" for q in sorted(pg["calls"])] + [f"end program {pg['name']}"]
        units[pg["name"]] = L
    for u, L in units.items():
        f = model["filemap"][u]
        files.setdefault(f, [])
        files[f] += L
    return {f: "\n".join(L) + "\n" for f, L in files.items()}


# ---------------------------------------------------------------------------------------------
# reference model


def ball(root, nbrs, maxdepth, maxnodes):
    """Hop-wise expansion (documented: reachable up to the configured depth and node limits; a hop that would
    exceed the node limit is not added)."""
    added = {root}
    edges = set()
    frontier = [root]
    nesting = 1
    truncated = False
    while True:
        hop_nodes = set()
        hop_edges = set()
        for n in frontier:
            for (a, b) in nbrs(n):
                other = b if a == n else a
                if other not in added:
                    hop_nodes.add(other)
                hop_edges.add((a, b))
        if len(hop_nodes) + len(added) > maxnodes:
            truncated = True
            break
        added |= hop_nodes
        edges |= hop_edges
        if not hop_nodes:
            break
        if nesting < maxdepth:
            frontier = sorted(hop_nodes)
            nesting += 1
        else:
            truncated = bool(hop_nodes)
            break
    return added, edges, truncated


def expected_graphs(model, project_limits):
    uses, subs, types, procs, prog, meta = model["uses"], model["subs"], model["types"], model["procs"], model["prog"], model["meta"]
    mid = lambda m: f"module~{m}"  # noqa: E731
    tid = lambda t: f"type~{t}"  # noqa: E731
    pid = lambda p: f"proc~{p}"  # noqa: E731
    node_of = {}
    for m in model["mods"]:
        node_of[m] = mid(m)
    for s in subs:
        node_of[s] = mid(s)
    for t in types:
        node_of[t] = tid(t)
    for p in procs:
        node_of[p] = pid(p)
    if prog:
        node_of[prog["name"]] = f"program~{prog['name']}"

    def lim(e):
        md = meta.get(e, {})
        return int(md.get("graph_maxdepth", project_limits[0])), int(md.get("graph_maxnodes", project_limits[1]))

    def graph_on(e):
        return meta.get(e, {}).get("graph", "true") != "false"

    # relations as edge sets over node ids
    use_edges = set()
    for m, us in uses.items():
        for u in us:
            use_edges.add((mid(m), mid(u)))
    anc_edges = set((mid(s), mid(sd["parent"])) for s, sd in subs.items())
    prog_use = set((node_of[prog["name"]], mid(u)) for u in prog["uses"]) if prog else set()
    type_edges = set()
    for t, td in types.items():
        if td["extends"]:
            type_edges.add((tid(t), tid(td["extends"])))
        for c in td["comps"]:
            type_edges.add((tid(t), tid(c)))
    hidden = set(model.get("hidden", ()))
    iid = lambda n: f"none~{n}"  # noqa: E731  (an internal procedure has no directory of its own)
    all_int = model.get("internals", {})
    internals = all_int if model.get("proc_internals") else {}
    # raw relation over every procedure, then: a call of a procedure that is not displayed (private under this display, internal without
    # proc_internals) is shown as a call of what that procedure calls, transitively
    raw = {}
    for p, pd in procs.items():
        raw[pid(p)] = {pid(q) for q in pd["calls"]} | {iid(n) for n, d in all_int.items() if d["host"] == p}
    for n, d in all_int.items():
        raw[iid(n)] = {pid(q) for q in d["calls"]}
    if prog:
        raw[node_of[prog["name"]]] = {pid(q) for q in prog["calls"]}
    not_drawn = {pid(p) for p in hidden} | ({iid(n) for n in all_int} if not model.get("proc_internals") else {iid(n) for n, d in all_int.items() if d["host"] in hidden})

    def shown_callees(a):
        out_, stack, seen_ = set(), list(raw.get(a, ())), set()
        while stack:
            b = stack.pop()
            if b in seen_:
                continue
            seen_.add(b)
            if b in not_drawn:
                stack += list(raw.get(b, ()))
            else:
                out_.add(b)
        return out_

    call_edges = set()
    for a in raw:
        if a not in not_drawn:
            for b in shown_callees(a):
                call_edges.add((a, b))
    exp = {}
    fwd_mod = use_edges | anc_edges | prog_use

    def out_edges(rel):
        return lambda n: [(a, b) for (a, b) in rel if a == n]

    def in_edges(rel):
        return lambda n: [(a, b) for (a, b) in rel if b == n]

    for m in list(model["mods"]) + list(subs):
        if m in model["mods"] and not graph_on(m):
            exp[f"{m}|uses"] = None
            exp[f"{m}|usedby"] = None
            continue
        d, n = lim(m) if m in model["mods"] else project_limits
        exp[f"{m}|uses"] = ball(mid(m), out_edges(fwd_mod), d, n) + (ball(mid(m), out_edges(fwd_mod), 10**9, 10**9)[0],)
        exp[f"{m}|usedby"] = ball(mid(m), in_edges(fwd_mod), d, n) + (ball(mid(m), in_edges(fwd_mod), 10**9, 10**9)[0],)
    for t in types:
        if not graph_on(t):
            exp[f"{t}|inherits"] = None
            exp[f"{t}|inheritedby"] = None
            continue
        d, n = lim(t)
        exp[f"{t}|inherits"] = ball(tid(t), out_edges(type_edges), d, n) + (ball(tid(t), out_edges(type_edges), 10**9, 10**9)[0],)
        exp[f"{t}|inheritedby"] = ball(tid(t), in_edges(type_edges), d, n) + (ball(tid(t), in_edges(type_edges), 10**9, 10**9)[0],)
    for p in procs:
        if p in hidden:
            continue  # no page, no graphs
        if not graph_on(p):
            exp[f"{p}|calls"] = None
            exp[f"{p}|calledby"] = None
            continue
        d, n = lim(p)
        exp[f"{p}|calls"] = ball(pid(p), out_edges(call_edges), d, n) + (ball(pid(p), out_edges(call_edges), 10**9, 10**9)[0],)
        # a main program never appears as a caller in called-by graphs? it does (ProgNode in called_by); CalledByGraph only skips expanding it
        cb = lambda nn: [] if nn.startswith("program~") else in_edges(call_edges)(nn)  # noqa: E731
        exp[f"{p}|calledby"] = ball(pid(p), cb, d, n) + (ball(pid(p), cb, 10**9, 10**9)[0],)
    if prog:
        exp[f"{prog['name']}|uses"] = ball(node_of[prog["name"]], out_edges(fwd_mod), *project_limits) + (ball(node_of[prog["name"]], out_edges(fwd_mod), 10**9, 10**9)[0],)
        exp[f"{prog['name']}|calls"] = ball(node_of[prog["name"]], out_edges(call_edges), *project_limits) + (ball(node_of[prog["name"]], out_edges(call_edges), 10**9, 10**9)[0],)
    # project-wide graphs (default limits): roots and their direct relation
    off = {node_of[e] for e in meta if not graph_on(e)}
    mod_roots = {mid(m) for m in model["mods"] if graph_on(m)} | {mid(s) for s in subs}
    if prog and prog["uses"]:
        mod_roots.add(node_of[prog["name"]])
    me = {(a, b) for (a, b) in fwd_mod if a in mod_roots}
    exp["project|module"] = (mod_roots | {b for (a, b) in me}, me, off)
    t_roots = {tid(t) for t in types if graph_on(t)}
    te = {(a, b) for (a, b) in type_edges if a in t_roots}
    exp["project|type"] = (t_roots | {b for (a, b) in te}, te, off)
    c_roots = {pid(p) for p in procs if graph_on(p) and p not in hidden}
    if prog and prog["calls"]:
        c_roots.add(node_of[prog["name"]])
    c_roots |= {f"interface~ext_{m}" for m in model.get("iface_uses", {})}
    c_roots |= {iid(n) for n, d in internals.items() if graph_on(d["host"]) and d["host"] not in hidden}  # (registered through their host) visible internal procedures are roots of the project call graph  # an interface body is a procedure of the project (no calls)
    ce = {(a, b) for (a, b) in call_edges if a in c_roots}
    exp["project|call"] = (c_roots | {b for (a, b) in ce}, ce, off)
    # file graph
    fm = model["filemap"]
    fedges = set()
    for (a, b) in fwd_mod:
        fa = fm[a.split("~", 1)[1]]
        fb = fm[b.split("~", 1)[1]]
        if fa != fb:
            fedges.add((f"sourcefile~{fa}", f"sourcefile~{fb}"))
    for m, u in model.get("iface_uses", {}).items():
        if fm[m] != fm[u]:
            fedges.add((f"sourcefile~{fm[m]}", f"sourcefile~{fm[u]}"))
    exp["project|file_edges"] = fedges
    exp["files"] = sorted(set(fm.values()))
    return exp, {"use": use_edges, "anc": anc_edges, "type": type_edges, "call": call_edges}


# ---------------------------------------------------------------------------------------------
# observation (in the forked child)

EDGE_RE = re.compile(r'^\s*(?:"([^"]+)"|(\S+))\s*->\s*(?:"([^"]+)"|([^\s\[]+))')
NODE_RE = re.compile(r'^\s*(?:"([^"]+)"|([^\s\[-]+))\s*\[')


def parse_dot(graph):
    nodes, edges = set(), set()
    for line in graph.dot.body:
        if m := EDGE_RE.match(line):
            edges.add((m.group(1) or m.group(2), m.group(3) or m.group(4)))
        elif m := NODE_RE.match(line):
            n = m.group(1) or m.group(2)
            if n not in ("graph", "node", "edge"):
                nodes.add(n)
    return sorted(nodes), sorted(edges), graph.truncated


def run_case(item):
    import ford.output as fo

    captured = {}
    orig_init = fo.Documentation.__init__

    def init(self, settings, proj_docs, project, pagetree):
        r = orig_init(self, settings, proj_docs, project, pagetree)
        captured["project"] = project
        captured["docs"] = self
        return r

    fo.Documentation.__init__ = init
    r = site.run_in_process(item["root"])
    res = {"run": r, "graphs": {}, "has": {}, "adjacency_violations": []}
    proj, docs = captured.get("project"), captured.get("docs")
    if proj is None or r["outcome"] != "ok":
        return res
    G = res["graphs"]

    out_dir = os.path.join(item["root"], "doc")
    res["table_rows"] = []       # (graph key, rows shown, first-hop edges) for graphs rendered as tables
    res["not_on_page"] = []      # graphs that are not empty but missing from the page of their entity
    res["on_page_checked"] = 0

    def grab(key, obj, attr):
        g = getattr(obj, attr, None)
        res["has"][key] = g is not None and g != ""
        if g is not None and g != "" and hasattr(g, "dot"):
            G[key] = parse_dot(g)
            try:
                html = str(g)
            except Exception:  # noqa: BLE001
                html = ""
            if "<svg" in html:
                # the drawn picture: one <g class="edge"> with <title>tail->head</title> per edge of the DOT source
                import html as _html

                drawn = set()
                for t, body in re.findall(r'<g id="[^"]*edge\d+" class="edge">\s*<title>(.*?)</title>(.*?)</g>', html, re.S):
                    a, _, b = _html.unescape(t).partition("->")
                    a, b = a.strip().split(":")[0], b.strip().split(":")[0]
                    drawn.add((a, b))
                    if body.count("<polygon") >= 2:
                        drawn.add((b, a))  # (graphviz `concentrate` draws an opposite pair as one line with an arrowhead at each end)
                src_edges = set(G[key][1])
                res["svg_checked"] = res.get("svg_checked", 0) + 1
                res["svg_edges"] = res.get("svg_edges", 0) + len(drawn)
                lost = sorted(e for e in src_edges if e not in drawn)
                if lost:
                    res.setdefault("svg_lost", []).append((key, lost[:4], len(src_edges), len(drawn), (lost[0][1], lost[0][0]) in src_edges))
            if '<table class="graph">' in html:
                # table form (first hop too large to draw): one row per edge of the first hop
                table = html[html.index('<table class="graph">'):html.index("</table>")]
                res["table_rows"].append((key, table.count('class="node"'), len(getattr(g, "hop_edges", []))))
            url = obj.get_url() if hasattr(obj, "get_url") else None
            if html and url and "#" not in url and attr in ("usesgraph", "usedbygraph", "inhergraph", "inherbygraph", "callsgraph", "calledbygraph"):
                page = os.path.join(out_dir, url)
                if os.path.isfile(page):
                    res["on_page_checked"] += 1
                    if f'id="{type(g).__name__}-help-text"' not in open(page, encoding="utf-8", errors="replace").read():
                        res["not_on_page"].append((key, url))

    for m in list(proj.modules) + list(proj.submodules):
        grab(f"{m.name.lower()}|uses", m, "usesgraph")
        grab(f"{m.name.lower()}|usedby", m, "usedbygraph")
    for t in proj.types:
        grab(f"{t.name.lower()}|inherits", t, "inhergraph")
        grab(f"{t.name.lower()}|inheritedby", t, "inherbygraph")
    for p in proj.procedures:
        grab(f"{p.name.lower()}|calls", p, "callsgraph")
        grab(f"{p.name.lower()}|calledby", p, "calledbygraph")
    for p in proj.programs:
        grab(f"{p.name.lower()}|uses", p, "usesgraph")
        grab(f"{p.name.lower()}|calls", p, "callsgraph")
    for f in proj.files:
        grab(f"{f.name.lower()}|efferent", f, "efferentgraph")
        grab(f"{f.name.lower()}|afferent", f, "afferentgraph")
    gm = docs.graphs
    for key, attr in (("project|module", "usegraph"), ("project|type", "typegraph"), ("project|call", "callgraph"), ("project|file", "filegraph")):
        g = getattr(gm, attr, None)
        if g is not None and hasattr(g, "dot"):
            G[key] = parse_dot(g)
    # invariant at the quiescent point: inverse adjacency of node objects
    gd = gm.data
    bad = res["adjacency_violations"]
    nchecked = 0
    for coll in (gd.modules, gd.submodules, gd.procedures, gd.programs, gd.blockdata):
        for node in coll.values():
            for u in getattr(node, "uses", ()):  # n uses u  <=>  n in u.used_by
                nchecked += 1
                if hasattr(u, "used_by") and node not in u.used_by:
                    bad.append(("uses/used_by", node.ident, u.ident))
            for c in getattr(node, "calls", ()):
                nchecked += 1
                if node not in getattr(c, "called_by", (node,)):
                    bad.append(("calls/called_by", node.ident, c.ident))
            for c in getattr(node, "called_by", ()):
                nchecked += 1
                if node not in getattr(c, "calls", (node,)):
                    bad.append(("called_by/calls", node.ident, c.ident))
            for c in getattr(node, "used_by", ()):
                nchecked += 1
                if node not in getattr(c, "uses", (node,)):
                    bad.append(("used_by/uses", node.ident, c.ident))
            anc = getattr(node, "ancestor", None)
            if anc is not None and hasattr(anc, "children"):
                nchecked += 1
                if node not in anc.children:
                    bad.append(("ancestor/children", node.ident, anc.ident))
    for node in gd.types.values():
        if node.ancestor is not None:
            nchecked += 1
            if node not in node.ancestor.children:
                bad.append(("type ancestor/children", node.ident, node.ancestor.ident))
        for c in node.comp_types:
            nchecked += 1
            if node not in c.comp_of:
                bad.append(("comp_types/comp_of", node.ident, c.ident))
        for c in node.comp_of:
            nchecked += 1
            if node not in c.comp_types:
                bad.append(("comp_of/comp_types", node.ident, c.ident))
    for node in gd.sourcefiles.values():
        for e in node.efferent:
            nchecked += 1
            if node not in e.afferent:
                bad.append(("efferent/afferent", node.ident, e.ident))
    res["adjacency_checked"] = nchecked
    return res


def case(seed):
    model = build(seed)
    files = render(model)
    rng = random.Random(seed + 7)
    base = core.mktemp("vf_c13_")
    try:
        src = os.path.join(base, "src")
        os.makedirs(src)
        for n, t in files.items():
            os.makedirs(os.path.dirname(os.path.join(src, n)), exist_ok=True)
            open(os.path.join(src, n), "w").write(t)
        proj_limits = (10000, 1000000000)
        opts = {"project": f"P{seed}", "src_dir": "./src", "output_dir": "./doc", "preprocess": False, "parallel": 0, "graph": True, "search": False,
                "display": ["public", "protected"] if model.get("hidden") else ["public", "private", "protected"], "proc_internals": bool(model.get("proc_internals")), "show_proc_parent": rng.random() < 0.5, "coloured_edges": rng.random() < 0.3, "quiet": True, "incl_src": True}
        if rng.random() < 0.3:
            opts["graph_maxdepth"] = rng.choice([1, 2, 3])
            proj_limits = (opts["graph_maxdepth"], proj_limits[1])
        site.write_project_file(base, opts)
        st, r = core.run_alone(run_case, {"root": base}, timeout=300)
    finally:
        shutil.rmtree(base, ignore_errors=True)
    cfg = {"shape": model["shape"], "project_maxdepth": opts.get("graph_maxdepth"), "show_proc_parent": opts["show_proc_parent"]}
    if st != "ok" or r["run"]["outcome"] != "ok":
        d = r["run"] if st == "ok" else {"harness": st, "detail": str(r)[-700:]}
        return {"viol": [{"kf": {"kind": "ford_run_failed" if st == "ok" else "harness_" + st, "message": str(d.get("error") or d.get("code") or "")[:80]},
                          "w": {"seed": seed, "detail": d, "files": files}}], "ngraphs": 0, "nedges": 0, "cfg": cfg, "nontrivial": False, "hash": core.h(files), "sample": None, "adj": 0}
    exp, rel = expected_graphs(model, proj_limits if "graph_maxdepth" in opts else (10000, 1000000000))
    # when the project sets graph_maxdepth, project-wide graphs use it too but they are not nested: unaffected
    viol = []
    G = r["graphs"]
    off_nodes = exp["project|module"][2]
    ngraphs = 0
    nedges = 0
    seen = set()

    def report(kf, w):
        k = json.dumps(kf, sort_keys=True)
        if k in seen:
            return
        seen.add(k)
        w.update({"seed": seed, "files": files})
        viol.append({"kf": kf, "w": w})

    for key, e in exp.items():
        if key.startswith("project|") or key == "files":
            continue
        ent, kind = key.split("|")
        if e is None:
            if r["has"].get(key):
                report({"kind": "graph_false_entity_has_graph", "graph": kind}, {"entity": ent})
            continue
        if key not in G:
            report({"kind": "graph_missing", "graph": kind}, {"entity": ent, "has": r["has"].get(key)})
            continue
        nodes, edges, trunc = G[key]
        en, ee, et, full = e
        if full & off_nodes:
            continue  # a `graph: false` entity takes part: the documentation leaves its role in other entities' graphs open
        ngraphs += 1
        nedges += len(ee)
        limited = bool(model["meta"].get(ent)) or "graph_maxdepth" in opts
        if set(nodes) != en or set(map(tuple, edges)) != ee:
            report({"kind": "graph_differs_from_relation", "graph": kind, "limits_bite": bool(et), "nodes_equal": set(nodes) == en},
                   {"entity": ent, "expected_nodes": sorted(en), "observed_nodes": nodes, "missing_edges": sorted(ee - set(map(tuple, edges)))[:6],
                    "extra_edges": sorted(set(map(tuple, edges)) - ee)[:6], "meta": model["meta"].get(ent), "project_limits": proj_limits})
        for (a, b) in edges:
            if a not in nodes or b not in nodes:
                report({"kind": "edge_endpoint_not_a_node", "graph": kind}, {"entity": ent, "edge": (a, b), "nodes": nodes})
    # inverses (untruncated graphs only)
    pairs = [("uses", "usedby"), ("inherits", "inheritedby"), ("calls", "calledby")]
    for fwd, inv in pairs:
        for key, g in G.items():
            if not key.endswith("|" + fwd):
                continue
            ent = key.split("|")[0]
            nodes, edges, trunc = g
            if trunc != -1:
                continue
            root = [n for n in nodes if n.split("~", 1)[-1] == ent]
            for (a, b) in edges:
                if not root or a != root[0]:
                    continue
                other = b.split("~", 1)[-1]
                ik = f"{other}|{inv}"
                if ik in G and G[ik][2] == -1:
                    if (a, b) not in set(map(tuple, G[ik][1])):
                        report({"kind": "inverse_graph_lacks_edge", "graph": inv}, {"edge": (a, b), "forward": key, "inverse": ik, "inverse_edges": G[ik][1]})
    # project-wide graphs
    for key in ("project|module", "project|type", "project|call"):
        if key not in G:
            continue
        ngraphs += 1
        nodes, edges, trunc = G[key]
        en, ee, off = exp[key]
        present_off = sorted(set(nodes) & off)
        if present_off:
            report({"kind": "graph_false_entity_in_project_graph", "graph": key.split("|")[1], "as": "root" if False else "neighbour_or_root"},
                   {"nodes": present_off, "observed_nodes": nodes})
        en2 = en - off
        ee2 = {(a, b) for (a, b) in ee if a not in off and b not in off}
        on = set(nodes) - off
        oe = {(a, b) for (a, b) in map(tuple, edges) if a not in off and b not in off}
        if on != en2 or oe != ee2:
            report({"kind": "project_graph_differs_from_relation", "graph": key.split("|")[1]},
                   {"missing_nodes": sorted(en2 - on), "extra_nodes": sorted(on - en2), "missing_edges": sorted(ee2 - oe)[:6], "extra_edges": sorted(oe - ee2)[:6]})
    if "project|file" in G:
        ngraphs += 1
        nodes, edges, trunc = G["project|file"]
        fe = exp["project|file_edges"]
        # FileGraph draws dependency -> dependent
        oe = {(b, a) for (a, b) in map(tuple, edges)}
        def base(x):
            return re.sub(r"~\d+$", "", x.split("~", 1)[1].lower().split("/")[-1])

        if sorted((base(a), base(b)) for a, b in oe) != sorted((base(a), base(b)) for a, b in fe):
            report({"kind": "project_graph_differs_from_relation", "graph": "file"}, {"expected_edges": sorted(fe), "observed_edges(dependent->dependency)": sorted(oe)})
    for b in r["adjacency_violations"][:5]:
        report({"kind": "inverse_adjacency_inconsistent", "relation": b[0]}, {"pair": b})
    for key, rows, nedge in r.get("table_rows", []):
        if rows != nedge:
            report({"kind": "graph_table_rows_differ_from_first_hop_edges", "graph": key.split("|")[1]}, {"graph": key, "rows": rows, "first_hop_edges": nedge})
    for key, lost, nsrc, ndrawn, opposite in r.get("svg_lost", [])[:5]:
        report({"kind": "edge_of_the_graph_missing_from_the_drawn_picture", "graph": key.split("|")[1], "opposite_edge_present": opposite},
               {"graph": key, "edges_not_drawn": lost, "edges_in_source": nsrc, "edges_drawn": ndrawn})
    for key, url in r.get("not_on_page", [])[:5]:
        report({"kind": "graph_missing_from_the_page_of_its_entity", "graph": key.split("|")[1]}, {"graph": key, "page": url})
    nontrivial = max((len(v[1]) for k, v in exp.items() if isinstance(v, tuple) and len(v) == 4), default=0) >= 3
    return {"viol": viol, "ngraphs": ngraphs, "nedges": nedges, "cfg": cfg, "nontrivial": nontrivial, "hash": core.h([files, cfg]), "adj": r.get("adjacency_checked", 0), "ntables": len(r.get("table_rows", [])), "nonpage": r.get("on_page_checked", 0), "nsvg": r.get("svg_checked", 0), "nsvgedges": r.get("svg_edges", 0),
            "sample": {"seed": seed, "shape": model["shape"], "modules": model["mods"], "uses": {k: sorted(v) for k, v in model["uses"].items()},
                       "graphs_compared": ngraphs, "example_graph": {k: v for k, v in list(G.items())[:1]}}}


def main():
    run = core.Run(
        PID,
        rule="case = generated project of 3-6 modules (use DAG: random / chain / diamond / disconnected), 0-2 types per module with extension "
        "and composition among visible types, 1-3 procedures per module with calls among visible procedures (recursion and mutual calls "
        "allowed), optional submodule chains, optional program, several modules per file sometimes; per-entity metadata graph: false / "
        "graph_maxdepth / graph_maxnodes on random entities; project graph_maxdepth sometimes; show_proc_parent / coloured_edges random. "
        "Every per-entity and project-wide graph object's DOT body is compared with the model. Non-trivial: some relation has >=3 edges; "
        "distinct by sources + configuration.",
        assumptions=["display includes private so no procedure is skipped as invisible; no type-bound procedures in this workload; internal functions only as callers",
                     "per-entity graphs follow the hop-wise expansion: a hop that would exceed graph_maxnodes is not added; edges are drawn from expanded nodes only",
                     "layout, colours and labels are not compared"],
    )
    rp = core.replay_arg()
    if rp:
        w = json.load(open(rp))["witness"]
        r = case(w["seed"])
        known = core.load_known(PID)
        bad = [v for v in r["viol"] if core.match_known(known, v["kf"]) is None]
        print("replay:", "VIOLATION" if bad else "held")
        for v in bad[:10]:
            print(json.dumps({k: x for k, x in v["w"].items() if k != "files"}, default=str)[:600])
        sys.exit(1 if bad else 0)
    n = 1500 if run.tier == "thorough" else 120
    seeds = [run.seed * 100003 + i for i in range(n)]
    results = core.fork_map(case, seeds, per_case_fork=False, case_timeout=400, total_timeout=3400)
    for sd, (st, r) in zip(seeds, results):
        if st != "ok":
            run.inconc(f"{st}: {str(r)[-300:]}")
            continue
        run.case(key=r["hash"], nontrivial=r["nontrivial"], sample=r["sample"] if r["nontrivial"] else None)
        run.count("graphs_compared", r["ngraphs"])
        run.count("expected_edges", r["nedges"])
        run.count("inverse_adjacency_pairs_checked", r["adj"])
        run.count("graphs_rendered_as_tables_checked", r.get("ntables", 0))
        run.count("graphs_looked_up_on_their_pages", r.get("nonpage", 0))
        run.count("drawn_pictures_compared_with_their_source", r.get("nsvg", 0))
        run.count("edges_found_in_drawn_pictures", r.get("nsvgedges", 0))
        run.seen("shapes", r["cfg"]["shape"])
        for v in r["viol"]:
            run.violation(v["kf"], v["w"])
    run.max_samples = 1
    run.finish(floors={"evaluations": 100, "distinct_nontrivial": 60, "graphs_compared": 1500, "expected_edges": 1500, "inverse_adjacency_pairs_checked": 1000, "shapes": 4, "drawn_pictures_compared_with_their_source": 500, "edges_found_in_drawn_pictures": 500})


if __name__ == "__main__":
    main()
