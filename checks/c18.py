"""C18 - rendered declarations say what the source says, and stay inert text.

Runtime monitor over complete FORD runs (forked child).  Each case is a program whose declarations carry
text drawn from an alphabet of HTML- and Markdown-significant characters (character literals, relational
expressions in initial values, kinds, lengths, dimensions, attributes, bind names) - and a *twin* program in
which every hostile character is replaced by a harmless letter of the same width.  Oracles:
  (1) reference: every hostile fragment is found verbatim (blanks normalised) in the text of the page that
      displays its declaration (module / procedure / type / interface / namelist page);
  (2) differential DOM: the sequence of (tag, attribute names) of every page equals that of the twin's page;
  (3) differential text: page text mapped through the same character replacement equals the twin's text.
"""
from __future__ import annotations

import json
import os
import random
import re
import shutil
import sys

from vf import core

ford = core.setup_env()
from vf import site  # noqa: E402

PID = "C18"

MAP = {"<": "l", ">": "g", "&": "n", '"': "q", "\\": "b", "*": "s", "_": "u", "`": "t", "[": "o", "]": "c", "#": "h", "|": "p", "$": "d", "{": "e", "}": "f", "~": "w", "^": "r"}
LITERALS = [
    "<b>bold</b>", "a<b", "a < b > c", "</td></tr>", "<script>alert(1)</script>", "<!-- x", "x & y", "&amp; &lt;", "&#60;x", 'say "hi"', "it''s", "a\\b", "c:\\dir\\n",
    "two  blanks", "   lead", "*emph* _u_", "[link](http://x)", "`code`", "# head", "a | b | c", "$x^2$", "{!inc!}", "~~s~~", "<img src=x onerror=y>", "100% <done>",
    "don''t; <b>stop</b>", 'say "hi; <x> there', "\\", "c:\\dir\\", "\\\\host\\",  # (a backslash is an ordinary character, also right before the closing quote) "a;b ''q'' \"r\" ;c",
    "@note not a note", "[[not_a_link]]", "(a,i0,'<',f8.3)", "a,b;c", "Mixed CASE <B>Text</B>", "UPPER & lower", "tab\there" if False else "a->b", "<= >= /= ==",
]
EXPRS = ["merge(1, 2, ka < kb)", "merge(1, 2, ka<kb)", "merge(4, 8, ka > kb)", "merge(1, 2, ka <= kb .and. kb >= ka)", "merge(2, 3, ka /= kb)", "merge(2, 3, ka == kb)", "max(ka, kb)",
         "(ka+kb)/2", "ka/2 + 1", "kb*2/ka"]  # a `/` once made the URL filter treat the declaration as a path


def benign(s):
    return "".join(MAP.get(c, c) for c in s)


def squeeze(s):
    return re.sub(r"\s+", "", s.replace("\xa0", " "))


def build(seed):
    """Returns (hostile source lines, list of checks: dict(page, fragment, where))."""
    rng = random.Random(seed)
    sx = seed % 997
    mod = f"hm{sx}"
    L = [f"module {mod}", "!! doc", "implicit none", "integer, parameter :: ka = 1, kb = 2"]
    checks = []
    n = [0]

    def nm(p):
        n[0] += 1
        return f"{p}{sx}x{n[0]}"

    def lit(text, q=None):
        q = q or rng.choice(["'", '"'])
        body = text
        if q == '"':
            body = text.replace("''", "'").replace('"', '""')
        return q + body + q

    mpage = f"module/{mod}.html"
    # an enumeration: every enumerator is shown with its value, also where the value is implied (0 for the first one and after = -1)
    e1, e2, e3, e4 = nm("ez"), nm("ea"), nm("eb"), nm("ec")
    L += ["enum, bind(c)", f"enumerator :: {e1}, {e2} = -1, {e3}", f"enumerator :: {e4} = 5", "end enum"]
    for en_, val_ in ((e1, "0"), (e2, "-1"), (e3, "0"), (e4, "5")):
        checks.append({"page": mpage, "fragment": f"{en_} = {val_}", "where": "enumerator_value"})
    # module parameters / variables with hostile initial values
    for _ in range(rng.randint(3, 6)):
        v = nm("hv")
        t = rng.choice(LITERALS)
        l = lit(t)
        form = rng.choice(["param", "var", "param_stmt", "array", "typed_array"])
        if form == "param":
            L.append(f"character(len=*), parameter :: {v} = {l}")
        elif form == "var":
            L.append(f"character(len=40) :: {v} = {l}")
        elif form == "param_stmt":
            L += [f"character(len=40) :: {v}", f"parameter ({v} = {l})"]
        elif form == "typed_array":
            # array constructor with a type-spec: a second `::` in a declaration that has attributes
            l2 = lit(rng.choice(LITERALS))
            L.append(f"character(len=40), parameter :: {v}(2) = [character(len=40) :: {l}, {l2}]")
            checks.append({"page": mpage, "fragment": l2, "where": "initial_literal"})
        else:
            l2 = lit(rng.choice(LITERALS))
            L.append(f"character(len=40), dimension(2) :: {v} = [{l}, {l2}]")
            checks.append({"page": mpage, "fragment": l2, "where": "initial_literal"})
        L.append(f"!! doc of {v}")
        checks.append({"page": mpage, "fragment": l, "where": "initial_literal"})
    # expressions in initial value / kind / dimension / attribute / len
    for _ in range(rng.randint(2, 5)):
        v = nm("hx")
        e = rng.choice(EXPRS)
        where = rng.choice(["initial_expr", "kind_expr", "dimension_expr", "dimension_attr_expr", "len_expr", "logical_initial"])
        if where == "initial_expr":
            L.append(f"integer, parameter :: {v} = {e}")
        elif where == "kind_expr":
            L.append(f"integer(kind={e}) :: {v}")
        elif where == "dimension_expr":
            L.append(f"real :: {v}({e})")
        elif where == "dimension_attr_expr":
            L.append(f"real, dimension({e}) :: {v}")
        elif where == "len_expr":
            L.append(f"character(len={e}) :: {v}")
        else:
            e = rng.choice(["ka < kb", "ka > kb .or. ka <= kb", "(ka < kb) .and. (kb > ka)", ".not. (ka >= kb)"])
            L.append(f"logical, parameter :: {v} = {e}")
        L.append(f"!! doc of {v}")
        checks.append({"page": mpage, "fragment": e, "where": where})
    # old-style length given with the entity: the declaration text must still carry it
    for form in rng.sample(["scalar", "array", "assumed"], rng.randint(1, 2)):
        v = nm("hq")
        ln = 4000 + rng.randint(1, 900)
        # (shown as written, or as the equivalent length parameter of the type)
        if form == "scalar":
            L.append(f"character :: {v}*{ln}")
            frag, alt = f"{v}*{ln}", (f"character(len={ln})", v)
        elif form == "array":
            L.append(f"character :: {v}(2)*{ln}")
            frag, alt = f"{v}(2)*{ln}", (f"character(len={ln})", f"{v}(2)")
        else:
            L.append(f"character(len=2), parameter :: {v}*(*) = 'ab'")
            frag, alt = f"{v}*(*)", ("character(len=*)", v)
        L.append(f"!! doc of {v}")
        checks.append({"page": mpage, "fragment": frag, "or": alt, "where": "entity_char_length"})
    # both character type parameters positional, the kind an integer literal
    for form in rng.sample(["var", "param", "array"], rng.randint(1, 2)):
        v = nm("hk")
        ln = 5000 + rng.randint(1, 900)
        if form == "var":
            L.append(f"character({ln}, 1) :: {v}")
        elif form == "param":
            L.append(f"character({ln}, 1), parameter :: {v} = 'p'")
        else:
            L.append(f"character({ln}, 1), dimension(2) :: {v}")
        L.append(f"!! doc of {v}")
        checks.append({"page": mpage, "fragment": f"character({ln}, 1)", "or": (f"len={ln})", v), "where": "positional_len_and_kind"})
        checks.append({"page": mpage, "fragment": "character(len=1)", "or": ("character(len=1)", v), "where": "positional_len_and_kind", "absent_near": v})
    # a derived type with hostile component defaults
    t = nm("ht")
    L += [f"type :: {t}", "!! type doc"]
    for _ in range(rng.randint(1, 3)):
        c = nm("hc")
        l = lit(rng.choice(LITERALS))
        L += [f"character(len=30) :: {c} = {l}", f"!! doc of {c}"]
        checks.append({"page": f"type/{t}.html", "fragment": l, "where": "component_initial_literal"})
    e = rng.choice(EXPRS)
    c = nm("hc")
    L += [f"integer :: {c}({e})", f"!! doc of {c}", f"end type {t}"]
    checks.append({"page": f"type/{t}.html", "fragment": e, "where": "component_dimension_expr"})
    # namelist of variables with hostile initial values
    nl = nm("hn")
    nlv = nm("hv")
    l = lit(rng.choice(LITERALS))
    L += [f"character(len=30) :: {nlv} = {l}", f"!! doc of {nlv}", f"namelist /{nl}/ {nlv}", "!! namelist doc"]
    checks.append({"page": f"namelist/{nl}.html", "fragment": l, "where": "namelist_initial_literal"})
    # interfaces / procedures
    L.append("interface")
    ib = nm("hi")
    e = rng.choice(EXPRS)
    L += [f"subroutine {ib}(arr, s)", "!! iface doc", "import :: ka, kb", f"real, intent(in) :: arr({e})", "!! arr doc", f"character(len=*), intent(in), optional :: s", "!! s doc", f"end subroutine {ib}"]
    checks.append({"page": f"interface/{ib}.html", "fragment": e, "where": "interface_arg_dimension_expr"})
    # a function declared by an interface body: its result carries a dimension (as attribute or with the name) and attributes
    ifn = nm("hj")
    e2 = rng.choice([x for x in EXPRS if "<" in x or ">" in x])
    rdecl = rng.choice([f"real, dimension({e2}) :: r", f"real :: r({e2})", f"real, pointer, dimension(:) :: r"])
    L += [f"function {ifn}(x) result(r)", "!! iface func doc", "import :: ka, kb", "integer, intent(in) :: x", "!! x doc", rdecl, "!! r doc", f"end function {ifn}", "end interface"]
    if e2 in rdecl:
        checks.append({"page": f"interface/{ifn}.html", "fragment": e2, "where": "interface_result_dimension_expr"})
    afn = nm("ha")
    e3 = rng.choice([x for x in EXPRS if "<" in x or ">" in x])
    L += ["abstract interface", f"function {afn}(x) result(r)", "!! abstract iface func doc", "import :: ka, kb", "integer, intent(in) :: x", "!! x doc", f"integer, dimension({e3}) :: r", "!! r doc",
          f"end function {afn}", "end interface"]
    checks.append({"page": f"interface/{afn}.html", "fragment": e3, "where": "abstract_interface_result_dimension_expr"})
    # a module variable that a dummy argument of a procedure below hides
    shv = nm("hv")
    shl = lit(f"<i>host{sx}</i> & \\ shadowed")
    L += [f"character(len=30) :: {shv} = {shl}", f"!! doc of {shv}"]
    checks.append({"page": mpage, "fragment": shl, "where": "initial_literal"})
    L.append("contains")
    # dummy arguments: OPTIONAL without INTENT (data object and dummy procedure); a namelist whose member is the dummy argument that hides the module variable
    ps, wa, cba, nls = nm("hs"), nm("hw"), nm("hk"), nm("hn")
    L += [f"subroutine {ps}({shv}, {wa}, {cba}, n)", "!! proc doc", f"integer, intent(in) :: {shv}", "!! hiding dummy doc", f"real, optional, dimension(n) :: {wa}", "!! w doc",
          f"procedure({ib}), optional :: {cba}", "!! cb doc", "integer :: n", "!! n doc", f"namelist /{nls}/ {shv}", "!! namelist doc", f"end subroutine {ps}"]
    checks.append({"page": f"proc/{ps}.html", "fragment": f"real, optional, dimension(n) :: {wa}", "where": "optional_without_intent"})
    checks.append({"page": f"proc/{ps}.html", "fragment": f"procedure({ib}), optional :: {cba}", "where": "optional_dummy_procedure"})
    checks.append({"page": f"namelist/{nls}.html", "fragment": "integer", "where": "namelist_member_is_dummy_argument"})
    checks.append({"page": f"namelist/{nls}.html", "fragment": f"host{sx}", "where": "namelist_member_is_dummy_argument", "absent": True})
    p = nm("hp")
    bn = rng.choice(["c_name", "a<b", "x&y", "<i>n</i>", 'q"q'])
    bl = lit(bn, "'") if '"' in bn else lit(bn)
    # a function whose binding label stands before its RESULT clause
    fb = nm("hb")
    bl2 = lit(rng.choice(["vol<c", "x&y", "c_fn"]), '"')
    L += [f"function {fb}(r) bind(c, name={bl2}) result(v)", "!! bind-result func doc", "use iso_c_binding", "real(c_double), value :: r", "!! r doc", "integer(c_int) :: v", "!! v doc", "v = 1", f"end function {fb}"]
    checks.append({"page": f"proc/{fb}.html", "fragment": "result(v)", "where": "result_clause_after_bind"})
    checks.append({"page": f"proc/{fb}.html", "fragment": "integer(c_int)", "or": ("integer(kind=c_int)", "v"), "where": "result_clause_after_bind"})
    L += [f"subroutine {p}(a, b) bind(c, name={bl})", "!! proc doc", "use iso_c_binding", f"integer(c_int), intent(in) :: a({rng.choice(EXPRS)})", "!! a doc",
          "integer(c_int), value :: b", "!! b doc"]
    l = lit(rng.choice(LITERALS))
    lv = nm("hl")
    lt = nm("hy")
    # a derived type local to the procedure has no page of its own: its name is shown as plain text
    L += [f"type :: {lt}", "!! local type doc", "integer :: q", f"end type {lt}"]
    checks.append({"page": f"proc/{p}.html", "fragment": f"type :: {lt}", "where": "local_type_heading"})
    L += [f"character(len=20), parameter :: {lv} = {l}", "!! local doc", f"end subroutine {p}"]
    checks.append({"page": f"proc/{p}.html", "fragment": l, "where": "local_initial_literal"})
    if bn != "c_name":
        checks.append({"page": f"proc/{p}.html", "fragment": bl, "where": "bind_name"})
    pf = nm("hg")
    prefix = rng.choice(["impure elemental", "non_recursive", "pure", "recursive", "elemental", "impure"])
    rtype = rng.choice(["real(kind=8)", "integer", "logical"])
    L += [f"{prefix} {rtype} function {pf}(x)", "!! prefixed func doc", "integer, intent(in) :: x", "!! x doc", f"{pf} = 1", f"end function {pf}"]
    checks.append({"page": f"proc/{pf}.html", "fragment": f"{prefix} function {pf}", "where": "procedure_heading_prefix"})
    checks.append({"page": f"proc/{pf}.html", "fragment": rtype, "where": "function_result_type"})
    f = nm("hf")
    e = rng.choice(EXPRS)
    L += [f"function {f}(x) result(res)", "!! func doc", f"integer, intent(in) :: x", "!! x doc", f"integer :: res({e})", "!! res doc", "res = x", f"end function {f}"]
    checks.append({"page": f"proc/{f}.html", "fragment": e, "where": "result_dimension_expr"})
    L.append(f"end module {mod}")
    return L, checks


def twin_of(lines):
    """Replace hostile characters inside literals and in relational expressions by letters (same width)."""
    from vf import lexer

    out = []
    for ln in lines:
        if ln.startswith("!!"):
            out.append(ln)
            continue
        marks, _ = lexer.scan(ln)
        chars = []
        for i, c, in_lit in marks:
            if in_lit and c not in "'\"":
                chars.append(MAP.get(c, c))
            elif not in_lit and c in "<>" :
                chars.append(MAP[c])
            else:
                chars.append(c)
        # quotes inside literals (doubled or the other kind) are hostile too
        s = "".join(chars)
        out.append(s)
    return out


def continue_literals(lines, ref_lines, seed):
    """Split some character literals over two source lines (`'ab &` / `&cd'`, blanks before the `&` and after the leading `&`
    belong to the value).  The places are chosen on `ref_lines` (the hostile program) and applied to `lines` (same widths)."""
    from vf import lexer

    rng = random.Random(seed * 17 + 3)
    out = []
    for ln, ref in zip(lines, ref_lines):
        if ref.startswith("!!") or ref.lstrip().lower().startswith(("namelist", "subroutine", "function")) or rng.random() > 0.35:
            out.append(ln)
            continue
        marks, _ = lexer.scan(ref)
        inner = [i for idx, (i, c, lit) in enumerate(marks) if 0 < idx < len(marks) - 1 and lit and marks[idx - 1][2] and marks[idx + 1][2]
                 and c not in "'\"" and marks[idx - 1][1] not in "'\"" and marks[idx + 1][1] not in "'\""]
        # prefer places next to a blank: the blank before the `&` / after the leading `&` must survive
        pref = [i for i in inner if ref[i - 1] == " " or ref[i] == " "]
        if not inner:
            out.append(ln)
            continue
        k = rng.choice(pref or inner)
        out.append(ln[:k] + "&\n   &" + ln[k:])
    return out


def run_case(item):
    return site.run_in_process(item["root"])


def skeleton(path):
    from bs4 import BeautifulSoup

    raw = open(path, encoding="utf-8", errors="replace").read()
    soup = BeautifulSoup(raw, "html.parser")
    sk = []
    for el in soup.find_all(True):
        sk.append((el.name, tuple(sorted(el.attrs.keys()))))
    for sc in soup(["script", "style"]):
        sc.decompose()
    for hl in soup.select("div.hl, div.codehilite"):
        hl.decompose()
    return sk, soup.get_text(" ")


def case(seed):
    lines, checks = build(seed)
    tw = twin_of(lines)
    if seed % 2:
        tw = continue_literals(tw, lines, seed)
        lines = continue_literals(lines, lines, seed)
    base = core.mktemp("vf_c18_")
    viol = []
    try:
        outs = {}
        for tag, src_lines in (("hostile", lines), ("twin", tw)):
            root = os.path.join(base, tag)
            os.makedirs(os.path.join(root, "src"))
            open(os.path.join(root, "src", "m.f90"), "w").write("\n".join(src_lines) + "\n")
            opts = {"project": "P", "src_dir": "./src", "output_dir": "./doc", "preprocess": False, "parallel": 0, "graph": False, "search": False,
                    "display": ["public", "private", "protected"], "proc_internals": True, "incl_src": False, "quiet": True, "lower": seed % 3 == 0}
            site.write_project_file(root, opts)
            st, r = core.run_alone(run_case, {"root": root}, timeout=300)
            outs[tag] = (st, r, os.path.join(root, "doc"))
        for tag, (st, r, out) in outs.items():
            if st != "ok" or r["outcome"] != "ok":
                d = r if st == "ok" else {"harness": st, "detail": str(r)[-700:]}
                viol.append({"kf": {"kind": ("ford_run_failed_" + tag) if st == "ok" else "harness_" + st, "message": str(d.get("error") or d.get("code") or "")[:80]},
                             "w": {"seed": seed, "detail": d, "source": lines if tag == "hostile" else tw}})
        if viol:
            return {"viol": viol, "nchecks": 0, "npages": 0, "where": [], "nontrivial": False, "hash": core.h(lines), "sample": None}
        hout, tout = outs["hostile"][2], outs["twin"][2]
        pages = sorted(os.path.relpath(os.path.join(dp, f), hout) for dp, dn, fn in os.walk(hout) for f in fn if f.endswith(".html"))
        tpages = sorted(os.path.relpath(os.path.join(dp, f), tout) for dp, dn, fn in os.walk(tout) for f in fn if f.endswith(".html"))
        if pages != tpages:
            viol.append({"kf": {"kind": "page_sets_differ"}, "w": {"seed": seed, "only_hostile": sorted(set(pages) - set(tpages)), "only_twin": sorted(set(tpages) - set(pages)), "source": lines}})
        texts = {}
        seen = set()
        for p in pages:
            if p not in tpages:
                continue
            hs, ht = skeleton(os.path.join(hout, p))
            ts, tt = skeleton(os.path.join(tout, p))
            texts[p] = ht
            pk = p.split("/")[0]
            if hs != ts:
                # first difference
                i = next((k for k in range(min(len(hs), len(ts))) if hs[k] != ts[k]), min(len(hs), len(ts)))
                kf = {"kind": "page_structure_changed", "page_kind": pk}
                if json.dumps(kf) not in seen:
                    seen.add(json.dumps(kf))
                    viol.append({"kf": kf, "w": {"seed": seed, "page": p, "hostile_tags_around": hs[max(0, i - 3): i + 4], "twin_tags_around": ts[max(0, i - 3): i + 4], "source": lines}})
            elif squeeze(benign(ht)) != squeeze(benign(tt)):
                a, b = squeeze(benign(ht)), squeeze(benign(tt))
                i = next((k for k in range(min(len(a), len(b))) if a[k] != b[k]), min(len(a), len(b)))
                kf = {"kind": "page_text_differs_from_twin", "page_kind": pk}
                if json.dumps(kf) not in seen:
                    seen.add(json.dumps(kf))
                    viol.append({"kf": kf, "w": {"seed": seed, "page": p, "hostile_text_around": a[max(0, i - 40): i + 40], "twin_text_around": b[max(0, i - 40): i + 40], "source": lines}})
        nchecks = 0
        for c in checks:
            t = texts.get(c["page"])
            if t is None:
                viol.append({"kf": {"kind": "page_missing", "where": c["where"]}, "w": {"seed": seed, "check": c, "pages": pages[:30], "source": lines}})
                continue
            nchecks += 1
            frag = c["fragment"]
            if c.get("absent_near"):
                # the given type text must not be what is shown for this entity
                if re.search(re.escape(squeeze(c["or"][0])) + r"[^:]{0,40}::" + re.escape(squeeze(c["absent_near"])) + r"(?!\d)", squeeze(t)):
                    viol.append({"kf": {"kind": "declaration_text_not_shown_verbatim", "where": c["where"], "has_backslash": False, "has_repeated_blanks": False, "has_doubled_quote": False},
                                 "w": {"seed": seed, "check": c, "source": lines}})
                continue
            if c.get("absent"):
                if frag in t:
                    viol.append({"kf": {"kind": "declaration_of_another_entity_shown", "where": c["where"]}, "w": {"seed": seed, "check": c, "source": lines}})
                continue
            if "literal" in c["where"] or c["where"] == "bind_name":
                # inside a character literal blanks are significant (runs of blanks are shown as non-breaking spaces: collapse)
                collapse = lambda x: re.sub(r"\s+", " ", x.replace("\xa0", " "))  # noqa: E731
                shown = collapse(frag) in collapse(t)
            else:
                shown = squeeze(frag) in squeeze(t)
                if not shown and c.get("or") is not None:  # (type text, entity text): the entity follows its type within the same table row
                    shown = re.search(re.escape(squeeze(c["or"][0])) + r".{0,60}?" + re.escape(squeeze(c["or"][1])) + r"(?!\d)", squeeze(t)) is not None
            if not shown:
                hostile_chars = sorted({ch for ch in frag if ch in MAP})
                kf = {"kind": "declaration_text_not_shown_verbatim", "where": c["where"], "has_backslash": "\\" in frag, "has_repeated_blanks": "  " in frag,
                      "has_doubled_quote": ("''" in frag or '""' in frag)}
                if json.dumps(kf) not in seen:
                    seen.add(json.dumps(kf))
                    # what is shown instead: text around the entity name is not known here; give the page text window around a prefix of the fragment
                    pre = squeeze(frag)[:6]
                    st_ = squeeze(t)
                    i = st_.find(pre)
                    viol.append({"kf": kf, "w": {"seed": seed, "check": c, "hostile_chars": hostile_chars, "page_text_near": st_[max(0, i - 30): i + 80] if i >= 0 else None, "source": lines}})
        return {"viol": viol, "nchecks": nchecks, "npages": len(pages), "where": sorted({c["where"] for c in checks}), "nontrivial": True, "hash": core.h(lines),
                "sample": {"seed": seed, "source_excerpt": lines[:14], "fragments_checked": [c["fragment"] for c in checks][:8]}}
    finally:
        shutil.rmtree(base, ignore_errors=True)


def main():
    run = core.Run(
        PID,
        rule="case = module with parameters/variables/array constructors (hostile character literals in initial values, via attribute or "
        "PARAMETER statement), relational expressions in initial values, kinds, lengths, dimensions and DIMENSION attributes, a derived "
        "type with hostile component defaults, a namelist, an explicit interface with expression dimensions, a bind(c, name=...) procedure "
        "with locals, a function with an expression-dimensioned result; literal alphabet: < > & quotes backslashes repeated blanks "
        "Markdown and FORD markup characters. Each case runs FORD on the program and on its same-width benign twin. Non-trivial: every "
        "case (>=1 HTML-significant character in a displayed position); distinct by source hash.",
        assumptions=["blanks are not compared (repeated blanks are rendered as non-breaking spaces by design)",
                     "the benign twin differs only in the hostile characters, so tag skeleton and mapped text must agree page by page"],
    )
    rp = core.replay_arg()
    if rp:
        w = json.load(open(rp))["witness"]
        r = case(w["seed"])
        known = core.load_known(PID)
        bad = [v for v in r["viol"] if core.match_known(known, v["kf"]) is None]
        print("replay:", "VIOLATION" if bad else "held")
        for v in bad[:10]:
            print(json.dumps({k: x for k, x in v["w"].items() if k != "source"}, default=str)[:600])
        sys.exit(1 if bad else 0)
    n = 1200 if run.tier == "thorough" else 100
    seeds = [run.seed * 100003 + i for i in range(n)]
    results = core.fork_map(case, seeds, per_case_fork=False, case_timeout=400, total_timeout=3400)
    for sd, (st, r) in zip(seeds, results):
        if st != "ok":
            run.inconc(f"{st}: {str(r)[-300:]}")
            continue
        run.case(key=r["hash"], nontrivial=r["nontrivial"], sample=r["sample"])
        run.count("fragments_checked", r["nchecks"])
        run.count("page_pairs_compared", r["npages"])
        for w in r["where"]:
            run.seen("display_positions", w)
        for v in r["viol"]:
            run.violation(v["kf"], v["w"])
    run.max_samples = 2
    run.finish(floors={"evaluations": 80, "distinct_nontrivial": 80, "fragments_checked": 800, "page_pairs_compared": 1000, "display_positions": 12})


if __name__ == "__main__":
    main()
