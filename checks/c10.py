"""C10 - distinct entities never share a page, anchor or copied file.

Runtime monitor over complete FORD runs in a forked child:
  * audit-hook file-system event log (`open` for writing, shutil.copyfile): one output path written twice
    in a run = a silently overwritten page / copied source;
  * icontract post-condition on NameSelector.get_name: (directory, stem.lower()) -> item is injective;
  * after the run: distinct page-owning entities have distinct URLs, the page at an entity's URL carries that
    entity's name and tracer word, entity anchors are unique per page, the source-file link of a page serves the defining file.
Workload: projects that reuse names across modules/files/directories, in different letter case, operator and
assignment interfaces, several unnamed programs / block data, equal base names in different source dirs.
"""
from __future__ import annotations

import json
import os
import random
import re
import shutil
import sys
import urllib.parse

from vf import core

ford = core.setup_env()
import icontract  # noqa: E402
from vf import site  # noqa: E402

PID = "C10"

ENTITY_DIRS = ("proc", "type", "module", "program", "interface", "blockdata", "namelist", "sourcefile", "src", "lists", "page")


def variants(rng, n):
    return rng.choice([n, n.upper(), n.capitalize(), n[0].upper() + n[1:]])


def build(seed):
    """Returns files {relpath: text}, scenario tags."""
    rng = random.Random(seed)
    sx = seed % 997
    tags = set()
    files = {}
    tr = [0]

    def doc():
        tr[0] += 1
        return f"!! zq{sx}d{tr[0]}"

    shared = ["dup", "calc", "point"]
    nmods = rng.randint(2, 4)
    dirs = ["", "a", "b"]
    modnames = []
    for mi in range(nmods):
        mod = f"cm{sx}_{mi}"
        modnames.append(mod)
        L = [doc(), "", f"module {mod}", doc(), "implicit none"]  # (the first comment documents the file itself)
        contains = []
        # same procedure name in several modules, possibly differing only in letter case
        if rng.random() < 0.8:
            n = rng.choice(shared)
            nm = variants(rng, n)
            tags.add("same_proc_name_in_modules" + ("_case" if nm != n else ""))
            contains += [f"subroutine {nm}(x)", doc(), "integer, intent(in) :: x", f"end subroutine {nm}"]
        # same type name in several modules
        if rng.random() < 0.7:
            n = rng.choice(shared)
            nm = variants(rng, n) + "_t"
            tags.add("same_type_name_in_modules")
            L += [f"type :: {nm}", doc(), "integer :: fld", doc(), "contains", f"procedure, nopass :: act => impl{mi}", doc(), f"end type {nm}"]
            contains += [f"subroutine impl{mi}()", doc(), f"end subroutine impl{mi}"]
        # operator / assignment interfaces
        if rng.random() < 0.6:
            op = rng.choice(["operator(+)", "operator(<)", "operator(/)", "operator(*)", "operator(.x.)", "operator(==)", "operator(<=)", "assignment(=)"])
            tags.add("operator_interface")
            fn = f"opf{mi}"
            L += [f"type :: optype{mi}", "integer :: v", f"end type optype{mi}"]
            if op.startswith("assignment"):
                L += [f"interface {op}", doc(), f"module procedure {fn}", "end interface"]
                contains += [f"subroutine {fn}(a, b)", doc(), f"type(optype{mi}), intent(out) :: a", "integer, intent(in) :: b", "a%v = b", f"end subroutine {fn}"]
            else:
                L += [f"interface {op}", doc(), f"module procedure {fn}", "end interface"]
                contains += [f"function {fn}(a, b) result(r)", doc(), f"type(optype{mi}), intent(in) :: a, b", "logical :: r", "r = a%v > b%v", f"end function {fn}"]
        # generic interface with the name of a procedure of another module
        if rng.random() < 0.4:
            n = rng.choice(shared)
            tags.add("generic_named_like_procedure_elsewhere")
            gs = f"gspec{mi}"
            L += [f"interface {variants(rng, n)}", doc(), f"module procedure {gs}", "end interface"] if not any(l.startswith(f"subroutine {n}") or l.lower().startswith(f"subroutine {n}(") for l in contains) else []
            contains += [f"subroutine {gs}(r)", doc(), "real, intent(in) :: r", f"end subroutine {gs}"]
        if rng.random() < 0.4:
            tags.add("generic_with_explicit_bodies")
            L += [f"interface gext{mi}", doc(), f"subroutine exta{mi}(x)", doc(), "integer :: x", "end subroutine", f"subroutine extb{mi}(r)", doc(), "real :: r", "end subroutine", "end interface"]
        # abstract interface with shared name
        if rng.random() < 0.3:
            tags.add("same_absint_name")
            L += ["abstract interface", f"subroutine {variants(rng, 'callback')}(x)", doc(), "real :: x", "end subroutine", "end interface"]
        # several enums, variables with equal names in different procedures, namelists with equal names
        if rng.random() < 0.4:
            tags.add("several_enums")
            L += ["enum, bind(c)", doc(), f"enumerator :: ea{mi} = 1", "end enum", "enum, bind(c)", doc(), f"enumerator :: eb{mi} = 2", "end enum"]
        L += [f"integer :: counter", doc()]
        mod_nl = rng.random() < 0.5
        if mod_nl:
            # a namelist group in the module's own specification part, named like those of the procedures (and of the other modules)
            tags.add("same_namelist_name_in_modules")
            L += ["namelist /settings/ counter", doc()]
        for pi in range(rng.randint(0, 2)):
            pn = f"user{mi}_{pi}"
            contains += [f"subroutine {pn}()", doc(), "integer :: counter", doc(), "integer :: nlv", "namelist /settings/ nlv", doc(), "common /blk/ counter", f"end subroutine {pn}"]
            tags.add("same_namelist_name_in_procedures")
        if mi > 0 and rng.random() < 0.4:
            # a module procedure named like another module of the project (a local name may repeat a global one), with its own /settings/ group
            tags.add("procedure_named_like_module_both_with_namelist")
            pn = variants(rng, modnames[0])
            contains += [f"subroutine {pn}()", doc(), "integer :: pnl", "namelist /settings/ pnl", doc(), f"end subroutine {pn}"]
        if contains:
            L += ["contains"] + contains
        L.append(f"end module {mod}")
        d = rng.choice(dirs)
        base = rng.choice(["util", "util", "Util", f"file{mi}"])
        rel = os.path.join(d, base + ".f90")
        k = 0
        while rel in files:
            k += 1
            d = dirs[(dirs.index(d) + 1) % len(dirs)]
            rel = os.path.join(d, base + (".f90" if k < 3 else f"{k}.f90"))
        if any(os.path.basename(r) == os.path.basename(rel) for r in files):
            tags.add("equal_file_basenames")
        elif any(os.path.basename(r).lower() == os.path.basename(rel).lower() for r in files):
            tags.add("file_basenames_differ_only_in_case")
        files[rel] = "\n".join(L) + "\n"
    # entities whose own names look like the numbered duplicates of others (dup_2, dup2, dup-2 is no identifier)
    if rng.random() < 0.5:
        tags.add("name_like_numbered_duplicate")
        L = [f"module numbered{sx}", doc(), "implicit none", "contains"]
        for n in rng.sample([f"{b}{sep}{k}" for b in shared for sep in ("_", "") for k in (2, 3)], 4):
            L += [f"subroutine {n}(x)", doc(), "integer, intent(in) :: x", f"end subroutine {n}"]
        L.append(f"end module numbered{sx}")
        files[f"numbered{sx}.f90"] = "\n".join(L) + "\n"
    # a generic interface extended, under the same name, in a module that uses the first one
    if rng.random() < 0.5:
        tags.add("generic_extended_in_using_module")
        ga, gb = f"ga{sx}", f"gb{sx}"
        files[f"gen_a{sx}.f90"] = "\n".join([f"module {ga}", doc(), "implicit none", "interface norm", doc(), "module procedure norm_a", "end interface", "contains",
                                             "function norm_a(x) result(r)", doc(), "integer, intent(in) :: x", "integer :: r", "r = x", "end function norm_a", f"end module {ga}"]) + "\n"
        files[f"gen_b{sx}.f90"] = "\n".join([f"module {gb}", doc(), f"use {ga}", "implicit none", "interface norm", doc(), "module procedure norm_b", "end interface", "contains",
                                             "function norm_b(x) result(r)", doc(), "real, intent(in) :: x", "real :: r", "r = x", "end function norm_b", f"end module {gb}"]) + "\n"
    # submodule named like a module
    if rng.random() < 0.4:
        tags.add("submodule_named_like_module")
        anc = f"anc{sx}"
        files[f"anc{sx}.f90"] = f"module {anc}\n{doc()}\ninterface\nmodule subroutine work()\nend subroutine\nend interface\nend module {anc}\n"
        files[f"sub{sx}.f90"] = f"submodule ({anc}) {modnames[0]}\n{doc()}\ninteger :: snl\nnamelist /settings/ snl\n{doc()}\ncontains\nmodule procedure work\nend procedure\nend submodule {modnames[0]}\n"
    # separate module procedures named like ordinary procedures elsewhere: interface bodies in a module, implementations in a submodule
    if rng.random() < 0.5:
        tags.add("separate_module_procedure_named_like_procedure_elsewhere")
        anc, sm = f"smpanc{sx}", f"smpimp{sx}"
        n1, n2 = rng.sample(shared, 2)
        files[f"smp_a{sx}.f90"] = "\n".join([f"module {anc}", doc(), "implicit none", "interface", f"module subroutine {variants(rng, n1)}(x)", doc(), "integer, intent(in) :: x", "end subroutine",
                                              f"module function {n2}(x) result(r)", doc(), "integer, intent(in) :: x", "integer :: r", "end function", "end interface", f"end module {anc}"]) + "\n"
        files[f"smp_b{sx}.f90"] = "\n".join([f"submodule ({anc}) {sm}", doc(), "implicit none", "contains", f"module subroutine {n1}(x)", doc(), "integer, intent(in) :: x", f"end subroutine {n1}",
                                              f"module procedure {n2}", doc(), "r = x", f"end procedure {n2}", f"end submodule {sm}"]) + "\n"
    # several unnamed / equally named programs and block data
    nprog = rng.choice([0, 1, 2, 3])
    for pi in range(nprog):
        unnamed = rng.random() < 0.6
        tags.add("unnamed_program" if unnamed else "named_program")
        head = "program" if unnamed else f"program main{sx}"
        files[f"prog{pi}.f90"] = f"{head}\n{doc()}\nimplicit none\ninteger :: counter\n{doc()}\nend program\n"
    nbd = rng.choice([0, 0, 1, 2, 3])
    for bi in range(nbd):
        unnamed = rng.random() < 0.6
        tags.add("unnamed_blockdata" if unnamed else "named_blockdata")
        head = "block data" if unnamed else f"block data bd{sx}_{bi}"
        files[f"bd{bi}.f90"] = f"{head}\n{doc()}\ninteger :: q{bi}\ncommon /blk{bi}/ q{bi}\nend block data\n"
    # external procedures with the names of module procedures
    if rng.random() < 0.5:
        n = variants(rng, rng.choice(shared))
        tags.add("external_named_like_module_procedure")
        files["ext.f90"] = f"subroutine {n}(x)\n{doc()}\ninteger :: x\nend subroutine {n}\n"
    return files, sorted(tags)


MON = {"get_name_evals": 0, "collisions": [], "map": {}}


class ContractBroken(Exception):
    pass


def _post_get_name(self, item, result):
    MON["get_name_evals"] += 1
    key = (id(self), item.get_dir(), result.lower())  # (per selector object: the repository's tests start every test with a fresh one)
    MON.setdefault("selectors", {})[id(self)] = self  # keep it alive: ids are not reused
    prev = MON["map"].get(key)
    if prev is None:
        MON["map"][key] = (id(item), item.name, type(item).__name__)
    elif prev[0] != id(item) and item.get_dir() is not None:
        if len(MON["collisions"]) < 50:
            MON["collisions"].append({"dir": key[1], "stem": key[2], "first": prev[1:], "second": (item.name, type(item).__name__)})
    return True


def run_case(item):
    import ford.sourceform as sf
    import ford.output as fo

    sf.NameSelector.get_name = icontract.ensure(_post_get_name, error=ContractBroken)(sf.NameSelector.get_name)
    # recorder on the `anchor` property: which item every anchor string written into a page stands for
    orig_anchor = sf.FortranBase.anchor.fget

    def rec_anchor(self):
        a = orig_anchor(self)
        MON.setdefault("anchors", {}).setdefault(a.lower(), set()).add(id(self))
        return a

    sf.FortranBase.anchor = property(rec_anchor)
    captured = {}
    orig_init = fo.Documentation.__init__

    def init(self, settings, proj_docs, project, pagetree):
        captured["project"] = project
        captured["docs"] = self
        return orig_init(self, settings, proj_docs, project, pagetree)

    fo.Documentation.__init__ = init
    out_dir = os.path.join(item["root"], "doc")
    writes = {}

    def hook(event, args):
        try:
            if event == "open":
                path, mode, flags = args[0], args[1], args[2]
                if not isinstance(path, (str, bytes, os.PathLike)):
                    return
                p = os.fspath(path)
                if isinstance(p, bytes):
                    p = p.decode()
                w = (mode is not None and any(c in str(mode) for c in "wax+")) or (mode is None and flags is not None and flags & (os.O_WRONLY | os.O_RDWR) and not flags & os.O_CREAT & 0)
                if mode is None:
                    return  # os.open from Path.touch(): not a content write
                if w and p.startswith(out_dir):
                    writes[p] = writes.get(p, 0) + 1
        except Exception:
            pass

    sys.addaudithook(hook)
    relmon = site.install_relurl_contract()
    r = site.run_in_process(item["root"])
    res = {"run": r, "relurl": {"evals": relmon["evals"], "entity_evals": relmon["entity_evals"], "viol": relmon["viol"], "errors": relmon.get("errors", [])[:3]}, "writes_twice": sorted(os.path.relpath(p, out_dir) for p, n in writes.items() if n > 1 and os.path.relpath(p, out_dir).split(os.sep)[0] in ENTITY_DIRS),
           "n_writes": len(writes), "mon": {"get_name_evals": MON["get_name_evals"], "collisions": MON["collisions"],
                                            "ambiguous_anchors": sorted(a for a, objs in MON.get("anchors", {}).items() if len(objs) > 1),
                                            "all_anchors": sorted(MON.get("anchors", {}))}}
    proj = captured.get("project")
    ents = []
    if proj is not None and r["outcome"] == "ok":
        lists = [("module", proj.modules), ("submodule", proj.submodules), ("proc", proj.procedures), ("type", proj.types), ("program", proj.programs),
                 ("blockdata", proj.blockdata), ("absint", proj.absinterfaces), ("namelist", proj.namelists), ("submodproc", proj.submodprocedures)]
        if proj.settings.incl_src:
            lists.append(("file", list(proj.allfiles)))
        seen = set()
        for kind, lst in lists:
            for e in lst:
                if id(e) in seen:
                    continue
                seen.add(id(e))
                words = re.findall(r"zq\d+d\d+", " ".join(getattr(e, "doc_list", []) or []))
                ents.append({"kind": kind, "name": e.name, "url": e.get_url(), "words": words, "path": getattr(e, "path", None) and str(e.path),
                             "defined_in": e.filename if hasattr(e, "hierarchy") else None,
                             "src_path": str(getattr(getattr(e, "source_file", None), "path", "") or (e.path if kind == "file" else "")) or None})
        res["n_pages_objs"] = len(captured["docs"].docs)
    res["entities"] = ents
    return res


def case(seed):
    files, tags = build(seed)
    base = core.mktemp("vf_c10_")
    try:
        src = os.path.join(base, "src")
        for rel, t in files.items():
            os.makedirs(os.path.dirname(os.path.join(src, rel)), exist_ok=True)
            open(os.path.join(src, rel), "w").write(t)
        rng = random.Random(seed + 1)
        opts = {"project": f"P{seed}", "src_dir": "./src", "output_dir": "./doc", "preprocess": False, "parallel": 0, "graph": False, "search": rng.random() < 0.3,
                "display": ["public", "private", "protected"], "proc_internals": rng.random() < 0.5, "incl_src": rng.random() < 0.8, "quiet": True}
        site.write_project_file(base, opts)
        st, r = core.run_alone(run_case, {"root": base}, timeout=300)
        viol = []
        if st != "ok" or r["run"]["outcome"] != "ok":
            d = r["run"] if st == "ok" else {"harness": st, "detail": str(r)[-600:]}
            return {"viol": [{"kf": {"kind": "ford_run_failed" if st == "ok" else "harness_" + st, "message": str(d.get("error") or d.get("code") or "")[:80]},
                              "w": {"seed": seed, "tags": tags, "detail": d, "files": files}}], "tags": tags, "nent": 0, "mon": {}, "nontrivial": False, "hash": core.h(files), "sample": None}
        out = os.path.join(base, "doc")
        s = site.parse_site(out)
        # 1 overwritten outputs
        for p in r["writes_twice"]:
            kf = {"kind": "output_written_twice", "dir": p.split(os.sep)[0]}
            if kf["dir"] == "src":
                kf["equal_basenames"] = sum(1 for rel in files if os.path.basename(rel) == os.path.basename(p)) > 1
            viol.append({"kf": kf, "w": {"seed": seed, "path": p, "tags": tags, "files": files}})
        # 1b every entity link the templates rendered leads to that entity's own URL (contract on the `relurl` filter)
        for v in r["relurl"]["viol"][:3]:
            viol.append({"kf": {"kind": "rendered_link_leads_to_other_entity", "dir": v["entity_url"].split("/")[0].lstrip("./")},
                         "w": {"seed": seed, "link": v, "tags": tags, "files": files}})
        # 2 name selector invariant
        for c in r["mon"]["collisions"]:
            a, b = c["first"][0], c["second"][0]
            viol.append({"kf": {"kind": "name_selector_collision", "dir": c["dir"], "names_differ_only_in_case": a != b and a.lower() == b.lower(), "same_name": a == b},
                         "w": {"seed": seed, "collision": c, "tags": tags, "files": files}})
        # 3 distinct entities -> distinct URLs; page documents the entity
        byurl = {}
        for e in r["entities"]:
            if e["url"] is None:
                continue
            u = e["url"].split("#")[0]
            byurl.setdefault(u.lower(), []).append(e)
        for u, es in byurl.items():
            if len(es) > 1:
                names = sorted({x["name"] for x in es})
                viol.append({"kf": {"kind": "entities_share_page", "dir": u.split("/")[0], "names_differ_only_in_case": len(names) > 1 and len({n.lower() for n in names}) == 1,
                                    "same_name": len(names) == 1, "kinds": sorted({x["kind"] for x in es})},
                             "w": {"seed": seed, "url": u, "entities": es, "tags": tags, "files": files}})
        for e in r["entities"]:
            if e["url"] is None or "#" in e["url"]:
                continue
            # (a URL is read by a browser / web server, which decode %-escapes: the file that must exist is the decoded path)
            page = s["pages"].get(urllib.parse.unquote(e["url"]))
            if page is None:
                viol.append({"kf": {"kind": "entity_page_missing", "entity": e["kind"]}, "w": {"seed": seed, "entity": e, "tags": tags, "files": files}})
                continue
            if len(byurl.get(e["url"].lower(), [])) > 1:
                continue  # already reported
            if e["words"] and not all(w in page["text"] for w in e["words"]):
                viol.append({"kf": {"kind": "page_documents_other_entity", "entity": e["kind"]}, "w": {"seed": seed, "entity": e, "title": page["title"], "tags": tags, "files": files}})
        # 4 anchors: an id that stands for two distinct items (recorder) and occurs on a page
        amb = set(r["mon"]["ambiguous_anchors"])
        for rel, info in s["pages"].items():
            hit = sorted({i for i in info["ids"] if i.lower() in amb})
            for d in hit[:3]:
                viol.append({"kf": {"kind": "distinct_items_share_anchor", "page_dir": rel.split("/")[0], "anchor_kind": d.split("-")[0]},
                             "w": {"seed": seed, "page": rel, "anchor": d, "tags": tags, "files": files}})
        # 4b ids that are not entity anchors (sidebar panels, tabs, ...): two elements of one page with different content never carry the same id
        entity_anchors = set(r["mon"].get("all_anchors", []))
        for rel, info in s["pages"].items():
            first, dups = {}, []
            for i, digest in info["id_attrs"]:
                if i.lower() in entity_anchors:
                    continue
                if i in first and first[i] != digest and i not in dups:
                    dups.append(i)
                first.setdefault(i, digest)
            for d in dups[:3]:
                viol.append({"kf": {"kind": "distinct_elements_share_id", "page_dir": rel.split("/")[0], "id_kind": re.sub(r"\d+", "N", d)},
                             "w": {"seed": seed, "page": rel, "id": d, "tags": tags, "files": files}})
        # 5 copied sources
        if opts["incl_src"]:
            # 5b the "Source File" link on an entity's page serves the file that defines the entity
            import posixpath

            for e in r["entities"]:
                if e["url"] is None or "#" in e["url"] or not e.get("src_path") or not os.path.isfile(e["src_path"]):
                    continue
                page = s["pages"].get(e["url"])
                if page is None:
                    continue
                for tag, attr, url in page["links"]:
                    tgt = posixpath.normpath(posixpath.join(posixpath.dirname(e["url"]), urllib.parse.unquote(url.split("#")[0])))
                    if not tgt.startswith("src/"):
                        continue
                    fp = os.path.join(out, tgt)
                    if not os.path.isfile(fp) or open(fp, "rb").read() != open(e["src_path"], "rb").read():
                        bn = os.path.basename(e["src_path"])
                        others = [os.path.basename(x) for x in files if os.path.join(src, x) != e["src_path"]]
                        viol.append({"kf": {"kind": "source_link_serves_other_file", "equal_basenames": bn in others,
                                            "names_differ_only_in_case": bn not in others and bn.lower() in [o.lower() for o in others]},
                                     "w": {"seed": seed, "entity": e, "link": url, "tags": tags}})
                        break
        return {"viol": viol, "tags": tags, "nent": len(r["entities"]), "mon": {"get_name_evals": r["mon"]["get_name_evals"], "n_writes": r["n_writes"], "relurl_entity_evals": r["relurl"]["entity_evals"], "relurl_errors": r["relurl"]["errors"]},
                "nontrivial": len(tags) >= 2, "hash": core.h(files), "sample": {"seed": seed, "scenario_tags": tags, "files": sorted(files), "entities": len(r["entities"])}}
    finally:
        shutil.rmtree(base, ignore_errors=True)


def main():
    run = core.Run(
        PID,
        rule="case = project of 2-4 modules spread over files/directories with deliberately related names: same procedure/type/abstract "
        "interface names in several modules (also differing only in letter case), generics named like procedures elsewhere, operator and "
        "assignment interfaces, equal namelist/common/variable names in several procedures, several enums, a submodule named like a module, "
        "0-3 (unnamed) programs and block data units, an external procedure named like a module procedure, equal file base names in "
        "different source directories; every entity carries a unique tracer word. Non-trivial: >=2 collision scenarios present; distinct "
        "by source hash.",
        assumptions=["URLs are compared case-insensitively (pages may be served from case-insensitive file systems)",
                     "only writes below the entity directories of the output are counted for the exactly-once check (css/js are touch()ed by design)"],
    )
    rp = core.replay_arg()
    if rp:
        w = json.load(open(rp))["witness"]
        r = case(w["seed"])
        known = core.load_known(PID)
        bad = [v for v in r["viol"] if core.match_known(known, v["kf"]) is None]
        print("replay:", "VIOLATION" if bad else "held")
        for v in bad[:10]:
            print(json.dumps({k: x for k, x in v["w"].items() if k != "files"}, default=str)[:500])
        sys.exit(1 if bad else 0)
    n = 1500 if run.tier == "thorough" else 150
    seeds = [run.seed * 100003 + i for i in range(n)]
    results = core.fork_map(case, seeds, per_case_fork=False, case_timeout=400, total_timeout=3400)
    for sd, (st, r) in zip(seeds, results):
        if st != "ok":
            run.inconc(f"{st}: {str(r)[-300:]}")
            continue
        run.case(key=r["hash"], nontrivial=r["nontrivial"], sample=r["sample"] if r["nontrivial"] else None)
        run.count("entities_with_pages_checked", r["nent"])
        run.count("contract_evals_get_name", r["mon"].get("get_name_evals", 0))
        run.count("fs_write_events_under_output", r["mon"].get("n_writes", 0))
        run.count("contract_evals_relurl_entity_links", r["mon"].get("relurl_entity_evals", 0))
        if r["mon"].get("relurl_errors"):
            run.inconc("relurl monitor error: " + str(r["mon"]["relurl_errors"][:1]))
        for t in r["tags"]:
            run.seen("collision_scenarios", t)
        for v in r["viol"]:
            run.violation(v["kf"], v["w"])
    run.max_samples = 2
    if run.tier == "thorough":
        # one more workload for the contracts: the repository's own test-suite (hand-written inputs)
        from vf import repo_tests

        repo_tests.attach(run, PID)
    run.finish(floors={"evaluations": 120, "distinct_nontrivial": 100, "entities_with_pages_checked": 1500, "contract_evals_get_name": 5000,
                       "fs_write_events_under_output": 3000, "collision_scenarios": 12, "contract_evals_relurl_entity_links": 5000})


if __name__ == "__main__":
    main()
