"""C04 - accessibility of every entity follows Fortran's PUBLIC/PRIVATE rules (exhaustive core).

Runtime monitor: the complete legal product of {scope default} x {early|late} x {declaration
attribute} x {access statement} x {before|after} x {entity kind} is rendered into modules (each cell
a distinct entity, several spellings and statement orders, next to randomly generated files), parsed
and correlated by the real FORD; `entity.permission` is compared with an independent implementation
of the standard's rule.
"""
from __future__ import annotations

import itertools
import json
import os
import random
import shutil
import sys

from vf import core

ford = core.setup_env()
from vf import fgen, genmodels, layout, observe  # noqa: E402

PID = "C04"

DEFAULTS = [("none", "early"), ("public", "early"), ("public", "late"), ("private", "early"), ("private", "late")]
MODULE_KINDS = ["variable", "parameter", "type", "subroutine", "function", "generic", "abstract", "operator", "typector", "generic2", "genspec"]


def module_cells():
    cells = []
    for kind in MODULE_KINDS:
        attrs = {"variable": ["none", "public", "private", "protected"], "parameter": ["none", "public", "private"],
                 "type": ["none", "public", "private"], "typector": ["none", "public", "private"]}.get(kind, ["none"])
        for attr in attrs:
            stmts = ["none"] if attr in ("public", "private") else ["none", "public", "private"]
            for stmt in stmts:
                places = ["-"] if stmt == "none" else (["before"] if kind in ("subroutine", "function") else ["before", "after"])
                for place in places:
                    cells.append({"kind": kind, "attr": attr, "stmt": stmt, "place": place})
    return cells


def member_cells():
    cells = []
    for kind in ("component", "binding"):
        for tdef in ("none", "private"):
            for attr in ("none", "public", "private"):
                for taccess in ("none", "private"):
                    cells.append({"kind": kind, "attr": attr, "stmt": "none", "place": "-", "type_default": tdef, "type_access": taccess})
                    if kind == "binding":
                        cells.append({"kind": kind, "attr": attr, "stmt": "none", "place": "-", "type_default": tdef, "type_access": taccess, "multi": True})
    # a generic binding: the accessibility of the generic name itself (its specific binding is another entity)
    for tdef in ("none", "private"):
        for attr in ("none", "public", "private"):
            cells.append({"kind": "binding", "attr": attr, "stmt": "none", "place": "-", "type_default": tdef, "type_access": "none", "generic": True})
    # an extending type that overrides a binding of its parent: the parent's binding plays no part in the accessibility of the new one
    for pacc in ("none", "private"):
        for tdef in ("none", "private"):
            for attr in ("none", "public", "private"):
                cells.append({"kind": "binding", "attr": attr, "stmt": "none", "place": "-", "type_default": tdef, "type_access": "none", "overrides": pacc})
    return cells


def expected_access(cell, default):
    """Reference rule (Fortran 2008 5.3.2, 4.5.4.7, 4.5.5)."""
    if cell["kind"] in ("component", "binding"):
        base = "private" if cell["type_default"] == "private" else "public"
        return cell["attr"] if cell["attr"] in ("public", "private") else base
    dflt = "private" if default == "private" else "public"
    if cell["attr"] in ("public", "private"):
        acc = cell["attr"]
    elif cell["stmt"] != "none":
        acc = cell["stmt"]
    else:
        acc = dflt
    if cell["attr"] == "protected" and acc == "public":
        return "protected"
    return acc


def render_module(mname, cells, default, placement, st: fgen.Style, rng: random.Random, submodule_of=None):
    """Returns (text, {entity name: cell})"""
    kw = st.kw
    names = {}
    decl_blocks = []
    before, after = [], []
    contains = []
    n = 0
    dc = lambda: " :: " if st.dcolon() else " "  # noqa: E731
    shared_abstract = rng.random() < 0.6
    abs_bodies = []
    intrinsic_specs = [("assignment", "="), ("operator", "=="), ("operator", "/="), ("operator", "<="), ("operator", ">=")] if rng.random() < 0.5 else []
    need_blkimpl = False
    generic_names = [f"{mname}_gen{i + 1}" for i, c_ in enumerate(cells) if c_["kind"] == "generic"]
    for cell in cells:
        n += 1
        k = cell["kind"]
        nm = f"{mname}_{k[:3]}{n}"
        if rng.random() < 0.3:
            nm = nm.upper() if rng.random() < 0.5 else nm.capitalize()
        attr = cell["attr"]
        a = (", " + kw(attr)) if attr != "none" else ""
        ent_name = nm
        if k == "variable":
            decl_blocks.append([f"{kw('integer')}{a} :: {nm}" if a or st.dcolon() else f"{kw('integer')} {nm}"])
        elif k == "parameter":
            decl_blocks.append([f"{kw('real')}, {kw('parameter')}{a} :: {nm} = 1.0"])
        elif k == "type":
            if rng.random() < 0.3:
                # extends a parent whose NAME holds an access keyword (only the access-spec of the statement counts)
                par = f"{mname}_{rng.choice(['public', 'private'])}_key{n}"
                decl_blocks.append([f"{kw('type')} :: {par}", f"{kw('integer')} :: pc{n}", f"{kw('end')} {kw('type')} {par}",
                                    f"{kw('type')}, {kw('extends')}({st.nm(par)}){a} :: {nm}", f"{kw('integer')} :: c{n}", f"{kw('end')} {kw('type')} {st.nm(nm)}"])
            else:
                decl_blocks.append([f"{kw('type')}{a} :: {nm}" if a or st.dcolon() else f"{kw('type')} {nm}", f"{kw('integer')} :: c{n}", f"{kw('end')} {kw('type')} {st.nm(nm)}"])
        elif k == "typector":
            # a derived type and a generic interface of the same name (user-defined constructor)
            cf = f"{mname}_cf{n}"
            tdef = [f"{kw('type')}{a} :: {nm}", f"{kw('integer')} :: c{n}", f"{kw('end')} {kw('type')} {st.nm(nm)}"]
            idef = [f"{kw('interface')} {st.nm(nm)}", f"{kw('module')} {kw('procedure')} {cf}", f"{kw('end')} {kw('interface')}"]
            decl_blocks.append(tdef + idef if rng.random() < 0.6 else idef + tdef)  # the constructor interface may stand before the type definition
            contains += [f"{kw('function')} {cf}(i) {kw('result')}(r)", f"{kw('integer')}, {kw('intent')}(in) :: i", f"{kw('type')}({nm}) :: r", f"r%c{n} = i", st.kw("end") + " " + kw("function")]
            names[nm.lower() + "@interface"] = cell
        elif k in ("subroutine", "function"):
            # sometimes the body holds a BLOCK construct with a derived type of its own, whose PRIVATE / CONTAINS statements are the type's; or a local
            # type named like a generic interface of the module (it hides that interface, and has nothing to do with its accessibility)
            extra = []
            r_ = rng.random()
            if r_ < 0.25:
                extra = [kw("block"), f"{kw('type')} :: blk_t{n}", kw(rng.choice(["private", "private", "public"])), f"{kw('integer')} :: bc{n}", kw("contains"),
                         f"{kw('procedure')}, {kw('nopass')} :: bb{n} => {mname}_blkimpl", f"{kw('end')} {kw('type')} blk_t{n}", f"{kw('end')} {kw('block')}"]
                need_blkimpl = True
            elif r_ < 0.45 and generic_names:
                extra = [f"{kw('type')} :: {st.nm(rng.choice(generic_names))}", f"{kw('integer')} :: lc{n}", f"{kw('end')} {kw('type')}"]
            if k == "subroutine":
                contains += [f"{kw('subroutine')} {nm}()"] + extra + [st.kw("end") + " " + kw("subroutine")]
            else:
                contains += [f"{kw('integer')} {kw('function')} {nm}()"] + extra + [f"{nm} = 1", st.kw("end") + " " + kw("function")]
        elif k == "generic":
            s1 = f"{mname}_gs{n}"
            decl_blocks.append([f"{kw('interface')} {nm}", f"{kw('module')} {kw('procedure')} {s1}", f"{kw('end')} {kw('interface')}"])
            contains += [f"{kw('subroutine')} {s1}(x)", f"{kw('integer')} :: x", st.kw("end") + " " + kw("subroutine")]
        elif k == "generic2":
            # one generic name given in two interface blocks: an access statement names both
            s1, s2 = f"{mname}_ga{n}", f"{mname}_gb{n}"
            decl_blocks.append([f"{kw('interface')} {nm}", f"{kw('module')} {kw('procedure')} {s1}", f"{kw('end')} {kw('interface')}",
                                f"{kw('interface')} {st.nm(nm)}", f"{kw('module')} {kw('procedure')} {s2}", f"{kw('end')} {kw('interface')}"])
            contains += [f"{kw('subroutine')} {s1}(x)", f"{kw('integer')} :: x", st.kw("end") + " " + kw("subroutine"),
                         f"{kw('subroutine')} {s2}(x)", f"{kw('real')} :: x", st.kw("end") + " " + kw("subroutine")]
            names[nm.lower() + "@interface"] = cell
        elif k == "genspec":
            # a generic named like one of its specific procedures
            s2 = f"{mname}_gc{n}"
            decl_blocks.append([f"{kw('interface')} {nm}", f"{kw('module')} {kw('procedure')} {st.nm(nm)}, {s2}", f"{kw('end')} {kw('interface')}"])
            contains += [f"{kw('subroutine')} {nm}(x)", f"{kw('integer')} :: x", st.kw("end") + " " + kw("subroutine"),
                         f"{kw('subroutine')} {s2}(x)", f"{kw('real')} :: x", st.kw("end") + " " + kw("subroutine")]
            names[nm.lower() + "@interface"] = cell
        elif k == "abstract":
            body = [f"{kw('subroutine')} {nm}(x)", f"{kw('real')} :: x", f"{kw('end')} {kw('subroutine')}"]
            if shared_abstract:
                abs_bodies.append(body)  # several bodies in ONE block: an access statement names the body, not the block
            else:
                decl_blocks.append([f"{kw('abstract')} {kw('interface')}"] + body + [f"{kw('end')} {kw('interface')}"])
        elif k == "operator":
            f1 = f"{mname}_of{n}"
            if intrinsic_specs:
                # defined assignment / an intrinsic operator for a derived type (the spec itself holds `=`, `<`, `/`)
                gkw, op = intrinsic_specs.pop(0)
                opt = f"{mname}_opt"
                if not any(b and b[0].endswith(f":: {opt}") for b in decl_blocks):
                    decl_blocks.append([f"{kw('type')} :: {opt}", f"{kw('integer')} :: oc", f"{kw('end')} {kw('type')} {opt}"])
                if gkw == "assignment":
                    contains += [f"{kw('subroutine')} {f1}(a, b)", f"{kw('type')}({opt}), {kw('intent')}(out) :: a", f"{kw('integer')}, {kw('intent')}(in) :: b", "a%oc = b", st.kw("end") + " " + kw("subroutine")]
                else:
                    contains += [f"{kw('logical')} {kw('function')} {f1}(a, b)", f"{kw('type')}({opt}), {kw('intent')}(in) :: a, b", f"{f1} = a%oc > b%oc", st.kw("end") + " " + kw("function")]
            else:
                gkw, op = "operator", f".op{n}."
                contains += [f"{kw('integer')} {kw('function')} {f1}(a, b)", f"{kw('integer')}, {kw('intent')}(in) :: a, b", f"{f1} = a + b", st.kw("end") + " " + kw("function")]
            ent_name = f"{gkw}({op})"
            # blanks inside a generic-spec are not significant; interface and access statement are spelt independently
            spell = lambda: kw(gkw) + ("" if st.canonical else rng.choice(["", "", " "])) + "(" + ("" if st.canonical else rng.choice(["", "", " "])) + op + ("" if st.canonical else rng.choice(["", "", " "])) + ")"  # noqa: E731
            op_stmt_spelling = spell()
            decl_blocks.append([f"{kw('interface')} {spell()}", f"{kw('module')} {kw('procedure')} {f1}", f"{kw('end')} {kw('interface')}"])
        elif k in ("component", "binding"):
            tn = f"{mname}_t{n}"
            ta = (", " + kw(cell["type_access"])) if cell["type_access"] != "none" else ""
            lines = [f"{kw('type')}{ta} :: {tn}"]
            impl = f"{mname}_bi{n}"
            if k == "component":
                if cell["type_default"] == "private":
                    lines.append(kw("private"))
                lines.append(f"{kw('integer')} :: other{n}")
                lines.append(f"{kw('real')}{a} :: {nm}" if a or st.dcolon() else f"{kw('real')} {nm}")
            elif cell.get("overrides"):
                par = f"{mname}_tp{n}"
                pa = (", " + kw("private")) if cell["overrides"] == "private" else ""
                pimpl = f"{mname}_bp{n}"
                lines = [f"{kw('type')} :: {par}", f"{kw('integer')} :: other{n}", kw("contains"), f"{kw('procedure')}{pa} :: {nm} => {st.nm(pimpl)}", f"{kw('end')} {kw('type')}",
                         f"{kw('type')}, {kw('extends')}({par}) :: {tn}", f"{kw('integer')} :: more{n}", kw("contains")]
                if cell["type_default"] == "private":
                    lines.append(kw("private"))
                lines.append(f"{kw('procedure')}{a} :: {nm} => {st.nm(impl)}")
                contains += [f"{kw('subroutine')} {pimpl}(self)", f"{kw('class')}({par}) :: self", st.kw("end") + " " + kw("subroutine"),
                             f"{kw('subroutine')} {impl}(self)", f"{kw('class')}({tn}) :: self", st.kw("end") + " " + kw("subroutine")]
            else:
                lines.append(f"{kw('integer')} :: other{n}")
                lines.append(kw("contains"))
                if cell["type_default"] == "private":
                    lines.append(kw("private"))
                if cell.get("generic"):
                    lines.append(f"{kw('procedure')} :: gs{n} => {st.nm(impl)}")
                    lines.append(f"{kw('generic')}{a} :: {nm} => gs{n}")
                elif cell.get("multi"):
                    impl2 = f"{mname}_bj{n}"
                    lines.append(f"{kw('procedure')}{a} :: {nm} => {st.nm(impl)}, zz{n} => {st.nm(impl2)}")
                    contains += [f"{kw('subroutine')} {impl2}(self)", f"{kw('class')}({tn}) :: self", st.kw("end") + " " + kw("subroutine")]
                else:
                    lines.append(f"{kw('procedure')}{a} :: {nm} => {st.nm(impl)}")
                contains += [f"{kw('subroutine')} {impl}(self)", f"{kw('class')}({tn}) :: self", st.kw("end") + " " + kw("subroutine")]
            lines.append(f"{kw('end')} {kw('type')}")
            decl_blocks.append(lines)
            ent_name = f"{tn}%{nm}"
        names[ent_name.lower()] = cell
        if cell["stmt"] != "none":
            s = f"{kw(cell['stmt'])}{dc()}{st.nm(ent_name) if not ent_name.startswith(('operator', 'assignment')) else op_stmt_spelling}"
            (before if cell["place"] == "before" else after).append(s)
    if need_blkimpl:
        contains += [f"{kw('subroutine')} {mname}_blkimpl()", st.kw("end") + " " + kw("subroutine")]
    if abs_bodies:
        decl_blocks.append([f"{kw('abstract')} {kw('interface')}"] + [l for b in abs_bodies for l in b] + [f"{kw('end')} {kw('interface')}"])
    rng.shuffle(decl_blocks)
    rng.shuffle(before)
    rng.shuffle(after)
    out = []
    if submodule_of:
        out.append(f"{kw('submodule')} ({submodule_of}) {mname}")
    else:
        out.append(f"{kw('module')} {mname}")
    out.append(f"{kw('implicit')} {kw('none')}")
    if default != "none" and placement == "early":
        out.append(kw(default))
    out += before
    for b in decl_blocks:
        out += b
    out += after
    if default != "none" and placement == "late":
        out.append(kw(default))
    if contains:
        out.append(kw("contains"))
        out += contains
    out.append(f"{kw('end')} {kw('submodule' if submodule_of else 'module')} {mname}")
    return "\n".join(out) + "\n", names


def observe_case(item):
    cap = observe.Captured()
    project, cap = observe.parse_and_correlate([item["root"]], cap=cap)
    perms = {}
    diags = [w for w in cap.warnings if "Error parsing" in w] + [l for l in cap.stdout.splitlines() if l.startswith("ERROR in file")]
    for m in list(project.modules) + list(project.submodules):
        if not m.name.lower().startswith("cm"):
            continue
        ents = {}
        for v in m.variables:
            ents[v.name.lower()] = v.permission
            if v.permission == "protected" or "protected" in [a.lower() for a in (v.attribs or [])]:
                ents[v.name.lower() + "@protected"] = True
        for t in m.types:
            ents[t.name.lower()] = t.permission
            for c in getattr(t, "_vf_own_vars", t.variables):
                ents[f"{t.name.lower()}%{c.name.lower()}"] = c.permission
            for b in getattr(t, "_vf_own_bps", t.boundprocs):
                ents[f"{t.name.lower()}%{b.name.lower()}"] = b.permission
        for p in list(m.functions) + list(m.subroutines) + list(getattr(m, "modfunctions", [])) + list(getattr(m, "modsubroutines", [])) + list(getattr(m, "modprocedures", [])):
            ents[p.name.lower()] = p.permission
        for it in m.interfaces:
            iname = "".join(it.name.lower().split())
            ents[iname + ("@interface" if iname in ents else "")] = it.permission
        for it in m.absinterfaces:
            ents[it.name.lower()] = it.permission
        perms[m.name.lower()] = ents
    return {"perms": perms, "diags": diags[:5]}


def case(arg):
    seed, tier = arg
    rng = random.Random(seed)
    st = fgen.Style(seed) if seed % 4 else fgen.Style.plain()
    base = core.mktemp("vf_c04_")
    viol = []
    ncells = 0
    keys = set()
    try:
        root = os.path.join(base, "src")
        os.makedirs(root)
        expected = {}
        texts = {}
        mcells, memcells = module_cells(), member_cells()
        for di, (default, placement) in enumerate(DEFAULTS):
            mname = f"cm{di}x{seed % 1000}"
            text, names = render_module(mname, mcells + memcells, default, placement, st, rng)
            open(os.path.join(root, mname + ".f90"), "w").write(text)
            texts[mname] = text
            expected[mname] = {n: (c, default, placement) for n, c in names.items()}
        # a default-private submodule: entities without attribute stay private
        anc = f"cm0x{seed % 1000}"
        sm = f"cmsub{seed % 1000}"
        subcells = [{"kind": k, "attr": "none", "stmt": "none", "place": "-"} for k in ("variable", "type", "subroutine", "function")]
        text, names = render_module(sm, subcells, "none", "early", st, rng, submodule_of=anc)
        open(os.path.join(root, sm + ".f90"), "w").write(text)
        texts[sm] = text
        expected[sm] = {n: (c, "private", "submodule") for n, c in names.items()}
        # separate module procedures: public interfaces in the ancestor, implementations (all three spellings) in a submodule stay private
        anc2, sm2 = f"cmanc{seed % 1000}", f"cmimp{seed % 1000}"
        kw = st.kw
        atext = "\n".join([f"{kw('module')} {anc2}", kw("implicit none"), kw("public"), kw("interface"),
                           f"{kw('module')} {kw('subroutine')} smp_a(x)", f"{kw('integer')}, {kw('intent')}(in) :: x", f"{kw('end')} {kw('subroutine')}",
                           f"{kw('module')} {kw('function')} smp_f(x) {kw('result')}(r)", f"{kw('integer')}, {kw('intent')}(in) :: x", f"{kw('integer')} :: r", f"{kw('end')} {kw('function')}",
                           f"{kw('module')} {kw('subroutine')} smp_b()", f"{kw('end')} {kw('subroutine')}",
                           f"{kw('end')} {kw('interface')}", f"{kw('end')} {kw('module')} {anc2}"]) + "\n"
        itext = "\n".join([f"{kw('submodule')} ({anc2}) {sm2}", kw("implicit none"), kw("contains"),
                           f"{kw('module')} {kw('subroutine')} smp_a(x)", f"{kw('integer')}, {kw('intent')}(in) :: x", f"{kw('end')} {kw('subroutine')} smp_a",
                           f"{kw('module')} {kw('function')} smp_f(x) {kw('result')}(r)", f"{kw('integer')}, {kw('intent')}(in) :: x", f"{kw('integer')} :: r", "r = x", f"{kw('end')} {kw('function')} smp_f",
                           f"{kw('module')} {kw('procedure')} smp_b", f"{kw('end')} {kw('procedure')} smp_b",
                           f"{kw('end')} {kw('submodule')} {sm2}"]) + "\n"
        open(os.path.join(root, anc2 + ".f90"), "w").write(atext)
        open(os.path.join(root, sm2 + ".f90"), "w").write(itext)
        texts[sm2] = atext + itext
        expected[sm2] = {n: ({"kind": "separate_module_procedure", "attr": "none", "stmt": "none", "place": "-"}, "private", "submodule") for n in ("smp_a", "smp_f", "smp_b")}
        # random neighbours
        for f in genmodels.gen_project(seed + 17, nfiles=2, docs=False):
            stmts = fgen.render_file(f, fgen.Style(seed + 3))
            open(os.path.join(root, f.name + ".f90"), "w").write(layout.Layout(seed, plain=True).free(stmts))
        st_, r = core.run_alone(observe_case, {"root": root}, timeout=120)
    finally:
        shutil.rmtree(base, ignore_errors=True)
    if st_ != "ok":
        return {"viol": [{"kf": {"kind": "harness_" + st_}, "w": {"detail": str(r)[-800:], "seed": seed}}], "ncells": 0, "keys": [], "sample": None}
    if r["diags"]:
        viol.append({"kf": {"kind": "diagnostic_on_valid_input"}, "w": {"diags": r["diags"], "seed": seed}})
    for mname, ents in expected.items():
        got = r["perms"].get(mname)
        if got is None:
            viol.append({"kf": {"kind": "module_missing"}, "w": {"module": mname, "text": texts[mname], "seed": seed}})
            continue
        for ename, (cell, default, placement) in ents.items():
            ncells += 1
            exp = expected_access(cell, default)
            obs = got.get(ename)
            key = (cell["kind"] + ("@interface" if ename.endswith("@interface") else ""), cell["attr"], cell["stmt"], cell["place"], default, placement,
                   cell.get("type_default"), cell.get("type_access"), cell.get("multi", False), cell.get("overrides"), cell.get("generic", False))
            keys.add(key)
            if obs != exp:
                kf = {"kind": "wrong_access", "entity": cell["kind"] + ("@interface" if ename.endswith("@interface") else ""), "attr": cell["attr"], "stmt": cell["stmt"], "place": cell["place"],
                      "default": default, "default_placement": placement, "expected": exp, "observed": obs}
                if "type_default" in cell:
                    kf["type_default"] = cell["type_default"]
                    kf["type_access"] = cell["type_access"]
                if cell.get("overrides"):
                    kf["overrides_parent_binding"] = cell["overrides"]
                if cell.get("generic"):
                    kf["generic_binding"] = True
                viol.append({"kf": kf, "w": {"module": mname, "entity": ename, "cell": cell, "expected": exp, "observed": obs,
                                             "source": texts[mname], "seed": seed}})
            # `protected` is recorded for variables: where the accessibility comes from the declaration alone (no access statement
            # competes for FORD's single field) the attribute must be found on the variable, whatever the scope default
            if cell["kind"] == "variable" and cell["attr"] == "protected" and cell["stmt"] == "none" and obs is not None and not got.get(ename + "@protected"):
                viol.append({"kf": {"kind": "protected_not_recorded", "default": default, "default_placement": placement, "observed": obs},
                             "w": {"module": mname, "entity": ename, "cell": cell, "observed": obs, "source": texts[mname], "seed": seed}})
    return {"viol": viol, "ncells": ncells, "keys": sorted(keys, key=str),
            "sample": {"seed": seed, "module_source_head": texts[f"cm3x{seed % 1000}"][:1200]}}


def main():
    run = core.Run(
        PID,
        rule="cell = (entity kind, declaration attribute, access statement, statement before/after the declaration, scope default, "
        "default statement early/late[, type default, type access]) - the complete legal product (see module_cells/member_cells), "
        "each cell a distinct entity in a generated module; every run renders all cells with a seeded spelling and statement order "
        "beside randomly generated files. Every cell is non-trivial (has a non-default ingredient or is the control cell); distinct "
        "by cell tuple.",
        assumptions=[
            "expected accessibility: attribute on the declaration, else access statement, else scope default; `protected` reported "
            "for a protected variable that is publicly accessible",
            "accessibility inside procedures and `protected` on non-variables are not generated",
        ],
    )
    rp = core.replay_arg()
    if rp:
        w = json.load(open(rp))["witness"]
        r = case((w["seed"], run.tier))
        bad = [v for v in r["viol"]]
        print("replay:", "VIOLATION" if bad else "held", len(bad))
        sys.exit(1 if bad else 0)
    n = 60 if run.tier == "thorough" else 8
    args = [(run.seed * 1000 + i, run.tier) for i in range(n)]
    results = core.fork_map(case, args, per_case_fork=False, case_timeout=300)
    allkeys = set()
    for a, (st, r) in zip(args, results):
        if st != "ok":
            run.inconc(f"{st}: {str(r)[-300:]}")
            continue
        run.evaluations += r["ncells"]
        run.count("ford_runs")
        for k in r["keys"]:
            allkeys.add(tuple(k))
        for v in r["viol"]:
            run.violation(v["kf"], v["w"])
        if r["sample"] and len(run.samples) < 1:
            run.samples.append(r["sample"])
    run.nontrivial = {str(k) for k in allkeys}
    total_cells = (len(module_cells()) + len([c for c in module_cells() if c["kind"] in ("typector", "generic2", "genspec")]) + len(member_cells())) * len(DEFAULTS) + 4
    run.extra["exhaustive"] = len(allkeys) >= total_cells
    run.extra["cells_in_product"] = total_cells
    run.extra["cells_covered"] = len(allkeys)
    run.finish(floors={"evaluations": 1500, "distinct_nontrivial": total_cells})


if __name__ == "__main__":
    main()
