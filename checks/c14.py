"""C14 - fixed-form sources document the same as their free-form equivalent.

Runtime monitor (metamorphic): every generated program is written twice from the *same* logical
statements - a plain free-form .f90 and a fixed-form .f with random continuation breaks, continuation
characters, labels, comment-line styles, blank/short lines and sequence-field text - parsed and
correlated by the real FORD in forked children, and the canonical entity tables (entities,
references, calls, documentation words) are compared.  Both settings of fixed_length_limit are run.
"""
from __future__ import annotations

import json
import os
import random
import re
import shutil
import sys

from vf import core

ford = core.setup_env()
from vf import fgen, genmodels, layout, lexer, observe  # noqa: E402

PID = "C14"


def observe_case(item):
    cap = observe.Captured()
    try:
        project, cap = observe.parse_and_correlate([item["root"]], settings_kw=item.get("settings"), cap=cap)
        table = observe.tree(project, strip_ext=True)
        err = None
    except BaseException as e:
        import traceback

        table, err = None, f"{type(e).__name__}: {e}\n" + traceback.format_exc()[-1200:]
    diags = [w for w in cap.warnings if "Error parsing" in w] + [l for l in cap.stdout.splitlines() if l.startswith("ERROR in file")]
    return {"table": table, "error": err, "diags": diags[:8]}


def observe_history(item):
    """One process, several FORD runs one after the other on the *same paths*: the directory is emptied and re-written
    between the runs (a later run must not see anything an earlier one read)."""
    out = []
    for step in item["steps"]:
        shutil.rmtree(item["root"], ignore_errors=True)
        os.makedirs(item["root"])
        settings = dict(step["settings"])
        incdir = item["root"] + "_inc"
        shutil.rmtree(incdir, ignore_errors=True)
        for name, text in step["files"].items():
            if name.startswith("@inc/"):
                import pathlib

                os.makedirs(incdir, exist_ok=True)
                open(os.path.join(incdir, name[5:]), "w").write(text)
                settings["include"] = [pathlib.Path(incdir)]
            else:
                open(os.path.join(item["root"], name), "w").write(text)
        out.append(observe_case({"root": item["root"], "settings": settings}))
    return out


def input_features(fixed_text):
    """Mechanism fields derived from the *input* (used to key known findings)."""
    feats = set()
    lines = fixed_text.split("\n")
    for i, l in enumerate(lines):
        if len(l) > 72:
            feats.add("text_beyond_col72")
            if l[72:].lstrip().startswith("!"):
                feats.add("seqfield_starts_with_bang")
        if l.strip() == "" and len(l) > 6 and i + 1 < len(lines):
            # blank line of >6 columns followed (maybe after more comment lines) by a continuation line
            for k in range(i + 1, min(i + 6, len(lines))):
                nl = lines[k]
                if len(nl) > 5 and nl[0] not in "Cc*!" and nl[:5].strip() == "" and nl[5] not in " 0":
                    feats.add("long_blank_line_before_continuation")
                    break
                if nl and nl[0] not in "Cc*!" and nl.strip():
                    break
        if len(l) > 5 and l[0] not in "Cc*!#" and "!" not in l[1:5] and l[5] == "!":
            feats.add("bang_continuation_char")
        if l and l[0] not in "Cc*!" and ("'" in l and '"' in l) and lexer.comment_start(l[:72]) >= 0:
            feats.add("both_quote_characters_before_trailing_comment")
    return feats


FIXED_EXT = ["f", "f", "for", "F", "FOR"]
FREE_EXT = ["f90", "f90", "f95", "f03", "f08", "F90"]


QLITS = ['"don\'t"', "'say \"hi'", '"it\'s ! no comment"', "'a \" ; b'", '"x\'\'y\'"', "'plain'", '"pl ain"', "'it''s'", '"q""q\'"']


def quote_module(seed, cpp=False):
    """Statement list of a module whose declarations and output statements carry literals with the other quote character, `!`
    and `;` inside (what a trailing-comment / sequence-field scanner has to step over)"""
    rng = random.Random(seed * 31 + 7)
    S = fgen.Stmt
    long_doc = " ".join(f"qlong{seed % 1000}w{k}" for k in range(rng.randint(8, 14)))  # runs beyond column 72
    st = [S(f"module qm{seed % 1000}", [f"qdm{seed % 1000} module doc", long_doc], kind="open"), S("implicit none")]
    for i in range(rng.randint(2, 5)):
        lits = rng.sample(QLITS, rng.randint(1, 3))
        st.append(S(f"character(len=40) :: qv{i} = " + " // ".join(lits), [f"qd{i}a doc of qv{i}"] if rng.random() < 0.7 else []))
    # a literal long enough to run through column 72 in fixed form (it goes on in column 7 of the continuation line), with `!`, `;`, `&` and the other quote in every part
    # (no blanks and no doubled delimiter in it: every column is a place where the line can end without a trailing blank)
    words = ["it's", "no.!.comment", "a.;.b", "R&D", "!!.nor.doc", "say.'hi", "plain.words", "!>.x", "c&", "x!y", "&", "!"]
    st.append(S("character(len=200) :: qlong = \"" + "_".join(rng.choice(words) for _ in range(rng.randint(9, 14))) + "\"", [f"qdl doc of qlong"] if rng.random() < 0.5 else []))
    if cpp:
        st.append(S(f"vfcppmark{seed % 1000}=0"))  # replaced by pre-processor lines after the layout
    st += [S("contains"), S(f"subroutine qs{seed % 1000}()", [f"qds doc"], kind="open")]
    for i in range(rng.randint(1, 3)):
        st.append(S("print *, " + ", ".join(rng.sample(QLITS, rng.randint(1, 3))), kind="exec"))
    # five-digit labels (the label field is full) on a call without argument list and on a FORMAT statement
    st.append(S(f"call qh{seed % 1000}", kind="exec", label=str(rng.randint(10000, 99999))))
    st.append(S("format (i5, a)", kind="exec", label=str(rng.randint(1000, 9999)) + "7"))
    st += [S(f"end subroutine qs{seed % 1000}", kind="end"), S(f"subroutine qh{seed % 1000}", [f"qdh doc"], kind="open"), S(f"end subroutine qh{seed % 1000}", kind="end"),
           S(f"end module qm{seed % 1000}", kind="end")]
    return st


def cpp_block(seed, indent):
    """conditional compilation and a macro (the default pre-processor sees the file before FORD does, whatever its source form)"""
    k = seed % 1000
    return "\n".join([f"#ifdef ZQ_NOT_DEFINED_{k}", f"{indent}integer :: zqhidden{k}", "#else", f"{indent}integer :: zqshown{k}", "#endif", f"#define ZQ_N{k} 7",
                      f"{indent}integer :: zqarr{k}(ZQ_N{k})"])


def render_pair(seed, files, length_limit, ext_fixed, ext_free, feats, cpp=False):
    """(free files, fixed files, texts) of one project for one setting of fixed_length_limit"""
    rng = random.Random(seed * 3 + (1 if length_limit else 2))
    style = fgen.Style(seed * 7 + 1)
    lay_fixed = layout.Layout(seed + (0 if length_limit else 977), plain=False, docstyle=rng.choice(["after", "inline", "pre", "mixed"]), cont_p=0.5, comment_p=0.25)
    free_files, fixed_files, texts = {}, {}, {}
    class _Q:  # pseudo file for the quote module
        name = f"zq{seed % 1000}"

    for f in list(files) + [_Q]:
        stmts = fgen.render_file(f, fgen.Style(style.seed)) if f is not _Q else quote_module(seed, cpp)
        layout.assign_labels(stmts, random.Random(seed + 5))
        # optionally move a run of declarations into an INCLUDEd file (same form as the including file; an INCLUDE line is never continued)
        inc = None
        runs = [i for i in range(len(stmts) - 1) if stmts[i].kind == "code" and not stmts[i].label and stmts[i + 1].kind == "code" and not stmts[i + 1].label]
        if runs and random.Random(seed + 9).random() < 0.4:
            i = random.Random(seed + 10).choice(runs)
            j = i + 2
            while j < len(stmts) and j - i < 4 and stmts[j].kind == "code" and not stmts[j].label and rng.random() < 0.5:
                j += 1
            # (an INCLUDEd file is in the source form of the file that includes it, whatever it is called: also `.f90` / `.f` - such a file
            # lives in an include directory beside the sources, where nothing takes it for a source file of its own)
            iext = random.Random(seed + 11).choice([".inc", ".inc", ".f90", ".f", ".h", ".F90"])
            inc = (f"inc_{f.name}{iext}", stmts[i:j], f"vfincmark{seed % 1000}=0")
            if iext != ".inc":
                feats.add("include_file_named_like_a_source_file")
            stmts = stmts[:i] + [fgen.Stmt(inc[2])] + stmts[j:]
            feats.add("include_file")
        free_text = layout.Layout(seed, plain=True).free(stmts)
        fixed_text = lay_fixed.fixed(stmts, length_limit=length_limit, junk=length_limit)
        if cpp and f is _Q:
            free_text = re.sub(rf"(?m)^.*vfcppmark{seed % 1000}=0.*$", lambda m: cpp_block(seed, ""), free_text)
            fixed_text = re.sub(rf"(?m)^.*vfcppmark{seed % 1000}=0.*$", lambda m: cpp_block(seed, "      "), fixed_text)
            feats.add("cpp_conditionals_and_macro")
        if inc:
            free_text = free_text.replace(inc[2], f"include '{inc[0]}'")
            fixed_text = fixed_text.replace(inc[2], f"include '{inc[0]}'")
            free_files[("@inc/" if not inc[0].endswith(".inc") else "") + inc[0]] = layout.Layout(seed + 1, plain=True).free(inc[1])
            inc_fixed = lay_fixed.fixed(inc[1], length_limit=length_limit, junk=length_limit)
            fixed_files[("@inc/" if not inc[0].endswith(".inc") else "") + inc[0]] = inc_fixed
            feats |= input_features(inc_fixed)
        free_files[f"{f.name}.{ext_free}"] = free_text
        fixed_files[f"{f.name}.{ext_fixed}"] = fixed_text
        texts[f.name] = {"free": free_text, "fixed": fixed_text}
        if inc:
            texts[f.name]["included_fixed"] = inc_fixed
        feats |= input_features(fixed_text)
    return free_files, fixed_files, texts, lay_fixed.features


def case(arg):
    """One project; fixed_length_limit on and off (in the order given) run one after the other in one process on the same
    paths, the free-form twin in another."""
    seed, first_limit = arg
    rng = random.Random(seed)
    files = genmodels.gen_project(seed, docs=True, nfiles=rng.randint(1, 2), features={"submodules": True})
    ext_fixed, ext_free = rng.choice(FIXED_EXT), rng.choice(FREE_EXT)
    # the default pre-processor (pcpp on PATH) for the extensions FORD pre-processes by default (.F .FOR .F90)
    preprocess = ext_fixed in ("F", "FOR") and rng.random() < 0.5
    if preprocess:
        ext_free = "F90"  # the free-form twin goes through the pre-processor as well
    base = core.mktemp("vf_c14_")
    viol = []
    feats = set()
    lf = set()
    n_ent = 0
    texts_all = {}
    try:
        free_root, fixed_root = os.path.join(base, "free"), os.path.join(base, "fixed")
        steps_free, steps_fixed, limits = [], [], [first_limit, not first_limit]
        for ll in limits:
            fr, fx, texts, lfeat = render_pair(seed, files, ll, ext_fixed, ext_free, feats, cpp=preprocess)
            lf |= lfeat
            texts_all[ll] = texts
            settings = {"fixed_length_limit": ll}
            if preprocess:
                settings["preprocess"] = True
            steps_free.append({"files": fr, "settings": settings})
            steps_fixed.append({"files": fx, "settings": settings})
        rfree = core.run_alone(observe_history, {"root": free_root, "steps": steps_free}, timeout=240)
        rfix = core.run_alone(observe_history, {"root": fixed_root, "steps": steps_fixed}, timeout=240)
    finally:
        shutil.rmtree(base, ignore_errors=True)
    for tag, (st, r) in (("free", rfree), ("fixed", rfix)):
        if st != "ok":
            viol.append({"kf": {"kind": "harness_" + st}, "w": {"which": tag, "detail": str(r)[-400:], "seed": seed}})
    if not viol:
        for step, ll in enumerate(limits):
            texts = texts_all[ll]
            kfbase = {"length_limit": ll, "step_in_process": step, "extension": ext_fixed, "preprocess": preprocess,
                      "input_features": sorted(feats & {"seqfield_starts_with_bang", "long_blank_line_before_continuation"})}
            a, b = rfree[1][step], rfix[1][step]
            bad = False
            for tag, r in (("free", a), ("fixed", b)):
                if r["error"]:
                    viol.append({"kf": {"kind": "ford_failed_" + tag, "error": r["error"].split(":")[0], **kfbase}, "w": {"error": r["error"], "files": texts, "seed": seed, "first_limit": first_limit}})
                    bad = True
                elif r["diags"]:
                    viol.append({"kf": {"kind": "diagnostic_" + tag, **kfbase}, "w": {"diags": r["diags"], "files": texts, "seed": seed, "first_limit": first_limit}})
            if bad or a["table"] is None or b["table"] is None:
                continue
            n_ent += len(a["table"])
            seen = set()
            for path, field, x, y in observe.diff_tables(a["table"], b["table"]):
                leaf = path.rsplit("/", 1)[-1].split(":")[0]
                kf = {"kind": "forms_disagree", "entity": leaf, "field": field, **kfbase}
                k = json.dumps(kf, sort_keys=True)
                if k in seen:
                    continue
                seen.add(k)
                viol.append({"kf": kf, "w": {"path": path, "field": field, "free": x, "fixed": y, "files": texts, "seed": seed, "length_limit": ll, "first_limit": first_limit}})
    nontrivial = "fixed_cont" in lf and any(x.startswith("fixed_comment_") or x == "fixed_cont_interleaved" for x in lf)
    lf = set(lf) | {"extension_." + ext_fixed} | ({"preprocessed"} if preprocess else set())
    return {"viol": viol, "features": sorted(lf | feats), "nontrivial": nontrivial, "entities": n_ent, "hash": core.h(texts_all[True]) + core.h(texts_all[False]),
            "sample": {"seed": seed, "fixed_form_file": next(iter(texts_all[True].values()))["fixed"][:1800]}}


def main():
    run = core.Run(
        PID,
        rule="case = generated program (vf.genmodels) rendered from one statement list as plain free form (.f90 .f95 .f03 .f08 .F90) and as fixed form "
        "(.f .for .F .FOR; the upper-case ones in half of the cases through the default pre-processor) with random continuation breaks at token boundaries, any printable non-blank non-zero continuation character, labels in "
        "columns 1-5 on executable statements, C/c/*/! comment lines, blank and short lines also between continuation lines, doc "
        "comments after/inline/before, sequence-field text in 73+ (limit on) or long lines (limit off); both settings of fixed_length_limit run one after the "
        "other in ONE process on the same paths (directory re-written in between; either order). Non-trivial: >=1 continuation "
        "and >=1 comment/blank line; distinct by hash of both renderings.",
        assumptions=[
            "line breaks only at blanks outside literals (no breaks inside tokens or literals); no tab form",
            "inline doc comments are only placed where they end before column 73",
            "comment text never starts with a doc-marker character",
        ],
    )
    rp = core.replay_arg()
    if rp:
        w = json.load(open(rp))["witness"]
        r = case((w["seed"], w.get("first_limit", True)))
        print("replay:", "VIOLATION" if r["viol"] else "held")
        for v in r["viol"][:10]:
            print(json.dumps({k: x for k, x in v["w"].items() if k != "files"}, default=str)[:500])
        sys.exit(1 if r["viol"] else 0)
    n = 2000 if run.tier == "thorough" else 300
    args = [(run.seed * 100003 + i, i % 2 == 0) for i in range(n)]
    results = core.fork_map(case, args, per_case_fork=False, case_timeout=300, total_timeout=3400)
    for a, (st, r) in zip(args, results):
        if st != "ok":
            run.inconc(f"{st}: {str(r)[-300:]}")
            continue
        run.case(key=r["hash"], nontrivial=r["nontrivial"], sample=r["sample"] if r["nontrivial"] else None)
        run.count("entities_compared", r["entities"])
        run.count("runs_compared", 2)
        run.count("cases_length_limit_" + ("on" if a[1] else "off") + "_first")
        for f in r["features"]:
            run.seen("layout_features_observed", f)
            if f in ("both_quote_characters_before_trailing_comment", "preprocessed", "include_file", "sequence_field_after_comment", "fixed_trailing_comment_on_continued_line"):
                run.count("cases_with_" + f)
        for v in r["viol"]:
            run.violation(v["kf"], v["w"])
    run.max_samples = 2
    run.finish(floors={"evaluations": 150, "distinct_nontrivial": 100, "cases_with_both_quote_characters_before_trailing_comment": 30, "cases_with_preprocessed": 10, "cases_with_include_file": 30, "layout_features_observed": 10, "entities_compared": 5000})


if __name__ == "__main__":
    main()
