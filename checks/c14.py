"""C14 - fixed-form sources document the same as their free-form equivalent.

Runtime monitor (metamorphic): every generated program is written twice from the *same* logical
statements - a plain free-form .f90 and a fixed-form .f with random continuation breaks, continuation
characters, labels, comment-line styles, blank/short lines and sequence-field text - parsed and
correlated by the real FORD in forked children, and the canonical entity tables (entities,
references, calls, documentation words) are compared.  Both settings of fixed_length_limit are run.
"""
from __future__ import annotations

import json
import os
import random
import shutil
import sys

from vf import core

ford = core.setup_env()
from vf import fgen, genmodels, layout, observe  # noqa: E402

PID = "C14"


def observe_case(item):
    cap = observe.Captured()
    try:
        project, cap = observe.parse_and_correlate([item["root"]], settings_kw=item.get("settings"), cap=cap)
        table = observe.tree(project, strip_ext=True)
        err = None
    except BaseException as e:
        import traceback

        table, err = None, f"{type(e).__name__}: {e}\n" + traceback.format_exc()[-1200:]
    diags = [w for w in cap.warnings if "Error parsing" in w] + [l for l in cap.stdout.splitlines() if l.startswith("ERROR in file")]
    return {"table": table, "error": err, "diags": diags[:8]}


def input_features(fixed_text):
    """Mechanism fields derived from the *input* (used to key known findings)."""
    feats = set()
    lines = fixed_text.split("\n")
    for i, l in enumerate(lines):
        if len(l) > 72:
            feats.add("text_beyond_col72")
            if l[72:].lstrip().startswith("!"):
                feats.add("seqfield_starts_with_bang")
        if l.strip() == "" and len(l) > 6 and i + 1 < len(lines):
            # blank line of >6 columns followed (maybe after more comment lines) by a continuation line
            for k in range(i + 1, min(i + 6, len(lines))):
                nl = lines[k]
                if len(nl) > 5 and nl[0] not in "Cc*!" and nl[:5].strip() == "" and nl[5] not in " 0":
                    feats.add("long_blank_line_before_continuation")
                    break
                if nl and nl[0] not in "Cc*!" and nl.strip():
                    break
        if len(l) > 5 and l[0] not in "Cc*!#" and "!" not in l[1:5] and l[5] == "!":
            feats.add("bang_continuation_char")
    return feats


def case(arg):
    seed, length_limit = arg
    rng = random.Random(seed)
    files = genmodels.gen_project(seed, docs=True, nfiles=rng.randint(1, 2), features={"submodules": True})
    style = fgen.Style(seed * 7 + 1)
    base = core.mktemp("vf_c14_")
    viol = []
    try:
        free_root, fixed_root = os.path.join(base, "free"), os.path.join(base, "fixed")
        os.makedirs(free_root)
        os.makedirs(fixed_root)
        lay_fixed = layout.Layout(seed, plain=False, docstyle=rng.choice(["after", "inline", "pre", "mixed"]), cont_p=0.5, comment_p=0.25)
        texts = {}
        feats = set()
        for f in files:
            stmts = fgen.render_file(f, fgen.Style(style.seed))
            layout.assign_labels(stmts, random.Random(seed + 5))
            # optionally move a run of declarations into an INCLUDEd file (same form as the including file; an INCLUDE line is never continued)
            inc = None
            runs = [i for i in range(len(stmts) - 1) if stmts[i].kind == "code" and not stmts[i].label and stmts[i + 1].kind == "code" and not stmts[i + 1].label]
            if runs and rng.random() < 0.35:
                i = rng.choice(runs)
                j = i + 2
                while j < len(stmts) and j - i < 4 and stmts[j].kind == "code" and not stmts[j].label and rng.random() < 0.5:
                    j += 1
                inc = (f"inc_{f.name}.inc", stmts[i:j], f"vfincmark{seed % 1000}=0")
                stmts = stmts[:i] + [fgen.Stmt(inc[2])] + stmts[j:]
                feats.add("include_file")
            free_text = layout.Layout(seed, plain=True).free(stmts)
            fixed_text = lay_fixed.fixed(stmts, length_limit=length_limit, junk=length_limit)
            if inc:
                free_text = free_text.replace(inc[2], f"include '{inc[0]}'")
                fixed_text = fixed_text.replace(inc[2], f"include '{inc[0]}'")
                open(os.path.join(free_root, inc[0]), "w").write(layout.Layout(seed + 1, plain=True).free(inc[1]))
                inc_fixed = lay_fixed.fixed(inc[1], length_limit=length_limit, junk=length_limit)
                open(os.path.join(fixed_root, inc[0]), "w").write(inc_fixed)
                feats |= input_features(inc_fixed)
            open(os.path.join(free_root, f.name + ".f90"), "w").write(free_text)
            open(os.path.join(fixed_root, f.name + ".f"), "w").write(fixed_text)
            texts[f.name] = {"free": free_text, "fixed": fixed_text}
            if inc:
                texts[f.name]["included_fixed"] = inc_fixed
            feats |= input_features(fixed_text)
        settings = {"fixed_length_limit": length_limit}
        rfree = core.run_alone(observe_case, {"root": free_root, "settings": settings}, timeout=120)
        rfix = core.run_alone(observe_case, {"root": fixed_root, "settings": settings}, timeout=120)
    finally:
        shutil.rmtree(base, ignore_errors=True)
    kfbase = {"length_limit": length_limit, "input_features": sorted(feats & {"seqfield_starts_with_bang", "long_blank_line_before_continuation"})}
    for tag, (st, r) in (("free", rfree), ("fixed", rfix)):
        if st != "ok":
            viol.append({"kf": {"kind": "harness_" + st, **kfbase}, "w": {"which": tag, "detail": str(r)[-400:]}})
        elif r["error"]:
            viol.append({"kf": {"kind": "ford_failed_" + tag, "error": r["error"].split(":")[0], **kfbase}, "w": {"error": r["error"], "files": texts, "seed": seed}})
        elif r["diags"]:
            viol.append({"kf": {"kind": "diagnostic_" + tag, **kfbase}, "w": {"diags": r["diags"], "files": texts, "seed": seed}})
    n_ent = 0
    if rfree[0] == "ok" and rfix[0] == "ok" and rfree[1]["table"] is not None and rfix[1]["table"] is not None:
        n_ent = len(rfree[1]["table"])
        diffs = observe.diff_tables(rfree[1]["table"], rfix[1]["table"])
        seen = set()
        for path, field, a, b in diffs:
            leaf = path.rsplit("/", 1)[-1].split(":")[0]
            kf = {"kind": "forms_disagree", "entity": leaf, "field": field, **kfbase}
            k = json.dumps(kf, sort_keys=True)
            if k in seen:
                continue
            seen.add(k)
            viol.append({"kf": kf, "w": {"path": path, "field": field, "free": a, "fixed": b, "files": texts, "seed": seed, "length_limit": length_limit}})
    lf = lay_fixed.features
    nontrivial = "fixed_cont" in lf and any(x.startswith("fixed_comment_") or x == "fixed_cont_interleaved" for x in lf)
    return {"viol": viol, "features": sorted(lf | feats), "nontrivial": nontrivial, "entities": n_ent, "hash": core.h(texts),
            "sample": {"seed": seed, "fixed_form_file": next(iter(texts.values()))["fixed"][:1800]}}


def main():
    run = core.Run(
        PID,
        rule="case = generated program (vf.genmodels) rendered from one statement list as plain free form (.f90) and as fixed form "
        "(.f) with random continuation breaks at token boundaries, any printable non-blank non-zero continuation character, labels in "
        "columns 1-5 on executable statements, C/c/*/! comment lines, blank and short lines also between continuation lines, doc "
        "comments after/inline/before, sequence-field text in 73+ (limit on) or long lines (limit off). Non-trivial: >=1 continuation "
        "and >=1 comment/blank line; distinct by hash of both renderings.",
        assumptions=[
            "line breaks only at blanks outside literals (no breaks inside tokens or literals); no tab form",
            "inline doc comments are only placed where they end before column 73",
            "comment text never starts with a doc-marker character",
        ],
    )
    rp = core.replay_arg()
    if rp:
        w = json.load(open(rp))["witness"]
        r = case((w["seed"], w.get("length_limit", True)))
        print("replay:", "VIOLATION" if r["viol"] else "held")
        for v in r["viol"][:10]:
            print(json.dumps({k: x for k, x in v["w"].items() if k != "files"}, default=str)[:500])
        sys.exit(1 if r["viol"] else 0)
    n = 2500 if run.tier == "thorough" else 300
    args = [(run.seed * 100003 + i, i % 2 == 0) for i in range(n)]
    results = core.fork_map(case, args, per_case_fork=False, case_timeout=300, total_timeout=3400)
    for a, (st, r) in zip(args, results):
        if st != "ok":
            run.inconc(f"{st}: {str(r)[-300:]}")
            continue
        run.case(key=r["hash"], nontrivial=r["nontrivial"], sample=r["sample"] if r["nontrivial"] else None)
        run.count("entities_compared", r["entities"])
        run.count("cases_length_limit_" + ("on" if a[1] else "off"))
        for f in r["features"]:
            run.seen("layout_features_observed", f)
        for v in r["viol"]:
            run.violation(v["kf"], v["w"])
    run.max_samples = 2
    run.finish(floors={"evaluations": 200, "distinct_nontrivial": 100, "layout_features_observed": 10, "entities_compared": 5000})


if __name__ == "__main__":
    main()
