"""C09 - every internal link in the output resolves, and the output is relocatable.

Runtime monitor: complete FORD runs (real argparse + settings + parser + templates + graphviz) in a
forked child on generated projects of varying shape (one file / many, no modules, only a program, block
data, submodules, static pages at several depths) x option vectors; an offline checker walks every
href/src/action/xlink:href of every generated page (incl. inline SVG) and every search record and
checks: relative, target file exists under the output directory, #fragment is an id in the target.
"""
from __future__ import annotations

import json
import os
import random
import shutil
import sys

from vf import core

ford = core.setup_env()
from vf import fgen, genmodels, layout, site  # noqa: E402

PID = "C09"


def make_pages(root, rng, depth_max=2, refs=""):
    """`refs`: text with [[entity]] references, written identically on every page (pages of several depths show the same
    reference: each must get the URL that is right from its own directory)"""
    pd = os.path.join(root, "pages")
    os.makedirs(pd)
    sub = " [sub](sub1/index.html)" if depth_max >= 1 else ""
    open(os.path.join(pd, "index.md"), "w").write(f"title: Top Pages\n\nTop page text.{sub} [a](a_page.html){refs}\n")
    open(os.path.join(pd, "a_page.md"), "w").write(f"title: A page\n\nLink to [top](index.html) and url [home](|url|/index.html) and [self](|page|/a_page.html){refs}\n")
    # the same aliases inside a note box and in the indented continuation paragraph of a list item
    boxed = "\n\n@note\nBoxed [home](|url|/index.html) and [a](|page|/a_page.html)\n@endnote\n\n1. item one\n\n    continued [top](|page|/index.html) text\n\n2. item two\n"
    open(os.path.join(pd, "boxed.md"), "w").write(f"title: Boxed\n\nA page with a box.{boxed}")
    if depth_max >= 1:
        os.makedirs(os.path.join(pd, "sub1"))
        deep = " [deep](deep/index.html)" if depth_max >= 2 else ""
        open(os.path.join(pd, "sub1", "index.md"), "w").write(f"title: Sub One\n\nSub [up](../index.html){deep} [a](|page|/a_page.html){refs}\n")
        open(os.path.join(pd, "sub1", "other.md"), "w").write(f"title: Other\n\nOther page [sib](index.html){refs}{boxed}")
    if depth_max >= 2:
        os.makedirs(os.path.join(pd, "sub1", "deep"))
        open(os.path.join(pd, "sub1", "deep", "index.md"), "w").write(f"title: Deep\n\nDeep [top](../../index.html) [home](|url|/index.html){refs}\n")
    return "./pages"


SHAPES = ["random", "random", "random", "single_file", "no_modules", "only_program", "only_blockdata", "modules_only", "two_programs", "many"]


def make_project(seed, root):
    rng = random.Random(seed)
    shape = SHAPES[seed % len(SHAPES)]
    src = os.path.join(root, "src")
    os.makedirs(src)
    ctx = genmodels.Ctx(rng, docs=True)
    rich = seed % 2 == 1  # multi-paragraph documentation: summaries end in "Read more" links
    ctx.rich = rich
    files = []
    if shape == "random":
        files = genmodels.gen_project(seed, docs=True, rich_docs=rich)
    elif shape == "many":
        files = genmodels.gen_project(seed, nfiles=5, docs=True, rich_docs=rich)
    elif shape == "single_file":
        files = genmodels.gen_project(seed, nfiles=1, docs=True, rich_docs=rich)
    elif shape == "no_modules":
        f = fgen.SrcFile(f"nm{seed}")
        f.units = [genmodels.gen_proc(ctx, [], []), genmodels.gen_proc(ctx, [], []), genmodels.gen_program(ctx, [])]
        files = [f]
    elif shape == "only_program":
        f = fgen.SrcFile(f"op{seed}")
        f.units = [genmodels.gen_program(ctx, [])]
        files = [f]
    elif shape == "only_blockdata":
        f = fgen.SrcFile(f"ob{seed}")
        f.units = [genmodels.gen_blockdata(ctx), genmodels.gen_blockdata(ctx)]
        f2 = fgen.SrcFile(f"ob{seed}b")
        f2.units = [genmodels.gen_program(ctx, [])]
        files = [f, f2]
    elif shape == "modules_only":
        f = fgen.SrcFile(f"mo{seed}")
        m1 = genmodels.gen_module(ctx, [])
        f.units = [m1, genmodels.gen_module(ctx, [m1])] + genmodels.gen_submodule_pair(ctx)
        files = [f]
    elif shape == "two_programs":
        f = fgen.SrcFile(f"tp{seed}a")
        f.units = [genmodels.gen_program(ctx, [])]
        f2 = fgen.SrcFile(f"tp{seed}b")
        f2.units = [genmodels.gen_program(ctx, []), genmodels.gen_proc(ctx, [], [])]
        files = [f, f2]
    if seed % 5 in (1, 3):
        # a module that implements its own separate module procedures (no submodule) - valid Fortran 2008
        open(os.path.join(src, f"zz_selfimpl{seed}.f90"), "w").write("\n".join([
            f"module selfimpl{seed}", "!! doc of selfimpl", "implicit none", "interface", "module function sif(x) result(r)", "!! interface doc", "integer, intent(in) :: x", "integer :: r",
            "end function sif", "module subroutine sis()", "!! interface doc", "end subroutine sis", "end interface", "contains", "module procedure sif", "!! implementation doc", "r = x",
            "end procedure sif", "module subroutine sis()", "!! implementation doc", "end subroutine sis", f"end module selfimpl{seed}"]) + "\n")
    if seed % 4 == 1:
        open(os.path.join(src, f"zz_boxed{seed}.f90"), "w").write("\n".join([
            f"module boxed{seed}", "!! doc of the boxed module", "!!", "!! @warning", f"!! Boxed [home](|url|/index.html) and [mod](|url|/module/boxed{seed}.html)", "!! @endwarning", "!!",
            "!! * item", "!!", f"!!     continued [again](|url|/module/boxed{seed}.html) text", "implicit none", f"end module boxed{seed}"]) + "\n")
    if seed % 4 == 2:
        # a derived type defined inside a procedure (no page of its own): references in its documentation and in its components' documentation
        open(os.path.join(src, f"zz_localtype{seed}.f90"), "w").write("\n".join([
            f"module loct{seed}", "!! doc of the module", "implicit none", "contains", f"subroutine locs{seed}()", f"!! doc of the routine see [[loct{seed}]]",
            "type :: local_t", f"!! local type doc see [[loct{seed}]] and [[locs{seed}]]", "integer :: c", f"!! component doc see [[loct{seed}]]", "end type local_t",
            "type(local_t) :: v", f"!! variable doc [[loct{seed}]]", f"end subroutine locs{seed}", f"end module loct{seed}"]) + "\n")
    extra_targets = []
    if seed % 5 in (2, 4):
        # names that contain the name of a URL scheme (they are ordinary internal pages)
        mn, sn = f"sftp_sess{seed}", f"mailto_list{seed}"
        open(os.path.join(src, f"ftp_utils{seed}.f90"), "w").write("\n".join([
            f"module {mn}", "!! doc of the sftp module", "implicit none", "contains", f"subroutine {sn}()", "!! doc of the mailto routine", f"end subroutine {sn}",
            f"function https_get{seed}() result(r)", "!! doc", "integer :: r", "r = 0", f"end function https_get{seed}", f"end module {mn}"]) + "\n")
        extra_targets = [mn, sn]
    st = fgen.Style(seed + 2)
    for f in files:
        stmts = fgen.render_file(f, st)
        open(os.path.join(src, f.name + ".f90"), "w").write(layout.Layout(seed, plain=True).free(stmts))
    opts = {"project": f"P{seed}", "src_dir": "./src", "output_dir": "./doc", "preprocess": False, "parallel": 0,
            "incl_src": rng.random() < 0.7, "search": rng.random() < 0.7, "graph": rng.random() < 0.5,
            "proc_internals": rng.random() < 0.5, "display": rng.choice([["public"], ["public", "protected"], ["public", "private", "protected"], ["none"]]),
            "sort": rng.choice(["src", "alpha", "permission", "permission-alpha", "type", "type-alpha"]), "source": rng.random() < 0.3,
            "warn": False, "quiet": True}
    # the same [[entity]] references on the front page, in the summary and on static pages of every depth
    targets = extra_targets + [u.name for f in files for u in f.units if getattr(u, "kind", None) in ("module", "program")][:2]
    if files:
        targets.append(files[0].name + ".f90")  # a source file: a link only if the file has a page (incl_src)
    refs = (" See " + " and ".join(f"[[{t}]]" for t in targets) + ".") if targets and seed % 3 != 2 else ""
    if seed % 4 == 2 and rng.random() < 0.7:
        opts["proc_internals"] = True
    if rng.random() < 0.5:
        opts["page_dir"] = make_pages(root, rng, rng.randint(0, 2), refs)
    if rng.random() < 0.35:
        opts["hide_undoc"] = True  # documented entities inside undocumented (hidden) parents
    if rng.random() < 0.25:
        opts["display"] = rng.choice([["private"], ["protected", "private"], ["public", "private"]])
    if opts["graph"] and rng.random() < 0.3:
        opts["graph_maxnodes"] = rng.choice([1, 2, 3])
        opts["graph_maxdepth"] = rng.choice([1, 2])
    if rng.random() < 0.3:
        opts["summary"] = "Short summary text" + refs
        opts["author"] = "A. Uthor"
    if rng.random() < 0.3:
        # the user's own icon / style sheet / MathJax configuration
        icon = rng.choice(["logo.ico", "icon.svg", "fav.PNG", "my.png"])
        open(os.path.join(root, icon), "wb").write(b"ICON")
        opts["favicon"] = "./" + icon
        if rng.random() < 0.5:
            open(os.path.join(root, "custom.css"), "w").write("h1 { color: red }\n")
            opts["css"] = "./custom.css"
        if rng.random() < 0.5:
            open(os.path.join(root, "mj.js"), "w").write("window.MathJax = {};\n")
            opts["mathjax_config"] = "./mj.js"
    if rng.random() < 0.2:
        opts["extra_filetypes"] = ["inc !"]
        open(os.path.join(src, f"extra{seed}.inc"), "w").write("! just a comment\n!! doc for the include file zx1\n")
    site.write_project_file(root, opts, body=f"Front page of project {seed}.{refs}\n")
    return shape, opts


def run_case(item):
    return site.run_in_process(item["root"])


def case(seed):
    base0 = core.mktemp("vf_c09_")
    # the project (and so the output directory) sometimes lives in a directory whose name needs URL quoting
    base = os.path.join(base0, ["plain", "my proj", "pr\u00f6j (v2)", "a#b%20c", "srv ftp", "mailto"][(seed // 3) % 6]) if seed % 3 == 0 else base0
    os.makedirs(base, exist_ok=True)
    try:
        shape, opts = make_project(seed, base)
        st, r = core.run_alone(run_case, {"root": base}, timeout=300)
        viol = []
        ov = {k: opts.get(k) for k in ("incl_src", "search", "graph", "proc_internals", "page_dir", "extra_filetypes")}
        ov["display"] = ",".join(opts["display"])
        if st != "ok" or r["outcome"] != "ok":
            detail = (r or {}) if st == "ok" else {"harness": st, "detail": str(r)[-500:]}
            why = "harness_" + st if st != "ok" else "ford_run_failed"
            msg = (detail.get("error") or detail.get("code") or "")[:80] if isinstance(detail, dict) else ""
            if st == "ok" and r["outcome"] == "exit" and "No source files" in r.get("stdout", ""):
                return {"viol": [], "npages": 0, "nlinks": 0, "shape": shape, "opts": ov, "nontrivial": False, "hash": f"{seed}", "sample": None, "depths": []}
            return {"viol": [{"kf": {"kind": why, "message": msg}, "w": {"seed": seed, "shape": shape, "options": opts, "detail": detail}}],
                    "npages": 0, "nlinks": 0, "shape": shape, "opts": ov, "nontrivial": False, "hash": f"{seed}", "sample": None, "depths": []}
        out = os.path.join(base, "doc")
        s = site.parse_site(out)
        problems, nlinks = site.check_links(s, out)
        seen = set()
        for p in problems:
            page_kind = p["page"].split("/")[0] if "/" in p["page"] else p["page"]
            tgt = p["url"].split("#")[0]
            frag = p["url"].partition("#")[2]
            kf = {"kind": "broken_link", "why": p["why"], "page_dir": page_kind, "where": p["where"],
                  "target_kind": (tgt.replace("../", "").replace("./", "").split("/")[0] if tgt else "(same page)"),
                  "fragment_prefix": frag.split("-")[0] if frag else ""}
            k = json.dumps(kf, sort_keys=True)
            if k in seen:
                continue
            seen.add(k)
            viol.append({"kf": kf, "w": {"seed": seed, "shape": shape, "options": opts, "problem": p, "n_same_kind": sum(1 for q in problems if q["why"] == p["why"])}})
        depths = sorted({p.count("/") for p in s["pages"]})
        return {"viol": viol, "npages": len(s["pages"]), "nlinks": nlinks, "shape": shape, "opts": ov, "depths": depths,
                "nontrivial": len(s["pages"]) >= 3 and len(depths) >= 2, "hash": core.h([shape, ov, sorted(s["pages"])]),
                "sample": {"seed": seed, "shape": shape, "options": ov, "pages": sorted(s["pages"])[:25], "links_checked": nlinks}}
    finally:
        shutil.rmtree(base0, ignore_errors=True)


def main():
    run = core.Run(
        PID,
        rule="case = generated project of a shape class {random 1-4 files, single file, no modules, only a program, only block data + "
        "program, modules+submodules only, two programs, 5 files} x random option vector {incl_src, search, graph (+small maxnodes/"
        "maxdepth), proc_internals, hide_undoc, display subsets with and without public / none, sort, source, page_dir with 0-2 nesting levels, summary/author, extra file "
        "type}; complete run in a forked child; every URL attribute of every page (incl. inline SVG) and every search record is "
        "checked. Non-trivial: >=3 pages at >=2 depths; distinct by (shape, option vector, page set).",
        assumptions=["URLs with a scheme, `//`, mailto:, javascript:, data: are external and not followed (CDN reachability is out of scope)",
                     "a `#fragment` must match an id (or <a name>) of the target page; a bare `#` is ignored"],
    )
    rp = core.replay_arg()
    if rp:
        w = json.load(open(rp))["witness"]
        r = case(w["seed"])
        known = core.load_known(PID)
        bad = [v for v in r["viol"] if core.match_known(known, v["kf"]) is None]
        print("replay:", "VIOLATION" if bad else "held")
        for v in bad[:10]:
            print(json.dumps(v["w"].get("problem", v["w"]), default=str)[:400])
        sys.exit(1 if bad else 0)
    n = 1500 if run.tier == "thorough" else 120
    seeds = [run.seed * 100003 + i for i in range(n)]
    results = core.fork_map(case, seeds, per_case_fork=False, case_timeout=400, total_timeout=3400)
    for sd, (st, r) in zip(seeds, results):
        if st != "ok":
            run.inconc(f"{st}: {str(r)[-300:]}")
            continue
        run.case(key=r["hash"], nontrivial=r["nontrivial"], sample=r["sample"] if r["nontrivial"] else None)
        run.count("pages_checked", r["npages"])
        run.count("links_checked", r["nlinks"])
        run.seen("project_shapes", r["shape"])
        for d in r["depths"]:
            run.seen("page_depths", d)
        for k, v in r["opts"].items():
            run.seen("option_values", f"{k}={v}")
        for v in r["viol"]:
            run.violation(v["kf"], v["w"])
    run.max_samples = 2
    run.finish(floors={"evaluations": 100, "distinct_nontrivial": 60, "pages_checked": 1000, "links_checked": 50000, "project_shapes": 8, "page_depths": 3})


if __name__ == "__main__":
    main()
