"""C06 - USE association imports exactly the accessible names.

Runtime monitor: every DAG of <=3 provider modules plus a consumer (exhaustive over shapes, seeded
decoration: default access, explicit public lists, USE forms) is written to files; a consumer scope
contains *probes* for every candidate name, accessible or not; the real FORD parses + correlates
(forked child) with find_all_files wrapped to return the files in a chosen permutation (schedule
injection); the object found in each probe's reference slot is compared with an independent
implementation of the standard's USE rules (F2008 11.2.2).
"""
from __future__ import annotations

import itertools
import json
import os
import random
import shutil
import sys

from vf import core

ford = core.setup_env()
from vf import observe  # noqa: E402

PID = "C06"
KINDS = ["type", "sub", "func", "var", "generic", "absint", "ctor"]  # ctor: a derived type and the generic interface of the same name


# ---------------------------------------------------------------------------------------------
# model


def build_model(shape_edges, nprov, seed):
    """Modules p0..p{nprov-1} and consumer c; shape_edges: set of (i, j) meaning module j uses module i."""
    rng = random.Random(seed)
    mods = []
    for i in range(nprov + 1):
        name = f"p{i}s{seed % 997}" if i < nprov else f"cons{seed % 997}"
        # a project module may be named like one of the modules FORD knows as external by default (a serial `mpi` stub
        # shipped with the code ...): the project's own module is the one that is used
        if i < nprov and i == seed % 4 and (seed // 4) % 3 == 0:
            name = ["mpi", "omp_lib", "openacc", "mpi_f08"][(seed // 12) % 4]
        m = {"name": name, "idx": i, "default": rng.choice(["public", "public", "private"]), "entities": [], "uses": [], "explicit_public": [],
             "consumer": i == nprov}
        if not m["consumer"]:
            for k in KINDS:
                if rng.random() < 0.75:
                    acc = rng.choice([None, None, "public", "private"])
                    how = rng.choice(["attr", "stmt"]) if acc else None
                    if k in ("sub", "func", "generic", "absint", "ctor") and acc:
                        how = "stmt"
                    ename = f"{k}{i}x{seed % 997}"
                    if rng.random() < 0.3:
                        ename = ename.capitalize()
                    ent = {"name": ename, "kind": k, "access": acc, "how": how, "module": name}
                    # PROTECTED restricts definition, not accessibility: a public protected variable is imported like any other
                    if k == "var" and ((acc is None and m["default"] == "public") or (acc == "public" and how == "attr")) and rng.random() < 0.5:
                        ent["protected"] = True
                    m["entities"].append(ent)
                    if k == "generic" and rng.random() < 0.4:
                        # the generic's specific is declared by an interface body: an entity of the module in its own right, whose accessibility
                        # is the module default whatever an access statement says about the generic name
                        ent["bodies"] = f"gb_{ename.lower()}"
                        m["entities"].append({"name": ent["bodies"], "kind": "sub", "access": None, "how": None, "module": name, "via_body": True})
        mods.append(m)
    for (i, j) in sorted(shape_edges):
        mods[j]["uses"].append({"target": i})
    return mods, rng


def own_public(m):
    out = {}
    for e in m["entities"]:
        acc = e["access"] or m["default"]
        if acc == "public":
            out[e["name"].lower()] = e
    return out


def decorate_uses(mods, rng):
    """Choose a USE form for every edge, using the names the target exports (needs topological order)."""
    exp = {}
    for m in mods:
        for u in m["uses"]:
            t = mods[u["target"]]
            avail = sorted(exports(t, mods, exp).keys())
            form = rng.choice(["plain", "plain", "only", "rename", "only_rename", "nature", "two", "only_empty", "rename_swap"])
            if not avail and form not in ("plain", "only_empty"):
                form = "plain"
            if form == "rename_swap":
                # rename clauses act at once: a local name may be the remote name of another clause (swap, shift)
                tex_ = exports(t, mods, exp)
                bykind = {}
                for n in avail:
                    bykind.setdefault(tex_[n]["kind"], []).append(n)
                pairs = [v for v in bykind.values() if len(v) >= 2]
                if not pairs:
                    form = "rename"
                else:
                    a, b = rng.sample(rng.choice(pairs), 2)
                    u["stmts"] = [{"only": None, "renames": [(a, b), (b, a)] if rng.random() < 0.5 else [(b, a), (f"rs{m['idx']}_{b}", b)]}]
                    u["form"] = form
                    continue
            u["stmts"] = []
            if form == "plain":
                u["stmts"].append({"only": None, "renames": []})
            elif form == "nature":
                u["stmts"].append({"only": None, "renames": [], "nature": "non_intrinsic"})
            elif form == "only_empty":  # `use m, only:` imports nothing
                u["stmts"].append({"only": [], "renames": []})
            elif form == "only":
                sel = rng.sample(avail, rng.randint(1, min(3, len(avail))))
                u["stmts"].append({"only": [(n, None) for n in sel], "renames": []})
            elif form == "rename":
                sel = rng.sample(avail, rng.randint(1, min(2, len(avail))))
                u["stmts"].append({"only": None, "renames": [(f"rn{m['idx']}_{n}", n) for n in sel]})
            elif form == "only_rename":
                sel = rng.sample(avail, rng.randint(1, min(3, len(avail))))
                items = []
                for n in sel:
                    items.append((f"ro{m['idx']}_{n}", n) if rng.random() < 0.6 else (n, None))
                u["stmts"].append({"only": items, "renames": []})
            else:  # two USE statements for one module, in either order
                sel = rng.sample(avail, rng.randint(1, min(2, len(avail))))
                rest = [n for n in avail if n not in sel]
                first = rng.choice(["only", "plain"])
                stmts = [{"only": [(n, None) for n in sel], "renames": []} if first == "only" else {"only": None, "renames": []}]
                r = rng.random()
                if rest and r < 0.45:
                    n2 = rng.choice(rest if first == "only" else avail)
                    stmts.append({"only": [(f"rt{m['idx']}_{n2}", n2)], "renames": []})
                elif r < 0.7 and first == "only":
                    stmts.append({"only": None, "renames": []})
                elif rest:
                    n2 = rng.choice(rest if first == "only" else avail)
                    stmts.append({"only": None, "renames": [(f"rt{m['idx']}_{n2}", n2)]})
                else:
                    stmts.append({"only": [(n, None) for n in avail[:1]], "renames": []})
                if rng.random() < 0.3:
                    stmts.reverse()
                u["stmts"] = stmts
            u["form"] = form
        # explicit public list for re-export out of a default-private module
        if m["default"] == "private" and not m["consumer"]:
            imp = imports(m, mods, exp)
            cand = sorted(imp.keys())
            if cand and rng.random() < 0.6:
                m["explicit_public"] = rng.sample(cand, rng.randint(1, min(2, len(cand))))
        exp.pop((m["name"], False), None)
    return mods


def imports(m, mods, cache):
    """local name -> entity for everything module/scope m obtains through its USE statements (F2008 11.2.2)."""
    out = {}
    for u in m["uses"]:
        t = mods[u["target"]]
        tex = exports(t, mods, cache)
        stmts = u.get("stmts", [{"only": None, "renames": []}])
        has_plain = any(s["only"] is None for s in stmts)
        renamed_remote = set()
        for s in stmts:
            for l, r in s["renames"]:
                renamed_remote.add(r.lower())
            for l, r in (s["only"] or []):
                if r:
                    renamed_remote.add(r.lower())
        only_names = set()
        for s in stmts:
            for l, r in (s["only"] or []):
                if not r:
                    only_names.add(l.lower())
        if has_plain:
            for n, e in tex.items():
                if n not in renamed_remote or n in only_names:
                    out[n] = e
        for n in only_names:
            if n in tex:
                out[n] = tex[n]
        for s in stmts:
            for l, r in list(s["renames"]) + [(l, r) for l, r in (s["only"] or []) if r]:
                if r.lower() in tex:
                    out[l.lower()] = tex[r.lower()]
    return out


def imports_per_statement(m, mods, cache):
    """Alternative (non-standard) semantics used only to *classify* a violation: every USE statement is
    applied on its own and the results are united, so a name renamed in one statement is still imported
    by another USE of the same module."""
    out = {}
    for u in m["uses"]:
        t = mods[u["target"]]
        tex = exports(t, mods, cache, per_statement=True)
        for s in u.get("stmts", [{"only": None, "renames": []}]):
            ren = {r.lower(): l.lower() for l, r in list(s["renames"]) + [(l, r) for l, r in (s["only"] or []) if r]}
            if s["only"] is None:
                for n, e in tex.items():
                    out[ren.get(n, n)] = e
            else:
                for l, r in s["only"]:
                    key = (r or l).lower()
                    if key in tex:
                        out[l.lower()] = tex[key]
    return out


def exports(m, mods, cache, per_statement=False):
    ck = (m["name"], per_statement)
    if ck in cache:
        return cache[ck]
    out = dict(own_public(m))
    imp = imports_per_statement(m, mods, cache) if per_statement else imports(m, mods, cache)
    for n, e in imp.items():
        if m["default"] == "public" or n in [x.lower() for x in m.get("explicit_public", [])]:
            out.setdefault(n, e)
    cache[ck] = out
    return out


# ---------------------------------------------------------------------------------------------
# rendering


def render_entity(e, m, lines, contains, stmts):
    n = e["name"]
    a = f", {e['access']}" if (e["access"] and e["how"] == "attr") else ""
    if e["access"] and e["how"] == "stmt":
        stmts.append(f"{e['access']} :: {n}")
    k = e["kind"]
    if k == "type":
        lines += [f"type{a} :: {n}", "integer :: f", f"end type {n}"]
    elif k == "var":
        lines += [f"integer{a}{', protected' if e.get('protected') else ''} :: {n} = 0"]
    elif k == "sub" and e.get("via_body"):
        pass  # declared by the interface body of a generic interface (see there)
    elif k == "sub":
        contains += [f"subroutine {n}()", f"end subroutine {n}"]
    elif k == "func":
        contains += [f"integer function {n}(i)", "integer, intent(in) :: i", f"{n} = i", f"end function {n}"]
    elif k == "generic" and e.get("bodies"):
        lines += [f"interface {n}", f"subroutine {e['bodies']}(i)", "integer, intent(in) :: i", f"end subroutine {e['bodies']}", "end interface"]
    elif k == "generic":
        sp = f"spec_{n}"
        lines += [f"interface {n}", f"module procedure {sp}", "end interface"]
        contains += [f"subroutine {sp}(i)", "integer, intent(in) :: i", f"end subroutine {sp}"]
        stmts.append(f"private :: {sp}")
    elif k == "absint":
        lines += ["abstract interface", f"subroutine {n}(x)", "real, intent(in) :: x", "end subroutine", "end interface"]
    elif k == "ctor":
        mk = f"mk_{n}"
        lines += [f"type :: {n}", "integer :: f", f"end type {n}", f"interface {n}", f"module procedure {mk}", "end interface"]
        contains += [f"function {mk}(i) result(r)", "integer, intent(in) :: i", f"type({n}) :: r", "r%f = i", f"end function {mk}"]
        stmts.append(f"private :: {mk}")


def render_use(u, mods):
    t = mods[u["target"]]["name"]
    out = []
    for s in u["stmts"]:
        txt = "use"
        if s.get("nature"):
            txt += f", {s['nature']} :: {t}"
        else:
            txt += f" {t}"
        if s["only"] is not None:
            txt += ", only: " + ", ".join(f"{l} => {r}" if r else l for l, r in s["only"])
        elif s["renames"]:
            txt += ", " + ", ".join(f"{l} => {r}" for l, r in s["renames"])
        out.append(txt)
    return out


def candidate_names(mods):
    """Every name that could be referenced: entity names and rename locals, with the kind of what it denotes."""
    cands = {}
    for m in mods:
        for e in m["entities"]:
            cands[e["name"].lower()] = e["kind"]
    for m in mods:
        for u in m["uses"]:
            for s in u.get("stmts", []):
                for l, r in list(s["renames"]) + [(l, r) for l, r in (s["only"] or []) if r]:
                    cands[l.lower()] = cands.get(r.lower(), "sub")
    return cands


def render_project(mods, rng, probe_where):
    files = {}
    cands = candidate_names(mods)
    for m in mods:
        lines, contains, stmts = [], [], []
        L = [f"module {m['name']}"]
        if not (m["consumer"] and probe_where in ("procedure_use", "nested_use", "generic_body_use", "block_use")):
            for u in m["uses"]:
                L += render_use(u, mods)
        L.append("implicit none")
        if m["default"] == "private":
            L.append("private")
        for n in m.get("explicit_public", []):
            stmts.append(f"public :: {n}")
        for e in m["entities"]:
            render_entity(e, m, lines, contains, stmts)
        rng.shuffle(stmts)
        L += stmts + lines
        if m["consumer"] and probe_where == "generic_body_use":
            # the USE statements stand in an interface body of a named (generic) interface: the probes are its dummy arguments
            cm = lambda s: s.upper() if rng.random() < 0.3 else s  # noqa: E731
            names = sorted(cands)
            args = [f"pt{i}" for i, n in enumerate(names) if cands[n] in ("type", "ctor")] + [f"pp{i}" for i, n in enumerate(names) if cands[n] == "absint"]
            L += [f"interface gprobe_{m['name']}", f"subroutine probe_{m['name']}({', '.join(args)})"]
            for u in m["uses"]:
                L += render_use(u, mods)
            for i, n in enumerate(names):
                if cands[n] in ("type", "ctor"):
                    L.append(f"type({cm(n)}) :: pt{i}")
                elif cands[n] == "absint":
                    L.append(f"procedure({cm(n)}) :: pp{i}")
            L += [f"end subroutine probe_{m['name']}", "end interface"]
        elif m["consumer"]:
            probes = []
            cm = lambda s: s.upper() if rng.random() < 0.3 else s  # noqa: E731
            names = sorted(cands)
            if probe_where == "nested_use":
                contains += [f"subroutine outer_{m['name']}()", f"call probe_{m['name']}()", "contains"]
            contains += [f"subroutine probe_{m['name']}()"]
            if probe_where in ("procedure_use", "nested_use"):
                for u in m["uses"]:
                    contains += render_use(u, mods)
            if probe_where == "block_use":
                # the USE statements stand in a BLOCK construct of the probing procedure; the references are made inside the block
                contains.append("block")
                for u in m["uses"]:
                    contains += render_use(u, mods)
            nlvars = []
            for i, n in enumerate(names):
                k = cands[n]
                if probe_where == "block_use":
                    continue  # (declarations inside a BLOCK are not documented: only references are probed there)
                if k in ("type", "ctor"):
                    contains.append(f"type({cm(n)}) :: pt{i}")
                elif k == "absint":
                    contains.append(f"procedure({cm(n)}), pointer :: pp{i}")
                elif k == "var":
                    nlvars.append(n)
            if nlvars:
                contains.append("namelist /pnl/ " + ", ".join(nlvars))
            for i, n in enumerate(names):
                k = cands[n]
                if k in ("sub",):
                    contains.append(f"call {cm(n)}()")
                elif k == "generic":
                    contains.append(f"call {cm(n)}(1)")
                elif k in ("func", "ctor"):
                    contains.append(f"print *, {cm(n)}(1)")
            if probe_where == "block_use":
                contains.append("end block")
            contains += [f"end subroutine probe_{m['name']}"]
            if probe_where == "nested_use":
                contains += [f"end subroutine outer_{m['name']}"]
        if contains:
            L.append("contains")
            L += contains
        L.append(f"end module {m['name']}")
        files[m["name"] + ".f90"] = "\n".join(L) + "\n"
    return files, cands


# ---------------------------------------------------------------------------------------------
# observation (forked child)


def ent_id(obj):
    if obj is None:
        return "absent"
    if isinstance(obj, str):
        return "unresolved"
    p = obj
    mod = None
    while p is not None:
        if type(p).__name__ in ("FortranModule", "FortranSubmodule"):
            mod = p.name.lower()
        p = getattr(p, "parent", None)
    return f"{mod}::{obj.name.lower()}"


def observe_case(item):
    # recorder: which object each call chain of a probe procedure was resolved to
    import ford.sourceform as sf

    chain_log = []
    orig_find = sf.FortranCodeUnit._find_chain_item

    def rec_find(self, call_chain):
        item = orig_find(self, call_chain)
        if getattr(self, "name", "").lower().startswith("probe_"):
            chain_log.append((call_chain[-1].lower(), ent_id(item) if item is not None else "unresolved"))
        return item

    sf.FortranCodeUnit._find_chain_item = rec_find
    cap = observe.Captured()
    project, cap = observe.parse_and_correlate([item["root"]], settings_kw=item.get("settings"), cap=cap)
    res = {}
    tables = {}
    for m in project.modules:
        cands_p = list(m.subroutines) + [q for p0 in m.subroutines for q in p0.subroutines]
        cands_p += [q for it in m.interfaces if getattr(it, "generic", False) for q in list(getattr(it, "subroutines", [])) + list(getattr(it, "functions", []))]
        for p in cands_p:
            if not p.name.lower().startswith("probe_"):
                continue
            for v in list(p.variables) + [a for a in getattr(p, "args", []) if hasattr(a, "vartype")]:
                if v.name.lower().startswith(("pt", "pp")) and v.proto:
                    res[("slot", v.name.lower())] = ent_id(v.proto[0])
            for nl in p.namelists:
                res["namelist"] = [ent_id(x) for x in nl.variables]
            res["calls"] = list(chain_log)
            tables = {k: sorted(getattr(p, k, {}).keys()) for k in ("all_types", "all_procs", "all_vars", "all_absinterfaces")}
    diags = [w for w in cap.warnings if "Error parsing" in w] + [l for l in cap.stdout.splitlines() if l.startswith("ERROR in file")]
    return {"res": {str(k): v for k, v in res.items()}, "diags": diags[:5], "tables": tables, "files_order": [f.name for f in project.files]}


def case(arg):
    shape_id, edges, nprov, seed, probe_where, order = arg
    mods, rng = build_model(edges, nprov, seed)
    mods = decorate_uses(mods, rng)
    files, cands = render_project(mods, rng, probe_where)
    cons = mods[-1]
    acc = imports(cons, mods, {})
    acc_ps = imports_per_statement(cons, mods, {})
    base = core.mktemp("vf_c06_")
    try:
        root = os.path.join(base, "src")
        os.makedirs(root)
        # the order in which FORD parses the files is the sorted order of their paths: the permutation is injected through the file names
        for rank, idx in enumerate(order):
            n = sorted(files)[idx]
            open(os.path.join(root, f"f{rank}_{n}"), "w").write(files[n])
        # (`warn: true` only adds diagnostics; it must not change what is imported)
        st, r = core.run_alone(observe_case, {"root": root, "order": order, "settings": {"warn": True} if seed % 3 == 0 else None}, timeout=120)
    finally:
        shutil.rmtree(base, ignore_errors=True)
    viol = []
    feats = {"forms": sorted({u["form"] for m in mods for u in m["uses"]}), "reexport": any(m["uses"] and not m["consumer"] for m in mods),
             "rename": any(u["form"] in ("rename", "only_rename", "two") for m in mods for u in m["uses"])}
    if st != "ok":
        return {"viol": [{"kf": {"kind": "harness_" + st}, "w": {"detail": str(r)[-600:], "seed": seed, "files": files}}], "n_probes": 0, "feats": feats, "nontrivial": False, "hash": str(arg), "sample": None, "n_inacc": 0}
    if r["diags"]:
        viol.append({"kf": {"kind": "diagnostic_on_valid_input"}, "w": {"diags": r["diags"], "files": files, "seed": seed}})
    names = sorted(cands)
    res = r["res"]
    nprobe = 0
    ninacc = 0
    calls = {n: e for n, e in res.get("calls", [])}
    nlvars = [n for n in names if cands[n] == "var"]
    nlres = res.get("namelist", [])

    def expected_id(n):
        e = acc.get(n)
        if e is None:
            return "unresolved"
        return f"{e['module'].lower()}::{e['name'].lower()}"

    def use_form_of(n):
        for u in cons["uses"]:
            for s in u["stmts"]:
                for l, rr in list(s["renames"]) + list(s["only"] or []):
                    if l.lower() == n or (rr and rr.lower() == n):
                        return u["form"] + (":renamed_remote" if (rr and rr.lower() == n) else ":local" if rr else ":listed")
        return "not_named_in_consumer_use"

    for i, n in enumerate(names):
        k = cands[n]
        exp = expected_id(n)
        if probe_where == "block_use" and k not in ("sub", "func", "generic"):
            continue  # (only references are probed inside a BLOCK)
        if probe_where == "generic_body_use":
            if k not in ("type", "ctor", "absint"):
                continue  # (an interface body holds declarations only)
            obs = res.get(str(("slot", f"pt{i}" if k != "absint" else f"pp{i}")), "absent")
        elif k == "ctor":
            # both meanings of the name: the type (declaration) and the generic interface (function reference)
            o1, o2 = res.get(str(("slot", f"pt{i}")), "absent"), calls.get(n, "absent")
            obs = o1 if o1 == o2 else (o1 if o1 != exp else o2)
        elif k == "type":
            obs = res.get(str(("slot", f"pt{i}")), "absent")
        elif k == "absint":
            obs = res.get(str(("slot", f"pp{i}")), "absent")
        elif k == "var":
            obs = nlres[nlvars.index(n)] if len(nlres) == len(nlvars) else "absent"
        else:
            obs = calls.get(n, "absent")
        nprobe += 1
        if exp == "unresolved":
            ninacc += 1
        if obs != exp:
            # for generic interfaces FORD resolves to the interface object: id is module::name as well
            why = "accessible_not_resolved" if obs in ("unresolved", "absent") else ("inaccessible_resolved" if exp == "unresolved" else "wrong_entity")
            e2 = acc_ps.get(n)
            ps_id = f"{e2['module'].lower()}::{e2['name'].lower()}" if e2 else "unresolved"
            viol.append({"kf": {"kind": why, "entity_kind": k, "consumer_use_form": use_form_of(n), "probe_where": probe_where,
                                "explained_by_per_statement_use_semantics": obs == ps_id},
                         "w": {"name": n, "expected": exp, "observed": obs, "seed": seed, "order": list(order), "files": files,
                               "tables": r["tables"], "parse_order": r["files_order"]}})
    # the probing scope's own name tables (hooked state): an accessible name is in the table of each kind it stands for
    tb = r.get("tables") or {}
    if tb:
        want = {"type": ["all_types"], "ctor": ["all_types", "all_procs"], "sub": ["all_procs"], "func": ["all_procs"], "generic": ["all_procs"], "absint": ["all_absinterfaces"], "var": ["all_vars"]}
        for n in names:
            e = acc.get(n)
            if e is None:
                continue
            for tname in want[e["kind"]]:
                if n not in tb.get(tname, []):
                    viol.append({"kf": {"kind": "imported_name_missing_from_scope_table", "entity_kind": e["kind"], "table": tname, "consumer_use_form": use_form_of(n), "probe_where": probe_where,
                                        "explained_by_per_statement_use_semantics": False},
                                 "w": {"name": n, "tables": tb, "seed": seed, "order": list(order), "files": files}})
    nontrivial = (feats["reexport"] or feats["rename"]) and ninacc >= 1
    return {"viol": viol, "n_probes": nprobe, "n_inacc": ninacc, "feats": feats, "nontrivial": nontrivial, "hash": core.h([files, list(order)]),
            "sample": {"seed": seed, "shape_edges": sorted(edges), "consumer_source": files[cons["name"] + ".f90"][:1500],
                       "accessible_in_consumer": {n: expected_id(n) for n in names if acc.get(n)}}}


def observe_same_text(item):
    cap = observe.Captured()
    project, cap = observe.parse_and_correlate([item["root"]], cap=cap)
    res = {}
    scopes = []
    for m in project.modules:
        scopes.append(m)
        scopes += list(m.subroutines)
    for p in scopes:
        if not p.name.lower().startswith(("probe_", "cprobe")):
            continue
        r = {}
        for v in p.variables:
            if v.name.lower() == "pv" and v.proto:
                r["type"] = ent_id(v.proto[0])
        for nl in getattr(p, "namelists", []):
            r["var"] = [ent_id(x) for x in nl.variables]
        r["calls"] = sorted(ent_id(c) if not isinstance(c, str) else "unresolved:" + c for c in getattr(p, "calls", []))
        res[p.name.lower()] = r
    return {"res": res, "diags": [w for w in cap.warnings if "Error parsing" in w]}


def case_same_text(seed):
    """Two modules that export equally named entities are used, in different scopes, with textually identical ONLY lists."""
    rng = random.Random(seed)
    S = seed % 9973
    ents = [("type", "st_t"), ("var", "st_n"), ("sub", "st_s"), ("func", "st_f")]
    pick = [e for e in ents if rng.random() < 0.8] or ents[:2]
    items = []
    for k, n in pick:
        items.append(f"l{n} => {n}" if (k in ("func", "sub") and rng.random() < 0.4) else n)
    spec = rng.choice([", only: ", ",only:", ", ONLY : "]) + rng.choice([", ", ","]).join(items)
    provs = [f"ta{S}", f"tb{S}"]
    files = {}
    for pn in provs:
        files[pn + ".f90"] = "\n".join([f"module {pn}", "implicit none", "type :: st_t", "integer :: a", "end type st_t", "integer :: st_n = 1", "contains",
                                        "subroutine st_s()", "end subroutine st_s", "integer function st_f(i)", "integer, intent(in) :: i", "st_f = i", "end function st_f",
                                        f"end module {pn}"]) + "\n"

    def body(pn):
        L = []
        local = {n: (it.split(" => ")[0] if " => " in it else n) for (k, n), it in zip(pick, items)}
        for k, n in pick:
            if k == "type":
                L.append(f"type({local[n]}) :: pv")
            elif k == "var":
                L.append(f"namelist /pnl/ {local[n]}")
        for k, n in pick:
            if k == "sub":
                L.append(f"call {local[n]}()")
            elif k == "func":
                L.append(f"print *, {local[n]}(1)")
        return L

    where = rng.choice(["two_procedures", "two_modules", "module_and_procedure"])
    first, second = (provs if rng.random() < 0.5 else provs[::-1])
    exp = {}
    if where == "two_procedures":
        L = [f"module tc{S}", "implicit none", "contains"]
        for tag, pn in (("a", first), ("b", second)):
            L += [f"subroutine probe_{tag}()", f"use {pn}{spec}"] + body(pn) + [f"end subroutine probe_{tag}"]
            exp[f"probe_{tag}"] = pn
        L.append(f"end module tc{S}")
        files[f"tc{S}.f90"] = "\n".join(L) + "\n"
    elif where == "two_modules":
        for tag, pn in (("a", first), ("b", second)):
            L = [f"module tc{tag}{S}", "implicit none", "contains", f"subroutine probe_{tag}()", f"use {pn}{spec}"] + body(pn) + [f"end subroutine probe_{tag}", f"end module tc{tag}{S}"]
            files[f"tc{tag}{S}.f90"] = "\n".join(L) + "\n"
            exp[f"probe_{tag}"] = pn
    else:
        L = [f"module cprobe{S}", f"use {first}{spec}", "implicit none"] + [x for x in body(first) if x.startswith(("type(", "namelist"))] + ["contains",
             "subroutine probe_b()", f"use {second}{spec}"] + body(second) + ["end subroutine probe_b", f"end module cprobe{S}"]
        files[f"cprobe{S}.f90"] = "\n".join(L) + "\n"
        exp[f"cprobe{S}"] = first
        exp["probe_b"] = second
    base = core.mktemp("vf_c06s_")
    try:
        root = os.path.join(base, "src")
        os.makedirs(root)
        for n, t in files.items():
            open(os.path.join(root, n), "w").write(t)
        st, r = core.run_alone(observe_same_text, {"root": root}, timeout=120)
    finally:
        shutil.rmtree(base, ignore_errors=True)
    if st != "ok":
        return {"viol": [{"kf": {"kind": "harness_" + st}, "w": {"detail": str(r)[-500:], "seed": seed, "files": files}}], "n": 0}
    viol = []
    n = 0
    for scope, pn in exp.items():
        got = r["res"].get(scope.lower(), {})
        for k, nm in pick:
            want = f"{pn}::{nm}"
            if k == "type":
                obs = got.get("type", "absent")
            elif k == "var":
                obs = (got.get("var") or ["absent"])[0]
            else:
                if scope.startswith("cprobe"):
                    continue
                obs = want if want in got.get("calls", []) else "/".join(c for c in got.get("calls", []) if c.endswith("::" + nm)) or "absent"
            n += 1
            if obs != want:
                viol.append({"kf": {"kind": "wrong_entity" if "::" in obs else "accessible_not_resolved", "entity_kind": k, "consumer_use_form": "identical_only_text_for_two_modules",
                                    "probe_where": where, "explained_by_per_statement_use_semantics": False},
                             "w": {"scope": scope, "name": nm, "expected": want, "observed": obs, "seed": seed, "files": files}})
    return {"viol": viol, "n": n}


def case_hub(seed):
    """A scope that uses two modules plainly must not change what either of them exports to scopes correlated later."""
    rng = random.Random(seed)
    S = seed % 9973
    a, b = f"ha{S}", f"hb{S}"
    hub = rng.choice([f"aa_hub{S}", f"hub{S}", f"zz_hub{S}"])
    late = rng.choice([f"zz_late{S}", f"late{S}", f"ab_late{S}"])
    files = {}
    files[a + ".f90"] = f"module {a}\nimplicit none\ntype :: a_t\ninteger :: x\nend type a_t\ninteger :: a_n = 1\ncontains\nsubroutine a_s()\nend subroutine a_s\nend module {a}\n"
    files[b + ".f90"] = f"module {b}\nimplicit none\ntype :: b_t\ninteger :: y\nend type b_t\ninteger :: b_n = 2\ncontains\nsubroutine b_s()\nend subroutine b_s\nend module {b}\n"
    hub_where = rng.choice(["module", "procedure"])
    order = [a, b] if rng.random() < 0.6 else [b, a]
    if hub_where == "module":
        files[hub + ".f90"] = f"module {hub}\nuse {order[0]}\nuse {order[1]}\nimplicit none\nend module {hub}\n"
    else:
        files[hub + ".f90"] = f"module {hub}\nimplicit none\ncontains\nsubroutine hs()\nuse {order[0]}\nuse {order[1]}\nend subroutine hs\nend module {hub}\n"
    first, other = order
    own = rng.random() < 0.5  # the late scope's host has an own entity named like one of the other module's
    ot, on, os_ = ("b_t", "b_n", "b_s") if other == b else ("a_t", "a_n", "a_s")
    L = [f"module {late}", "implicit none"] + ([f"type :: {ot}", "integer :: own", f"end type {ot}"] if own else []) + ["contains", "subroutine probe_l()", f"use {first}",
         f"type({ot}) :: pv", f"namelist /pnl/ {on}" if False else "integer :: dummy", f"call {os_}()", "end subroutine probe_l", f"end module {late}"]
    files[late + ".f90"] = "\n".join(L) + "\n"
    base = core.mktemp("vf_c06h_")
    try:
        root = os.path.join(base, "src")
        os.makedirs(root)
        for n, t in files.items():
            open(os.path.join(root, n), "w").write(t)
        st, r = core.run_alone(observe_same_text, {"root": root}, timeout=120)
    finally:
        shutil.rmtree(base, ignore_errors=True)
    if st != "ok":
        return {"viol": [{"kf": {"kind": "harness_" + st}, "w": {"detail": str(r)[-500:], "seed": seed, "files": files}}], "n": 0}
    got = r["res"].get("probe_l", {})
    viol = []
    want_t = f"{late}::{ot}" if own else "unresolved"
    obs_t = got.get("type", "absent")
    if obs_t != want_t:
        viol.append({"kf": {"kind": "inaccessible_resolved" if "::" in obs_t else "accessible_not_resolved", "entity_kind": "type", "consumer_use_form": "plain_after_hub_used_both",
                            "probe_where": hub_where, "explained_by_per_statement_use_semantics": False},
                     "w": {"name": ot, "expected": want_t, "observed": obs_t, "seed": seed, "files": files}})
    bad_calls = [c for c in got.get("calls", []) if c.endswith("::" + os_)]
    if bad_calls:
        viol.append({"kf": {"kind": "inaccessible_resolved", "entity_kind": "sub", "consumer_use_form": "plain_after_hub_used_both", "probe_where": hub_where,
                            "explained_by_per_statement_use_semantics": False},
                     "w": {"name": os_, "expected": "unresolved", "observed": bad_calls, "seed": seed, "files": files}})
    return {"viol": viol, "n": 2}


def observe_units(item):
    cap = observe.Captured()
    project, cap = observe.parse_and_correlate([item["root"]], cap=cap)
    res = {}

    def callid(c):
        if isinstance(c, str):
            return "unresolved:" + c.lower()
        owner = getattr(c, "parent", None)
        if type(owner).__name__ == "FortranType":
            return f"{ent_id(owner)}%{c.name.lower()}"
        return ent_id(c)

    scopes = list(project.programs) + list(project.blockdata) + list(project.procedures) + [q for m in project.modules for q in m.subroutines]
    for p in scopes:
        if not p.name.lower().startswith("uprobe"):
            continue
        r = {"calls": sorted(callid(c) for c in getattr(p, "calls", []))}
        for v in list(p.variables) + [x for c in getattr(p, "common", []) for x in c.variables if not isinstance(x, str)]:
            if v.name.lower() == "bv":
                r["type"] = ent_id(v.proto[0]) if v.proto else "absent"
        res[p.name.lower()] = r
    return {"res": res, "diags": [w for w in cap.warnings if "Error parsing" in w], "files_order": [f.name for f in project.files]}


def case_units(seed):
    """A variable imported by USE keeps the type its declaring module gave it, whatever the type's name means in the importing scope
    (call of a type-bound procedure through the imported variable); and every kind of program unit - also BLOCK DATA - obtains names from its USE statements."""
    rng = random.Random(seed)
    S = seed % 9973
    sh, oc, rl = f"ush{S}", f"uoc{S}", f"url{S}"
    files = {}
    files[sh] = "\n".join([f"module {sh}", "implicit none"] + (["private", "public :: surface, canvas"] if rng.random() < 0.5 else []) + [
        "type surface", "integer :: depth = 0", "contains", "procedure :: paint => paint_surface", "end type surface", "type(surface) :: canvas", "contains",
        "subroutine paint_surface(self)", "class(surface), intent(in) :: self", "end subroutine paint_surface", f"end module {sh}"]) + "\n"
    files[oc] = "\n".join([f"module {oc}", "implicit none", "type surface", "contains", "procedure :: paint => paint_water", "end type surface",
                           "type waves", "contains", "procedure :: paint => paint_waves", "end type waves", "contains",
                           "subroutine paint_water(self)", "class(surface), intent(in) :: self", "end subroutine paint_water",
                           "subroutine paint_waves(self)", "class(waves), intent(in) :: self", "end subroutine paint_waves", f"end module {oc}"]) + "\n"
    via = rng.choice([sh, rl])
    if via == rl:
        files[rl] = f"module {rl}\nuse {sh}\nimplicit none\nend module {rl}\n"
    vform = rng.choice(["plain", "only", "only_rename", "rename"])
    vname = "board" if "rename" in vform else "canvas"
    vuse = {"plain": f"use {via}", "only": f"use {via}, only: canvas", "only_rename": f"use {via}, only: board => canvas", "rename": f"use {via}, board => canvas"}[vform]
    decoy = rng.choice(["none", "only", "rename", "own_type"]) if vform in ("only", "only_rename") else rng.choice(["none", "none", "own_type"]) if vform == "plain" or vform == "rename" else "none"
    if vform in ("plain", "rename"):
        decoy = "none"  # (the name `surface` itself is imported: a second meaning would be a conflict)
    duse = {"none": [], "only": [f"use {oc}, only: surface"], "rename": [f"use {oc}, surface => waves"], "own_type": []}[decoy]
    uses = [vuse] + duse
    if rng.random() < 0.5:
        uses.reverse()
    unit = rng.choice(["program", "module_procedure", "external"])
    own = ["type surface", "contains", "procedure, nopass :: paint => paint_own", "end type surface"] if decoy == "own_type" else []
    body = ["implicit none"] + own + [f"call {vname}%paint()"]
    if unit == "program":
        L = [f"program uprobe{S}"] + uses + body + (["contains", "subroutine paint_own()", "end subroutine paint_own"] if own else []) + [f"end program uprobe{S}"]
    elif unit == "external":
        L = [f"subroutine uprobe{S}()"] + uses + body + (["contains", "subroutine paint_own()", "end subroutine paint_own"] if own else []) + [f"end subroutine uprobe{S}"]
    else:
        L = [f"module ucm{S}", "implicit none", "contains", f"subroutine uprobe{S}()"] + uses + body + (["contains", "subroutine paint_own()", "end subroutine paint_own"] if own else []) + [f"end subroutine uprobe{S}", f"end module ucm{S}"]
    files["consumer"] = "\n".join(L) + "\n"
    # BLOCK DATA unit with a USE statement
    tform = rng.choice(["plain", "only", "only_rename", "rename"])
    tname = "lt" if "rename" in tform else "surface"
    tuse = {"plain": f"use {via}", "only": f"use {via}, only: surface", "only_rename": f"use {via}, only: lt => surface", "rename": f"use {via}, lt => surface"}[tform]
    files["bdata"] = "\n".join([f"block data uprobebd{S}", tuse, "implicit none", f"type({tname}) :: bv", f"common /ucb{S}/ bv", f"end block data uprobebd{S}"]) + "\n"
    names = list(files)
    rng.shuffle(names)
    base = core.mktemp("vf_c06u_")
    try:
        root = os.path.join(base, "src")
        os.makedirs(root)
        for rank, n in enumerate(names):
            open(os.path.join(root, f"f{rank}_{n}.f90"), "w").write(files[n])
        st, r = core.run_alone(observe_units, {"root": root}, timeout=120)
    finally:
        shutil.rmtree(base, ignore_errors=True)
    if st != "ok":
        return {"viol": [{"kf": {"kind": "harness_" + st}, "w": {"detail": str(r)[-500:], "seed": seed, "files": files}}], "n": 0, "feat": None}
    viol = []
    got = r["res"].get(f"uprobe{S}", {})
    want = f"{sh}::surface%paint"
    if got.get("calls") != [want]:
        viol.append({"kf": {"kind": "wrong_entity" if any("%" in c for c in got.get("calls", [])) else "accessible_not_resolved", "entity_kind": "binding_through_imported_variable",
                            "consumer_use_form": vform, "probe_where": unit + ":decoy_" + decoy, "explained_by_per_statement_use_semantics": False},
                     "w": {"expected": [want], "observed": got.get("calls"), "seed": seed, "files": files, "parse_order": r["files_order"]}})
    gotb = r["res"].get(f"uprobebd{S}", {})
    wantb = f"{sh}::surface"
    if gotb.get("type") != wantb:
        viol.append({"kf": {"kind": "accessible_not_resolved" if "::" not in str(gotb.get("type")) else "wrong_entity", "entity_kind": "type", "consumer_use_form": tform,
                            "probe_where": "block_data", "explained_by_per_statement_use_semantics": False},
                     "w": {"expected": wantb, "observed": gotb.get("type", "absent"), "seed": seed, "files": files, "parse_order": r["files_order"]}})
    return {"viol": viol, "n": 2, "feat": f"{unit}/{vform}/{decoy}/{tform}"}


def all_shapes(nprov):
    nodes = nprov + 1
    pairs = [(i, j) for j in range(nodes) for i in range(j)]
    for bits in range(1 << len(pairs)):
        edges = {p for b, p in enumerate(pairs) if bits >> b & 1}
        # consumer must use something
        if not any(j == nprov for (i, j) in edges):
            continue
        yield edges


def main():
    run = core.Run(
        PID,
        rule="case = (module DAG shape over <=3 providers + consumer [exhaustive], decoration seed: default public/private, explicit "
        "public lists for re-export, per-entity access, USE form per edge from {plain, only, empty only, rename, only+rename, non_intrinsic, two "
        "USEs of one module}, USE at module level or inside the probing procedure, permutation of file order). Every candidate "
        "name (entities of all modules and rename locals) is probed in the consumer: type(n), procedure(n) pointer, namelist member, "
        "call / function reference. Non-trivial: a re-export or rename is involved and >=1 inaccessible candidate is probed; "
        "distinct by hash of sources + order.",
        assumptions=[
            "vf.checks.c06.imports/exports implement F2008 11.2.2 (ONLY, rename, several USE statements, re-export under default/explicit PUBLIC)",
            "probes of inaccessible names are references to undeclared names; FORD must leave them unresolved",
            "entity names are unique across modules (no ambiguity through two paths), except in the separate cases where two modules exporting equal names are used "
            "in different scopes with textually identical ONLY lists",
            "file order is injected through the file names (FORD parses source files in sorted path order)",
        ],
    )
    rp = core.replay_arg()
    if rp:
        w = json.load(open(rp))
        a = w["witness"]["arg"]
        r = case_same_text(a[1]) if a[0] == "same_text" else case_hub(a[1]) if a[0] == "hub" else case_units(a[1]) if a[0] == "units" else case((a[0], frozenset(tuple(e) for e in a[1]), a[2], a[3], a[4], tuple(a[5])))
        known = core.load_known(PID)
        bad = [v for v in r["viol"] if core.match_known(known, v["kf"]) is None]
        print("replay:", "VIOLATION" if bad else "held")
        for v in bad[:8]:
            print(json.dumps({k: x for k, x in v["w"].items() if k not in ("files", "tables")}, default=str)[:400])
        sys.exit(1 if bad else 0)
    thorough = run.tier == "thorough"
    rng = random.Random(run.seed * 13 + 1)
    args = []
    sid = 0
    for nprov in (1, 2, 3):
        for edges in all_shapes(nprov):
            sid += 1
            nseeds = (8 if thorough else 4) if nprov == 3 else (12 if thorough else 6)
            for k in range(nseeds):
                seed = run.seed * 1000003 + sid * 31 + k
                perms = list(itertools.permutations(range(nprov + 1)))
                if not thorough:
                    perms = rng.sample(perms, min(len(perms), 2 if nprov == 3 else 3))
                for order in perms:
                    args.append((sid, frozenset(edges), nprov, seed, rng.choice(["module_use", "module_use", "procedure_use", "nested_use", "generic_body_use", "block_use"]), order))
    results = core.fork_map(case, args, per_case_fork=False, case_timeout=300, total_timeout=3400)
    shapes_seen = set()
    for a, (st, r) in zip(args, results):
        if st != "ok":
            run.inconc(f"{st}: {str(r)[-300:]}")
            continue
        run.case(key=r["hash"], nontrivial=r["nontrivial"], sample=r["sample"] if r["nontrivial"] and a[2] == 3 else None)
        run.count("probes_compared", r["n_probes"])
        run.count("probes_of_inaccessible_names", r["n_inacc"])
        shapes_seen.add((a[2], tuple(sorted(a[1]))))
        run.seen("file_orders", str(a[5]))
        for f in r["feats"]["forms"]:
            run.seen("use_forms", f)
        for v in r["viol"]:
            v["w"]["arg"] = [a[0], sorted(a[1]), a[2], a[3], a[4], list(a[5])]
            run.violation(v["kf"], v["w"])
    seeds2 = [run.seed * 7919 + i for i in range(400 if thorough else 60)]
    for sd, (st, r) in zip(seeds2, core.fork_map(case_same_text, seeds2, per_case_fork=False, case_timeout=300)):
        if st != "ok":
            run.inconc(f"same_text {st}: {str(r)[-300:]}")
            continue
        run.case(key=f"same_text{sd}", nontrivial=r["n"] >= 2)
        run.count("probes_compared_identical_only_text", r["n"])
        for v in r["viol"]:
            v["w"]["arg"] = ["same_text", sd]
            run.violation(v["kf"], v["w"])
    seeds3 = [run.seed * 104729 + i for i in range(300 if thorough else 60)]
    for sd, (st, r) in zip(seeds3, core.fork_map(case_hub, seeds3, per_case_fork=False, case_timeout=300)):
        if st != "ok":
            run.inconc(f"hub {st}: {str(r)[-300:]}")
            continue
        run.case(key=f"hub{sd}", nontrivial=True)
        run.count("probes_compared_after_hub", r["n"])
        for v in r["viol"]:
            v["w"]["arg"] = ["hub", sd]
            run.violation(v["kf"], v["w"])
    seeds4 = [run.seed * 15485863 + i for i in range(600 if thorough else 120)]
    for sd, (st, r) in zip(seeds4, core.fork_map(case_units, seeds4, per_case_fork=False, case_timeout=300)):
        if st != "ok":
            run.inconc(f"units {st}: {str(r)[-300:]}")
            continue
        run.case(key=f"units{sd}", nontrivial=True)
        run.count("probes_compared_through_imported_variable_and_block_data", r["n"])
        if r.get("feat"):
            run.seen("unit_x_use_form_x_decoy", r["feat"])
        for v in r["viol"]:
            v["w"]["arg"] = ["units", sd]
            run.violation(v["kf"], v["w"])
    run.extra["module_graph_shapes"] = len(shapes_seen)
    run.extra["exhaustive"] = False
    run.extra["exhaustive_part"] = "all DAG shapes over <=3 provider modules + consumer (72 shapes); decoration and file orders sampled" + (" (all permutations in thorough)" if thorough else "")
    run.max_samples = 2
    run.finish(floors={"evaluations": 200, "distinct_nontrivial": 60, "probes_compared": 2000, "probes_of_inaccessible_names": 300, "use_forms": 6, "file_orders": 10, "probes_compared_identical_only_text": 100, "probes_compared_after_hub": 100,
                      "probes_compared_through_imported_variable_and_block_data": 200, "unit_x_use_form_x_decoy": 30})


if __name__ == "__main__":
    main()
