"""C01 - the documented entity tree equals the declared program structure.

Runtime monitor: generated program models are rendered in several equivalent spellings, parsed and
correlated by the real FORD (forked child per case); the object tree is canonicalised
(vf.observe.tree) and compared (1) between spellings (metamorphic) and (2) with the table derived
from the model (reference).  Diagnostics (warn / print_error / "Error parsing") are recorded.
"""
from __future__ import annotations

import json
import os
import random
import shutil
import sys

from vf import core

ford = core.setup_env()
from vf import fgen, genmodels, layout, observe  # noqa: E402

PID = "C01"

IGNORE_FIELDS = ("doc", "calls")  # documentation is C03's subject, calls C08's  # documentation attachment is C03's subject


def write_project(root, files, style, lay: layout.Layout, ext="f90"):
    os.makedirs(root, exist_ok=True)
    texts = {}
    for f in files:
        stmts = fgen.render_file(f, style)
        text = lay.free(stmts)
        name = f"{f.name}.{ext}"
        d = os.path.join(root, f.subdir) if f.subdir else root
        os.makedirs(d, exist_ok=True)
        with open(os.path.join(d, name), "w") as fh:
            fh.write(text)
        texts[name] = text
    return texts


def observe_case(item):
    """Runs in a forked child: parse + correlate one rendering; return canonical table + diagnostics."""
    root = item["root"]
    cap = observe.Captured()
    try:
        project, cap = observe.parse_and_correlate(item.get("src_dirs") or [root], settings_kw=item.get("settings"), cap=cap)
        table = observe.tree(project)
        err = None
    except BaseException as e:  # FORD must not fail on valid input
        import traceback

        table = None
        err = f"{type(e).__name__}: {e}\n" + traceback.format_exc()[-1500:]
    diags = [w for w in cap.warnings if "Error parsing" in w or "ERROR" in w]
    diags += [l for l in cap.stdout.splitlines() if l.startswith("ERROR in file") or "Error parsing" in l]
    return {"table": table, "error": err, "diags": diags[:10], "warnings": cap.warnings[:20]}


def mechanism(path, field, ev, ov):
    """Coarse, input-derived classification used for known-finding keys."""
    leaf = path.rsplit("/", 1)[-1].split(":")[0]
    return {"entity": leaf, "field": field}


def run_model(seed, nstyles, keep_dir=None):
    files = genmodels.gen_project(seed, docs=True)
    expected = {}
    for f in files:
        expected.update(fgen.expect_file(f, f"{f.name}.f90"))
    base = keep_dir or core.mktemp("vf_c01_")
    items = []
    styles = [("plain", fgen.Style.plain())] + [(f"s{k}", fgen.Style(seed * 101 + k)) for k in range(1, nstyles)]
    texts = {}
    for sname, st in styles:
        root = os.path.join(base, sname)
        texts[sname] = write_project(root, files, st, layout.Layout(seed, plain=True))
        items.append({"root": root, "style": sname})
    # the last random spelling again, (a) under the project option `lower: true` (names and keywords are lower-cased by FORD,
    # character literals must keep their spelling), (b) laid out with continuations (also `token&` / `&  token` and breaks
    # inside literals), `;`, comments and blank lines
    srng = random.Random(seed * 5 + 3)
    items.append({"root": items[-1]["root"], "style": styles[-1][0] + "+lower", "settings": {"lower": True, "sort": srng.choice(["alpha", "permission", "permission-alpha", "type", "type-alpha", "src"])}})
    texts[items[-1]["style"]] = texts[styles[-1][0]]
    # the canonical rendering once more with source directories that overlap (the same directory twice, a directory and its sub-directory):
    # every file is one file
    subdirs = sorted({f.subdir for f in files if f.subdir})
    plain_root = items[0]["root"]
    items.append({"root": plain_root, "style": "plain+overlapping_src_dirs", "src_dirs": [plain_root] + ([os.path.join(plain_root, subdirs[0])] if subdirs and srng.random() < 0.7 else [plain_root])})
    texts["plain+overlapping_src_dirs"] = texts["plain"]
    root = os.path.join(base, "laid_out")
    lay = layout.Layout(seed + 17, plain=False, cont_p=0.3, comment_p=0.1, semi_p=0.1, lit_break_p=0.3)
    texts["laid_out"] = write_project(root, files, fgen.Style(seed * 101 + 7), lay)
    items.append({"root": root, "style": "laid_out"})
    return files, expected, items, texts, base


def case(seed_nstyles):
    seed, nstyles = seed_nstyles
    files, expected, items, texts, base = run_model(seed, nstyles)
    try:
        results = [observe_case(it) if False else core.run_alone(observe_case, it, timeout=120) for it in items]
    finally:
        shutil.rmtree(base, ignore_errors=True)
    viol = []
    tables = {}
    kinds = set(d.get("kind") for d in expected.values())
    nattr = sum(1 for d in expected.values() if d.get("attribs") or d.get("kind_") or d.get("initial"))
    for it, (st, r) in zip(items, results):
        sname = it["style"]
        if st != "ok":
            viol.append({"kf": {"kind": "harness_" + st}, "w": {"style": sname, "detail": str(r)[-500:]}})
            continue
        if r["error"]:
            viol.append({"kf": {"kind": "ford_failed", "error": r["error"].split(":")[0]}, "w": {"style": sname, "error": r["error"], "files": texts[sname]}})
            continue
        if r["diags"]:
            viol.append({"kf": {"kind": "diagnostic_on_valid_input", "diag": r["diags"][0].split("\n")[0][:60]}, "w": {"style": sname, "diags": r["diags"], "files": texts[sname]}})
        exp_here = expected
        if (it.get("settings") or {}).get("sort", "src") != "src":
            # `sort` is documented to order the listed entities, members of COMMON blocks and NAMELIST groups among them: those lists are
            # compared as sets in this rendering (argument lists keep their order whatever `sort` says)
            def unorder(t):
                return {k: ({**v, "vars": sorted(v["vars"])} if isinstance(v, dict) and v.get("kind") in ("common", "namelist") and isinstance(v.get("vars"), list) else v) for k, v in t.items()}

            r["table"], exp_here = unorder(r["table"]), unorder(expected)
        else:
            tables[sname] = r["table"]
        diffs = observe.diff_tables(exp_here, r["table"], ignore_keys=IGNORE_FIELDS)
        seen = set()
        for path, field, ev, ov in diffs:
            kf = {"kind": "reference_mismatch", **mechanism(path, field, ev, ov)}
            key = json.dumps(kf, sort_keys=True)
            if key in seen:
                continue
            seen.add(key)
            viol.append({"kf": kf, "w": {"style": sname, "path": path, "field": field, "expected": ev, "observed": ov,
                                         "files": texts[sname], "seed": seed}})
    # metamorphic: all spellings give the same table
    names = list(tables)
    for other in names[1:]:
        diffs = observe.diff_tables(tables[names[0]], tables[other], ignore_keys=IGNORE_FIELDS)
        seen = set()
        for path, field, ev, ov in diffs:
            kf = {"kind": "spellings_disagree", **mechanism(path, field, ev, ov)}
            key = json.dumps(kf, sort_keys=True)
            if key in seen:
                continue
            seen.add(key)
            viol.append({"kf": kf, "w": {"styles": [names[0], other], "path": path, "field": field, "a": ev, "b": ov,
                                         "file_a": texts[names[0]], "file_b": texts[other], "seed": seed}})
    return {"viol": viol, "entities": len(expected), "kinds": sorted(k for k in kinds if k), "nattr": nattr,
            "nontrivial": len(kinds) >= 3 and nattr >= 1, "hash": core.h(texts),
            "sample": {"seed": seed, "plain_rendering": next(iter(texts["plain"].values()))[:1500], "entities": len(expected)}}


def observe_extra_types(item):
    cap = observe.Captured()
    project, cap = observe.parse_and_correlate([item["root"]], settings_kw={"extra_vartypes": item["extra"]}, cap=cap)
    out = {}
    for m in project.modules:
        for v in m.variables:
            out[v.name.lower()] = v.vartype.lower()
        for p in m.subroutines + m.functions:
            for v in list(p.variables) + [a for a in p.args if hasattr(a, "vartype")]:
                out[p.name.lower() + "/" + v.name.lower()] = v.vartype.lower()
            if getattr(p, "retvar", None) is not None and hasattr(p.retvar, "vartype"):
                out[p.name.lower() + "/result"] = p.retvar.vartype.lower()
    return out


def case_extra_types(seed):
    """Declarations with user-defined type names (option `extra_vartypes`, e.g. macro names of an unpreprocessed source): names that begin
    with one another or with an intrinsic type name, listed in any order."""
    rng = random.Random(seed)
    stems = rng.sample(["FLOAT", "MYREAL", "real_t", "INTEGER8", "handle", "Complex_Field", "ptr"], 3)
    names = list(stems)
    for s_ in stems:
        if rng.random() < 0.7:
            names.append(s_ + rng.choice(["_PTR", "_ARR", "2", "x", "_t"]))
    names = list(dict.fromkeys(names))
    opt = list(names)
    rng.shuffle(opt)
    expected, L, body = {}, [f"module xt{seed % 1000}", "implicit none"], []
    for i, t in enumerate(names):
        spell = rng.choice([t, t.lower(), t.upper()])
        form = rng.choice(["colons", "colons_tight", "attr", "blank"])
        decl = {"colons": f"{spell} :: v{i}", "colons_tight": f"{spell}::v{i}", "attr": f"{spell}, save :: v{i}", "blank": f"{spell} v{i}"}[form]
        L.append(decl)
        expected[f"v{i}"] = t.lower()
        body += [f"{spell}, intent(in) :: a{i}"]
        expected[f"xs/a{i}"] = t.lower()
    L += ["contains", "subroutine xs(" + ", ".join(f"a{i}" for i in range(len(names))) + ")"] + body + ["end subroutine xs", f"end module xt{seed % 1000}"]
    text = "\n".join(L) + "\n"
    base = core.mktemp("vf_c01x_")
    try:
        open(os.path.join(base, "x.f90"), "w").write(text)
        st, r = core.run_alone(observe_extra_types, {"root": base, "extra": opt}, timeout=120)
    finally:
        shutil.rmtree(base, ignore_errors=True)
    viol = []
    if st != "ok":
        viol.append({"kf": {"kind": "ford_failed" if st == "raise" else "harness_" + st, "error": "extra_vartypes"}, "w": {"detail": str(r)[-600:], "file": text, "extra_vartypes": opt, "seed": seed}})
    elif r != expected:
        bad = sorted(set(expected) ^ set(r)) + [k for k in expected if k in r and r[k] != expected[k]]
        viol.append({"kf": {"kind": "reference_mismatch", "entity": "variable", "field": "user_defined_type_name"},
                     "w": {"expected": expected, "observed": r, "differs": bad[:6], "file": text, "extra_vartypes": opt, "seed": seed, "case": "extra_types"}})
    return {"viol": viol, "n": len(expected)}


def main():
    run = core.Run(
        PID,
        rule="case = one generated project model (1-4 files; modules, submodules, programs, external procedures, block data; "
        "types with components/bindings/generics/finals; generic/abstract/explicit interfaces; enums, common, namelists; every "
        "intrinsic type and kind/len spelling; attribute forms) rendered in a canonical spelling + seeded random spellings "
        "(keyword/identifier case, :: or not, attribute on declaration vs separate statement, kind/len spellings, END spellings), "
        "one of them also parsed with `lower: true`, plus one rendering laid out with continuations (with/without leading `&`, "
        "`token&`/`&  token`, breaks inside character literals), `;`, ordinary comments and blank lines. "
        "Non-trivial: >=3 entity kinds and >=1 compared attribute beyond the name; distinct by hash of the rendered sources.",
        assumptions=[
            "the model is the ground truth; vf.fgen.expect_file is the reference table (independent of spelling)",
            "only constructs of the supported subset are generated (no implicit typing of locals, DATA, EQUIVALENCE, non-default IMPLICIT)",
            "documentation words are not compared here (C03)",
        ],
    )
    rp = core.replay_arg()
    if rp:
        w = json.load(open(rp))["witness"]
        seed = w.get("seed")
        r = case_extra_types(seed) if w.get("case") == "extra_types" else case((seed, 3))
        print("replay:", "VIOLATION" if r["viol"] else "held")
        for v in r["viol"][:10]:
            print(json.dumps({k: x for k, x in v["w"].items() if not k.startswith("file")}, default=str)[:600])
        sys.exit(1 if r["viol"] else 0)
    thorough = run.tier == "thorough"
    n = 3000 if thorough else 320
    nstyles = 3
    seeds = [(run.seed * 100003 + i, nstyles) for i in range(n)]
    results = core.fork_map(case, seeds, per_case_fork=False, case_timeout=300, total_timeout=3400)
    for (seed, _), (st, r) in zip(seeds, results):
        if st != "ok":
            run.inconc(f"{st}: {str(r)[-300:]}")
            continue
        run.case(key=r["hash"], nontrivial=r["nontrivial"], sample=r["sample"] if r["entities"] > 25 else None)
        run.count("entities_compared", r["entities"] * (nstyles + 3))
        run.count("renderings_parsed", nstyles + 3)
        for k in r["kinds"]:
            run.seen("entity_kinds", k)
        for v in r["viol"]:
            run.violation(v["kf"], v["w"])
    seeds_x = [run.seed * 7919 + i for i in range(600 if thorough else 100)]
    for sd, (st, r) in zip(seeds_x, core.fork_map(case_extra_types, seeds_x, per_case_fork=False, case_timeout=120)):
        if st != "ok":
            run.inconc(f"extra_types {st}: {str(r)[-300:]}")
            continue
        run.count("declarations_with_user_defined_type_names_compared", r["n"])
        for v in r["viol"]:
            run.violation(v["kf"], v["w"])
    run.max_samples = 2
    run.finish(floors={"evaluations": 200, "distinct_nontrivial": 150, "entity_kinds": 15, "entities_compared": 10000, "declarations_with_user_defined_type_names_compared": 300})


if __name__ == "__main__":
    if len(sys.argv) > 2 and sys.argv[1] == "--debug":
        seed = int(sys.argv[2])
        keep = f"/tmp/c01dbg_{seed}"
        shutil.rmtree(keep, ignore_errors=True)
        files, expected, items, texts, base = run_model(seed, 3, keep_dir=keep)
        for it in items:
            st, r = core.run_alone(observe_case, it)
            print("==", it["style"], st, (r or {}).get("error") if st == "ok" else r)
            if st == "ok" and r["table"] is not None:
                for d in observe.diff_tables(expected, r["table"], ignore_keys=IGNORE_FIELDS)[:40]:
                    print("   ", d)
                print("   diags", r["diags"][:3])
        sys.exit(0)
    main()
