"""C19 - a run touches nothing outside its output directory.

Runtime monitor on the real `python -m ford` CLI (subprocess).  A sitecustomize module injected through
PYTHONPATH installs sys.addaudithook in the FORD process: it logs every mutating file-system event (open for
writing, mkdir, rmdir, remove, rename, symlink, link, chmod, utime, truncate, shutil.rmtree/copyfile/copytree/move,
process creation) and - fault injection - can raise OSError at the k-th mutating event.  Around each run the
whole sandbox tree is snapshotted (sha256, type, mode, symlink target).  Oracles: (1) the snapshot outside
output_dir/graph_dir is unchanged, whatever the options and wherever the run fails; (2) no logged mutating
event resolves outside them; (3) when a source directory lies inside the output directory the run refuses
before any mutating event inside the sandbox.  Thorough tier adds `strace -f -e trace=file` on a few runs to see
what the `dot` children open for writing.
"""
from __future__ import annotations

import hashlib
import json
import os
import random
import shutil
import stat
import subprocess
import sys

from vf import core

ford = core.setup_env()
from vf import site  # noqa: E402

PID = "C19"
AUDIT_DIR = os.path.join(core.VERIF, "vf", "audit_site")

PLACEMENTS = ["sibling", "nested", "absolute", "symlink", "dotdot", "inside_src", "stale_output", "stale_blank_in_name"]
TWO_PATH = ("os.rename", "shutil.move", "shutil.copyfile", "shutil.copytree", "os.symlink", "os.link", "shutil.copymode", "shutil.copystat")
SRC_FIRST = ("shutil.copyfile", "shutil.copytree", "os.symlink", "os.link", "shutil.copymode", "shutil.copystat")
REFUSALS = ["equals_src", "parent_of_src", "grandparent_of_second_src", "symlinked_parent_of_src"]
BLOCKED = ["file_in_the_way"]  # the output directory cannot be made: the run fails and leaves everything as it was


def snapshot(root, exclude):
    """path -> (type, mode, digest / link target). `exclude` = list of real paths whose subtree is skipped."""
    snap = {}
    ex = [os.path.realpath(e) for e in exclude]

    def skipped(p):
        rp = os.path.realpath(p) if not os.path.islink(p) else os.path.join(os.path.realpath(os.path.dirname(p)), os.path.basename(p))
        return any(rp == e or rp.startswith(e + os.sep) for e in ex)

    for dp, dn, fn in os.walk(root, followlinks=False):
        dn[:] = [d for d in dn if not skipped(os.path.join(dp, d))]
        for name in dn + fn:
            p = os.path.join(dp, name)
            if skipped(p):
                continue
            st = os.lstat(p)
            rel = os.path.relpath(p, root)
            if stat.S_ISLNK(st.st_mode):
                snap[rel] = ("link", os.readlink(p))
            elif stat.S_ISDIR(st.st_mode):
                snap[rel] = ("dir", stat.S_IMODE(st.st_mode))
            else:
                snap[rel] = ("file", stat.S_IMODE(st.st_mode), hashlib.sha256(open(p, "rb").read()).hexdigest())
    return snap


def build_sandbox(root, rng, placement, opts_on):
    """Returns (project dir, project file options, allowed dirs [paths as given], expect_refusal)"""
    proj = os.path.join(root, "proj")
    os.makedirs(os.path.join(proj, "src", "sub"))
    open(os.path.join(proj, "src", "a.f90"), "w").write("module cmod_a\n!! doc a\ninteger :: va\n!! doc\ncontains\nsubroutine sa()\n!! doc\nend subroutine\nend module cmod_a\n")
    open(os.path.join(proj, "src", "sub", "b.f90"), "w").write("module cmod_b\n!! doc b\nuse cmod_a\ncontains\nsubroutine sb()\n!! doc\ncall sa()\nend subroutine\nend module cmod_b\n")
    open(os.path.join(proj, "src", "p.f90"), "w").write("program cprog\n!! doc\nuse cmod_b\ncall sb()\nend program cprog\n")
    if opts_on.get("lonely_sources"):
        # one module without any relation to anything: every graph is trivial (nothing to save)
        for rel in (("src", "sub", "b.f90"), ("src", "p.f90")):
            os.remove(os.path.join(proj, *rel))
        open(os.path.join(proj, "src", "a.f90"), "w").write("module cmod_a\n!! doc a\ninteger :: va\n!! doc\nend module cmod_a\n")
    os.makedirs(os.path.join(root, "bystander"))
    open(os.path.join(root, "bystander", "keep.txt"), "w").write("keep me\n")
    open(os.path.join(proj, "keep.dat"), "w").write("data\n")
    os.makedirs(os.path.join(proj, "other_dir"))
    open(os.path.join(proj, "other_dir", "x.f90"), "w").write("! not a source dir\n")
    os.makedirs(os.path.join(root, "work"))
    opts = {"project": "Confine", "src_dir": "./src", "preprocess": False, "parallel": 0, "quiet": bool(opts_on.get("quiet"))}
    if opts_on.get("page_dir"):
        pd = os.path.join(proj, "pages")
        os.makedirs(os.path.join(pd, "sub", "assets"))
        # (an entry that climbs out of the page directory has no place inside the output: it must not be mirrored outside it)
        esc = f"\n    ../../bystander\n    ../other_dir\n    {os.path.join(proj, 'other_dir')}" if opts_on.get("escaping_copy_subdir") else ""
        # (likewise a sub-page named by a path that leaves the page directory; the directory it would be mirrored to exists)
        osp = ""
        if opts_on.get("outside_subpage"):
            os.makedirs(os.path.join(root, "shared_notes"), exist_ok=True)
            os.makedirs(os.path.join(proj, "shared_notes"), exist_ok=True)
            open(os.path.join(root, "shared_notes", "todo.md"), "w").write("title: Todo\n\na page file outside the page directory\n")
            osp = f"\nordered_subpage: {os.path.join(root, 'shared_notes', 'todo.md')}\n    extra.md"
        open(os.path.join(pd, "index.md"), "w").write(f"title: Top\ncopy_subdir: shared{esc}{osp}\n\ntext [sub](sub/index.html)\n")
        os.makedirs(os.path.join(pd, "shared"))
        open(os.path.join(pd, "shared", "s.css"), "w").write("body{}\n")
        open(os.path.join(pd, "notes.txt"), "w").write("notes\n")
        open(os.path.join(pd, "extra.md"), "w").write("title: Extra\n\ngenerated from markdown\n")
        open(os.path.join(pd, "extra.html"), "w").write("<html>the user's own file with the name of a generated page</html>\n")
        open(os.path.join(pd, "sub", "index.md"), "w").write("title: Sub\ncopy_subdir: assets\n\ntext\n")
        open(os.path.join(pd, "sub", "assets", "i.png"), "wb").write(b"PNG1")
        if opts_on.get("hostile_inputs"):
            os.symlink("nowhere.png", os.path.join(pd, "sub", "assets", "dangling.png"))
            os.symlink(os.path.join(root, "bystander"), os.path.join(pd, "shared", "to_bystander"))
            os.chmod(os.path.join(pd, "notes.txt"), 0o444)
        if opts_on.get("linked_page_subdir"):
            # a sub-directory of the page directory that is a symbolic link to a directory outside it (documentation shared between projects)
            os.makedirs(os.path.join(root, "shared_guide", "figs"))
            open(os.path.join(root, "shared_guide", "index.md"), "w").write("title: Guide\ncopy_subdir: figs\n\nshared guide text\n")
            open(os.path.join(root, "shared_guide", "more.md"), "w").write("title: More\n\nmore text\n")
            open(os.path.join(root, "shared_guide", "attach.txt"), "w").write("attachment\n")
            open(os.path.join(root, "shared_guide", "figs", "f.png"), "wb").write(b"PNG3")
            os.symlink(os.path.join("..", "..", "shared_guide"), os.path.join(pd, "guide"))
        opts["page_dir"] = "./pages"
        if opts_on.get("copy_subdir"):
            opts["copy_subdir"] = ["shared"]
    if opts_on.get("media_dir"):
        mrel = "docs/assets/media" if opts_on.get("deep_media") else "media"
        os.makedirs(os.path.join(proj, mrel, "deep"))
        open(os.path.join(proj, mrel, "logo.png"), "wb").write(b"PNG2")
        open(os.path.join(proj, mrel, "deep", "x.bin"), "wb").write(b"\x00\x01")
        if opts_on.get("deep_media"):
            # relative links that are valid where they stand (a file of the project, a file beside it) and would point elsewhere from <output>/media
            open(os.path.join(proj, "big_original.png"), "wb").write(b"PNG-BIG")
            os.symlink("../../../big_original.png", os.path.join(proj, mrel, "big.png"))
            os.symlink("../../../../bystander/keep.txt", os.path.join(proj, mrel, "deep", "kept.txt"))
        opts["media_dir"] = "./" + mrel
    if opts_on.get("html_template_dir"):
        # the user's own template directory (an input): nothing may be left in it
        os.makedirs(os.path.join(proj, "my_templates"))
        open(os.path.join(proj, "my_templates", "README.txt"), "w").write("overrides go here\n")
        shutil.copy(os.path.join(os.path.dirname(ford.__file__), "templates", "search.html"), os.path.join(proj, "my_templates", "search.html"))
        opts["html_template_dir"] = ["./my_templates"]
    if opts_on.get("css"):
        open(os.path.join(proj, "custom.css"), "w").write("h1{color:red}\n")
        opts["css"] = "./custom.css"
    if opts_on.get("favicon"):
        open(os.path.join(proj, "fav.png"), "wb").write(b"ICO")
        opts["favicon"] = "./fav.png"
    if opts_on.get("mathjax_config"):
        open(os.path.join(proj, "mj.js"), "w").write("window.MathJax = {};\n")
        opts["mathjax_config"] = "./mj.js"
    for k in ("incl_src", "externalize", "search", "graph"):
        opts[k] = bool(opts_on.get(k))
    allowed = []
    refusal = False
    if placement == "sibling":
        opts["output_dir"] = "./doc"
        allowed.append(os.path.join(proj, "doc"))
    elif placement == "nested":
        opts["output_dir"] = "./build/deep/doc"
        allowed.append(os.path.join(proj, "build", "deep", "doc"))
    elif placement == "absolute":
        out = os.path.join(root, "abs_out", "d")
        opts["output_dir"] = out
        allowed.append(out)
    elif placement == "symlink":
        os.makedirs(os.path.join(root, "real_out"))
        open(os.path.join(root, "real_out", "neighbour.txt"), "w").write("not in the output dir\n")
        os.symlink(os.path.join(root, "real_out"), os.path.join(proj, "lnk"))
        opts["output_dir"] = "./lnk/doc"
        allowed.append(os.path.join(root, "real_out", "doc"))
    elif placement == "dotdot":
        os.makedirs(os.path.join(proj, "a"))
        opts["output_dir"] = "./a/../doc2"
        allowed.append(os.path.join(proj, "doc2"))
    elif placement == "inside_src":
        opts["output_dir"] = "./src/generated_doc"
        allowed.append(os.path.join(proj, "src", "generated_doc"))
    elif placement == "stale_output":
        out = os.path.join(proj, "doc")
        os.makedirs(os.path.join(out, "page", "old"))
        open(os.path.join(out, "page", "old", "stale.html"), "w").write("<html>stale</html>")
        open(os.path.join(out, "random.f90"), "w").write("module stale_mod\nend module stale_mod\n")
        os.makedirs(out + ".old")
        open(os.path.join(out + ".old", "keep.txt"), "w").write("an older copy the user keeps\n")
        # the stale output holds a link to a directory outside it (older documentation kept reachable)
        os.makedirs(os.path.join(root, "archive_v1", "sub"))
        open(os.path.join(root, "archive_v1", "index.html"), "w").write("<html>v1</html>")
        open(os.path.join(root, "archive_v1", "sub", "page.html"), "w").write("<html>v1 sub</html>")
        os.symlink(os.path.join("..", "..", "archive_v1"), os.path.join(out, "v1"))
        # files a publishing service keeps in the output directory
        open(os.path.join(out, "CNAME"), "w").write("docs.example.org\n")
        open(os.path.join(out, ".nojekyll"), "w").write("")
        opts["output_dir"] = "./doc"
        allowed.append(out)
    elif placement == "stale_blank_in_name":
        # an existing output directory whose name holds a blank and shell characters, next to directories named like its parts
        out = os.path.join(proj, "docs html;(v2)")
        os.makedirs(os.path.join(out, "old"))
        open(os.path.join(out, "old", "stale.html"), "w").write("<html>stale</html>")
        for base_ in (proj, os.path.join(root, "work")):
            for dn in ("docs", "html", "html;(v2)"):
                os.makedirs(os.path.join(base_, dn), exist_ok=True)
                open(os.path.join(base_, dn, "handwritten.md"), "w").write("the user's own\n")
        opts["output_dir"] = "./docs html;(v2)"
        allowed.append(out)
    elif placement == "file_in_the_way":
        # a regular file stands where a parent directory of the output directory would have to be
        open(os.path.join(proj, "build"), "w").write("#!/bin/sh\necho the user's build script\n")
        os.chmod(os.path.join(proj, "build"), 0o755)
        opts["output_dir"] = "./build/doc"
        allowed.append(os.path.join(proj, "build", "doc"))
    elif placement == "equals_src":
        opts["output_dir"] = "./src"
        refusal = True
    elif placement == "parent_of_src":
        opts["output_dir"] = "."
        refusal = True
    elif placement == "grandparent_of_second_src":
        os.makedirs(os.path.join(proj, "build", "lib", "src2"))
        open(os.path.join(proj, "build", "lib", "src2", "m2.f90"), "w").write("module cmod_c\nend module cmod_c\n")
        opts["src_dir"] = ["./src", "./build/lib/src2"]
        opts["output_dir"] = "./build"
        refusal = True
    elif placement == "symlinked_parent_of_src":
        os.symlink(".", os.path.join(proj, "self"))
        opts["output_dir"] = "./self/src"
        refusal = True
    if opts_on.get("outside_src") and not refusal:
        # a second source directory outside the project directory, holding files with the base names of files of the first
        os.makedirs(os.path.join(root, "common", "sub"))
        open(os.path.join(root, "common", "a.f90"), "w").write("module cmod_common_a\n!! doc\nend module cmod_common_a\n")
        open(os.path.join(root, "common", "sub", "b.f90"), "w").write("module cmod_common_b\n!! doc\nend module cmod_common_b\n")
        sd = opts["src_dir"] if isinstance(opts["src_dir"], list) else [opts["src_dir"]]
        opts["src_dir"] = sd + ["../common"]
    if opts_on.get("bad_preprocessor"):
        # the start-up check of the preprocessor fails: the run ends there, and nothing may be left behind
        opts["preprocess"] = True
        opts["preprocessor"] = rng.choice(["vf_no_such_preprocessor -E", "false"])
    if opts_on.get("force"):
        opts["force"] = True  # "try to continue past errors" is no licence to delete sources
    if opts.get("graph") and opts_on.get("graph_dir"):
        g = opts_on["graph_dir"]
        if g == "sibling":
            opts["graph_dir"] = "./graphs"
            allowed.append(os.path.join(proj, "graphs"))
        elif g == "in_output" and not refusal:
            opts["graph_dir"] = os.path.join(opts["output_dir"], "graphs") if not os.path.isabs(opts["output_dir"]) else os.path.join(opts["output_dir"], "graphs")
        elif g == "under_empty_parent":
            # the directory above the graph directory exists and is empty (made by the user's build system): it stays, whatever FORD saves
            os.makedirs(os.path.join(root, "gbuild"))
            opts["graph_dir"] = "../gbuild/graphs"
            allowed.append(os.path.join(root, "gbuild", "graphs"))
        elif g == "absolute":
            opts["graph_dir"] = os.path.join(root, "abs_graphs")
            allowed.append(os.path.join(root, "abs_graphs"))
        elif g == "contains_sources" and not refusal:
            # nothing forbids a graph directory that holds other things: they must be left alone
            os.makedirs(os.path.join(proj, "code", "src3"), exist_ok=True)
            open(os.path.join(proj, "code", "src3", "m3.f90"), "w").write("module cmod_g\nend module cmod_g\n")
            open(os.path.join(proj, "code", "NOTES.txt"), "w").write("notes\n")
            sd = opts["src_dir"] if isinstance(opts["src_dir"], list) else [opts["src_dir"]]
            opts["src_dir"] = sd + ["./code/src3"]
            opts["graph_dir"] = "./code"
            allowed.append(os.path.join(proj, "code"))
            opts["_preexisting_in_graph_dir"] = True
    pre_g = opts.pop("_preexisting_in_graph_dir", False)
    cli = []
    if opts_on.get("via_cli"):
        # the same directory given with -o on the command line: relative to the working directory
        val = opts.pop("output_dir")
        cli = ["-o", val if os.path.isabs(val) else os.path.join(os.path.relpath(proj, opts_on["cwd"]), val)]
    site.write_project_file(proj, opts, body="Front page.\n")
    opts["cli"] = cli
    opts["_graph_dir_with_content"] = os.path.join(proj, "code") if pre_g else None
    return proj, opts, allowed, refusal


def run_ford(proj, cwd, log, fail_at=0, fail_root="", strace_out=None, fail_match="", cli=()):
    env = {"VF_AUDIT_LOG": log, "PYTHONPATH": AUDIT_DIR + ":" + core.REPO}
    if fail_at:
        env["VF_FAIL_AT"] = str(fail_at)
        env["VF_FAIL_ROOT"] = fail_root
        env["VF_FAIL_MATCH"] = fail_match
    e = dict(os.environ)
    e.update(env)
    e["PATH"] = "/venv/bin:" + e.get("PATH", "")
    e["FORD_DEBUGGING"] = "1"
    e["PYTHONDONTWRITEBYTECODE"] = "1"
    pf = os.path.relpath(os.path.join(proj, "proj.md"), cwd)
    cmd = [core.PY, "-B", "-m", "ford", pf, *cli]
    if strace_out:
        cmd = ["strace", "-f", "-qq", "-e", "trace=openat,open,creat,mkdir,mkdirat,unlink,unlinkat,rename,renameat,renameat2,rmdir,symlink,symlinkat,link,linkat,chmod,fchmodat,truncate", "-o", strace_out] + cmd
    try:
        p = subprocess.run(cmd, cwd=cwd, env=e, capture_output=True, text=True, timeout=300)
        return p.returncode, (p.stdout + p.stderr)[-3000:]
    except subprocess.TimeoutExpired:
        return "timeout", ""


def read_log(log):
    ev = []
    if os.path.exists(log):
        for line in open(log):
            try:
                ev.append(json.loads(line))
            except Exception:
                pass
    return ev


def outside(path, cwd, allowed_real, harness_ok):
    p = path if os.path.isabs(path) else os.path.join(cwd, path)
    d = os.path.realpath(os.path.dirname(p))
    rp = os.path.join(d, os.path.basename(p))
    if rp.startswith("/dev/") or rp.startswith("/proc/") or "__pycache__" in rp:
        return False
    if any(rp == h or rp.startswith(h + os.sep) for h in harness_ok):
        return False
    return not any(rp == a or rp.startswith(a + os.sep) for a in allowed_real)


def case(arg):
    seed, placement, mode = arg  # mode: "plain" | "plain_lonely" | ("fail", k) | "strace"
    lonely = mode == "plain_lonely"  # a project whose graphs are all trivial, with a graph directory that the run has to create
    if lonely:
        mode = "plain"
    rng = random.Random(seed)
    root = core.mktemp("vf_c19_")
    logdir = core.mktemp("vf_c19log_")
    try:
        opts_on = {k: rng.random() < 0.6 for k in ("page_dir", "copy_subdir", "media_dir", "css", "favicon", "mathjax_config", "incl_src", "externalize", "search", "graph")}
        if mode != "plain":
            opts_on.update({"page_dir": True, "media_dir": True, "incl_src": True, "css": True, "search": True})
        if isinstance(mode, tuple) and len(mode) > 2:
            opts_on = {k: True for k in opts_on}
        opts_on["hostile_inputs"] = rng.random() < 0.4
        opts_on["outside_src"] = rng.random() < 0.4
        opts_on["linked_page_subdir"] = rng.random() < 0.4
        opts_on["force"] = rng.random() < 0.5
        if placement in REFUSALS:
            opts_on["force"] = seed % 2 == 1  # (the refusal is checked with and without `force` for every placement: main() gives both parities)
        opts_on["deep_media"] = rng.random() < 0.5
        opts_on["escaping_copy_subdir"] = rng.random() < 0.4
        opts_on["outside_subpage"] = rng.random() < 0.3
        opts_on["quiet"] = rng.random() < 0.4
        opts_on["html_template_dir"] = rng.random() < 0.3
        opts_on["bad_preprocessor"] = mode == "plain" and rng.random() < 0.3 and placement not in REFUSALS  # (a refusal case must reach the refusal)
        opts_on["graph_dir"] = [None, "sibling", "in_output", "absolute", "contains_sources", "under_empty_parent"][seed % 6]
        opts_on["lonely_sources"] = rng.random() < (0.6 if opts_on["graph_dir"] == "under_empty_parent" else 0.15)
        if opts_on["graph_dir"] and rng.random() < 0.8:
            opts_on["graph"] = True
        if lonely:
            opts_on.update({"graph": True, "lonely_sources": True, "bad_preprocessor": False, "graph_dir": ["under_empty_parent", "sibling", "absolute"][seed % 3]})
        cwd = rng.choice([os.path.join(root, "proj"), os.path.join(root, "work")])
        opts_on["cwd"] = cwd
        opts_on["via_cli"] = rng.random() < 0.3 and not (opts_on["graph_dir"] == "in_output")
        proj, opts, allowed, refusal = build_sandbox(root, rng, placement, opts_on)
        allowed_real = [os.path.realpath(a) for a in allowed]
        gpre = opts.pop("_graph_dir_with_content", None)
        excl = [a for a in allowed if a != gpre]  # what was in the graph directory before the run must stay as it was
        before = snapshot(root, excl)
        log = os.path.join(logdir, "audit.jsonl")
        fail_at = mode[1] if isinstance(mode, tuple) else 0
        fail_match = mode[2] if isinstance(mode, tuple) and len(mode) > 2 else ""
        strace_out = os.path.join(logdir, "strace.txt") if mode == "strace" else None
        rc, out = run_ford(proj, cwd, log, fail_at=fail_at, fail_root=root, strace_out=strace_out, fail_match=fail_match, cli=opts["cli"])
        after = snapshot(root, excl)
        if gpre:
            gp = os.path.relpath(gpre, root) + os.sep
            after = {k: v for k, v in after.items() if not (k.startswith(gp) and k not in before)}  # FORD may add its graph files
        events = read_log(log)
        viol = []
        cfg = {"placement": placement, "output_dir_from": "command line" if opts["cli"] else "project file", "mode": mode if isinstance(mode, str) else "failpoint", "cwd_is_project_dir": cwd == proj,
               "graph_dir": opts.get("graph_dir") is not None and opts_on["graph_dir"]}
        nmut = sum(1 for e in events if e["e"] != "popen")
        injected = [e for e in events if e.get("injected_failure")]
        if rc == "timeout":
            return {"viol": [], "inconclusive": "timeout", "cfg": cfg, "nmut": nmut, "key": core.h([placement, str(mode), sorted(k for k, v in opts_on.items() if v and k != "cwd")]), "sample": None, "injected": 0}
        # (1) snapshot
        ancestors = set()
        for a in allowed_real:
            d = os.path.dirname(a)
            while d.startswith(os.path.realpath(root) + os.sep):
                ancestors.add(d)
                d = os.path.dirname(d)
        rroot = os.path.realpath(root)

        def new_ancestor(k):  # a missing parent directory of the output directory may be created (as a directory)
            return k not in before and after.get(k, ("",))[0] == "dir" and os.path.realpath(os.path.join(rroot, k)) in ancestors

        changed = sorted(k for k in set(before) | set(after) if before.get(k) != after.get(k) and not new_ancestor(k))
        if changed:
            what = []
            for k in changed[:8]:
                what.append({"path": k, "before": before.get(k, "absent")[:2], "after": after.get(k, "absent")[:2]})
            kinds = sorted({("deleted" if k not in after else "created" if k not in before else "modified") for k in changed})
            viol.append({"kf": {"kind": "sandbox_changed_outside_output", "what": kinds, "top": sorted({c.split(os.sep)[0] + ("/" + c.split(os.sep)[1] if os.sep in c else "") for c in changed})[:3], **cfg},
                         "w": {"seed": seed, "changed": what, "n_changed": len(changed), "options": opts, "rc": rc, "output_tail": out[-600:]}})
        # (2) audit log
        bad = []
        for e in events:
            if e["e"] == "popen":
                continue
            for p in (e.get("p"), e.get("p2") if e["e"] in TWO_PATH else None):
                if p is None or p == "?" or p.startswith("<fd"):
                    continue
                if e["e"] in SRC_FIRST and p == e.get("p") and e.get("p2") is not None:
                    continue  # source side of a copy
                if e.get("dir_fd") and not os.path.isabs(p):
                    continue  # could not be resolved: covered by the shutil.rmtree event and the snapshot
                if e["e"] == "os.mkdir" and os.path.realpath(os.path.join(e.get("cwd", cwd), p)) in ancestors:
                    continue
                if outside(p, e.get("cwd", cwd), allowed_real, [os.path.realpath(logdir)]):
                    bad.append({"event": e["e"], "path": p, "k": e.get("k")})
        if bad:
            viol.append({"kf": {"kind": "mutating_event_outside_output", "event": bad[0]["event"], **cfg}, "w": {"seed": seed, "events": bad[:6], "options": opts, "rc": rc}})
        # (3) refusal
        if refusal:
            inside = [e for e in events if e["e"] != "popen" and not (e.get("p") or "").startswith("<fd") and os.path.realpath(os.path.join(e.get("cwd", cwd), e.get("p") or "")).startswith(os.path.realpath(root))]
            if rc == 0 or inside:
                viol.append({"kf": {"kind": "source_inside_output_not_refused_first", "ran_to_completion": rc == 0, **cfg},
                             "w": {"seed": seed, "rc": rc, "events_in_sandbox": inside[:5], "options": opts, "output_tail": out[-500:]}})
        elif mode == "plain" and rc != 0 and not opts_on.get("bad_preprocessor") and placement not in BLOCKED:
            # not a confinement violation, but the case did not exercise the write-out as intended
            return {"viol": viol, "inconclusive": "run without injected fault exited %r: %s" % (rc, out[-300:].replace("\n", " | ")), "cfg": cfg, "nmut": nmut, "key": "", "sample": None, "injected": 0}
        # strace: writes by any child process
        nstrace = 0
        if strace_out and os.path.exists(strace_out):
            import re

            for line in open(strace_out, errors="replace"):
                m = re.search(r'(openat|open|creat|mkdir|mkdirat|unlink|unlinkat|rename|renameat2?|rmdir|symlink|symlinkat|link|linkat|chmod|fchmodat|truncate)\((?:AT_FDCWD, |\d+, )?"([^"]*)"(.*)', line)
                if not m:
                    continue
                call, path, rest = m.groups()
                if call in ("openat", "open") and not re.search(r"O_WRONLY|O_RDWR|O_CREAT|O_TRUNC|O_APPEND", rest):
                    continue
                if "= -1" in rest:
                    continue
                nstrace += 1
                if not os.path.isabs(path):
                    continue  # relative to an fd / cwd of a child; the snapshot covers the sandbox
                if outside(path, cwd, allowed_real, [os.path.realpath(logdir), "/tmp", "/root/.cache", os.path.expanduser("~/.cache")]):
                    viol.append({"kf": {"kind": "syscall_write_outside_output", "call": call, **cfg}, "w": {"seed": seed, "line": line.strip()[:300]}})
                    break
        return {"viol": viol, "inconclusive": None, "cfg": cfg, "nmut": nmut, "injected": len(injected), "nstrace": nstrace,
                "key": core.h([placement, str(mode), sorted(k for k, v in opts_on.items() if v and k != "cwd"), cfg["cwd_is_project_dir"]]),
                "sample": {"seed": seed, "placement": placement, "mode": str(mode), "options": opts, "rc": rc, "mutating_events": nmut,
                           "first_events": [(e["e"], os.path.relpath(e["p"], root) if e.get("p", "").startswith(root) else e.get("p")) for e in events[:8]]}}
    finally:
        shutil.rmtree(root, ignore_errors=True)
        shutil.rmtree(logdir, ignore_errors=True)


def main():
    run = core.Run(
        PID, level="fault_enumeration",
        rule="case = (placement of output_dir in {sibling, nested, absolute, through a symlink, with .., inside a source dir, stale output present; "
        "refusal cases: equal to a source dir, parent of it, grandparent of a second source dir, same directory through a symlinked path}, "
        "graph_dir in {none, sibling, inside output, absolute}, random subset of {page_dir, copy_subdir, media_dir, css, favicon, mathjax_config, "
        "incl_src, externalize, search, graph, force, a second source directory outside the project with equal file names, a page sub-directory "
        "that is a symbolic link to a directory outside page_dir}, working directory = project dir or elsewhere, fault = none or OSError injected at the k-th "
        "mutating file-system event of the real `python -m ford` process). Non-trivial: every case (distinct by placement, option vector, cwd, k).",
        assumptions=["the audit hook sees the FORD process; writes of `dot` children are covered by the sandbox snapshot (and by strace in the thorough tier)",
                     "atime changes are not compared; inputs the user placed inside the output directory are not protected (except source dirs: refusal)",
                     "events addressed relative to a directory fd (inside shutil.rmtree) are judged through the rmtree event and the snapshot"],
    )
    rp = core.replay_arg()
    if rp:
        w = json.load(open(rp))
        c = w["classification"]
        print("replay: re-run ./check C19 with VERIF_SEED=%s; witness seed=%s placement=%s" % (w["seed"], w["witness"].get("seed"), c.get("placement")))
        sys.exit(1)
    thorough = run.tier == "thorough"
    rng = random.Random(run.seed * 19 + 2)
    args = []
    base = run.seed * 100003
    i = 0
    for rep in range(6 if thorough else 2):
        for pl in PLACEMENTS + REFUSALS + BLOCKED + BLOCKED:
            i += 1
            args.append((base + i if pl not in REFUSALS else base + 5000 + 2 * (REFUSALS.index(pl) + 10 * (rep // 2)) + rep % 2, pl, "plain"))
    for k_ in range(6 if thorough else 3):
        args.append((base + 6000 + k_, ["sibling", "nested", "absolute"][k_ % 3], "plain_lonely"))
    # failpoints: find the number of events on a reference run, then inject at k
    step = 1 if thorough else 6
    for pl in (PLACEMENTS if thorough else ["sibling", "symlink", "stale_output"]):
        for k in range(1, 260 if thorough else 200, step if pl == "sibling" else (3 if thorough else 17)):
            i += 1
            args.append((base + 7000 + (PLACEMENTS.index(pl) * 1000), pl, ("fail", k)))
    for pl in (PLACEMENTS if thorough else ["sibling", "absolute", "stale_output"]):
        for text in ("assets", "shared", "media", "custom.css", "fav.png", "mj.js", "/src/", "search", "graph", "modules.json", "/page/", "index.html", "sourcefile", "/css/", "/js/", "tipuesearch",
                     "stale", "random.f90", "extra.html"):
            for k in ((1, 2, 5) if thorough else (1, 2)):
                args.append((base + 8000 + PLACEMENTS.index(pl), pl, ("fail", k, text)))
    if thorough:
        for pl in ("sibling", "absolute", "symlink"):
            args.append((base + 9000, pl, "strace"))
    results = core.fork_map(case, args, per_case_fork=False, case_timeout=400, total_timeout=3400)
    maxk = 0
    for a, (st, r) in zip(args, results):
        if st != "ok":
            run.inconc(f"{st}: {str(r)[-300:]}")
            continue
        if r["inconclusive"]:
            run.inconc(r["inconclusive"])
            for v in r["viol"]:
                run.violation(v["kf"], v["w"])
            continue
        run.case(key=r["key"] + str(a[2]), nontrivial=True, sample=r["sample"] if a[2] == "plain" and r["nmut"] > 50 else None)
        run.count("mutating_events_logged", r["nmut"])
        run.count("runs_" + r["cfg"]["mode"])
        run.count("failures_injected", r["injected"])
        run.count("strace_write_syscalls_seen", r.get("nstrace", 0))
        run.seen("placements", a[1])
        run.seen("output_dir_from", r["cfg"]["output_dir_from"])
        if isinstance(a[2], tuple) and r["injected"]:
            run.seen("fault_points_hit", f"{a[1]}:{a[2][1:]}")
            if len(a[2]) == 2:
                maxk = max(maxk, a[2][1])
        for v in r["viol"]:
            run.violation(v["kf"], v["w"])
    run.extra["largest_fault_point_that_fired"] = maxk
    run.max_samples = 2
    run.finish(floors={"evaluations": 30, "distinct_nontrivial": 30, "mutating_events_logged": 2000, "failures_injected": 15, "placements": 11})


if __name__ == "__main__":
    main()
